"""C16 -- queues lose nothing, duplicate nothing and respect their capacity (the sequential core)."""
from pyvc.api import *

PROP = 'C16'
REPLAYERS = {q: 'replayers/queue_ops.py' for q in (
    'queues.Queue.put', 'queues.Queue.get', 'queues.JoinableQueue.put', 'queues.JoinableQueue.task_done',
    'queues.JoinableQueue.join', 'queues.Queue._feed', 'queues.SimpleQueue.get_payload',
    'queues.SimpleQueue.send_payload', 'queues._SimpleQueue.get', 'queues._SimpleQueue.put',
    'queues.Queue._finalize_close')}

ASSUMPTIONS = [
    'the capacity semaphore / locks / condition are the C SemLock wrappers (C17): acquire(block, timeout) returns False only '
    'for a non-blocking call or after its timeout has elapsed (the ghost clock advances by at least the timeout); release adds one',
    '_recv_bytes() returns one whole message (C13 framing); _poll(t) returns False only after t seconds (ghost clock)',
    'one thread at a time inside put/get/task_done/join (the interleavings of producers, consumers and the feeder thread are '
    'out of reach: see OUT_OF_REACH)',
]
OUT_OF_REACH = [
    'exactly-once delivery and per-producer order across processes: they are the composition of "put appends at the tail of '
    'the buffer after taking a place", the feeder thread sending the buffer head first (Queue._feed: not under contract), the '
    'pipe (C13) and "get receives one message and gives one place back" -- the composition over all interleavings is not a '
    'contract-level statement',
    'JoinableQueue.join returns *exactly when* every item was matched by a task_done: proved is the counting per call and that '
    'the waiters are notified when the count reaches zero; that no wake-up is lost is C17',
]


def declare(w):
    w.cls('g', fields={'now': RealS, 'taken': IntS, 'released': IntS, 'received': IntS, 'notified': IntS, 'waited': IntS,
                       'threads_started': IntS})
    w.cls('SemB', fields={'count': IntS, '_semlock': ref('SemB')})
    w.cls('LockQ', fields={'held': BoolS})
    w.cls('CondQ', fields={'held': BoolS})
    w.cls('Q', module='queues', pyname='Queue', fields={
        '_closed': BoolS, '_sem': ref('SemB'), '_notempty': ValS, '_thread': opt(ValS), '_buffer': list_of(ValS),
        '_rlock': ref('LockQ'), '_recv_bytes': ValS, '_poll': ValS, '_maxsize': IntS})
    w.cls('JQ', module='queues', pyname='JoinableQueue', base='Q', fields={
        '_unfinished_tasks': ref('SemB'), '_cond': ref('CondQ')})


def sem_acquire(ex, args, kw):
    """SemLock.acquire(block=True, timeout=None)"""
    me = args[0]
    P = ex.path
    block = args[1] if len(args) > 1 else mk_bool(True)
    timeout = args[2] if len(args) > 2 else SNone()
    c = P.read_field(me, 'count')
    if ex.path.decide(c.e > 0):
        P.write_field(me, 'count', SV(IntS, c.e - 1))
        gset(ex, 'taken', SV(IntS, gget(ex, 'taken').e + 1))
        return mk_bool(True)
    # no place free now
    blocking = ex.test(block)
    if isinstance(timeout, SNone):
        t = None
    elif isinstance(timeout, SOpt):
        t = None if P.decide(timeout.isnone) else timeout.val
    else:
        t = timeout
    if blocking and t is None:
        # waits until a place is free (another thread releases)
        gset(ex, 'taken', SV(IntS, gget(ex, 'taken').e + 1))
        return mk_bool(True)
    if blocking:
        k = P.choose(2)
        if k == 0:
            gset(ex, 'taken', SV(IntS, gget(ex, 'taken').e + 1))
            return mk_bool(True)
        now = gget(ex, 'now')
        later = RealS.fresh('after_timeout')
        P.assume(later.e >= now.e + z3.If(as_arith(t) > 0, as_arith(t), 0))
        gset(ex, 'now', later)
    return mk_bool(False)


def sem_release(ex, args, kw):
    me = args[0]
    c = ex.path.read_field(me, 'count')
    ex.path.write_field(me, 'count', SV(IntS, c.e + 1))
    gset(ex, 'released', SV(IntS, gget(ex, 'released').e + 1))
    return SNone()


def sem_is_zero(ex, args, kw):
    # the unfinished-task count of a JoinableQueue is only looked at under the queue's condition lock: a test made
    # outside it can be overtaken by the last task_done() (its notify_all finds nobody waiting; the join() that then
    # waits is never woken)
    me = ex.root.scopes[0].get('self')
    if isinstance(me, SRef) and me.shape.cls == 'JQ':
        cond = ex.path.read_field(me, '_cond')
        ut = ex.path.read_field(me, '_unfinished_tasks')
        prove(ex, 'guarded.unfinished_count_tested_under_the_condition_lock',
              z3.Implies(ut.id == args[0].id, ex.path.read_field(cond, "held").e))
    return SV(BoolS, ex.path.read_field(args[0], 'count').e == 0)


def cond_enter(ex, args, kw):
    ex.path.write_field(args[0], 'held', mk_bool(True))
    return SNone()


def cond_exit(ex, args, kw):
    ex.path.write_field(args[0], 'held', mk_bool(False))
    return SNone()


def lock_acquire(ex, args, kw):
    """Lock.acquire(block, timeout): False only for a non-blocking call or after the timeout"""
    me = args[0]
    P = ex.path
    block = args[1] if len(args) > 1 else mk_bool(True)
    timeout = args[2] if len(args) > 2 else SNone()
    if P.choose(2) == 0:
        P.write_field(me, 'held', mk_bool(True))
        return mk_bool(True)
    if ex.test(block):
        if isinstance(timeout, SNone) or (isinstance(timeout, SOpt) and P.decide(timeout.isnone)):
            raise PathEnd()          # a blocking acquire without timeout does not fail
        t = as_arith(ex.force(timeout))
        later = RealS.fresh('after_lock_timeout')
        P.assume(later.e >= gget(ex, 'now').e + z3.If(t > 0, t, 0))
        gset(ex, 'now', later)
    return mk_bool(False)


def lock_release(ex, args, kw):
    ex.path.write_field(args[0], 'held', mk_bool(False))
    return SNone()


def lock_enter(ex, args, kw):
    ex.path.write_field(args[0], 'held', mk_bool(True))
    return SNone()


def ext_monotonic(ex, args, kw):
    now = gget(ex, 'now')
    r = RealS.fresh('monotonic')
    ex.path.assume(r.e >= now.e)
    gset(ex, 'now', r)
    return r


def ext_callable(ex, args, kw):
    """self._recv_bytes() / self._poll([timeout])"""
    P = ex.path
    me = ex.root.scopes[0]['self']
    fn = args[0]
    if P.decide(fn.e == P.read_field(me, '_poll').e):
        if P.choose(2) == 0:
            return mk_bool(True)
        if len(args) > 1:
            t = as_arith(ex.force(args[1]))
            later = RealS.fresh('after_poll')
            P.assume(later.e >= gget(ex, 'now').e + z3.If(t > 0, t, 0))
            gset(ex, 'now', later)
        return mk_bool(False)
    gset(ex, 'received', SV(IntS, gget(ex, 'received').e + 1))
    return SV(ValS, z3.Const(fresh_name('message'), Val))


def build(w):
    declare(w)
    w.classes['SemB'].methods.update({'acquire': sem_acquire, 'release': sem_release, '_is_zero': sem_is_zero})
    w.classes['LockQ'].methods.update({'acquire': lock_acquire, 'release': lock_release, 'with_enter': lock_enter,
                                       'with_exit': lock_release})
    w.classes['CondQ'].methods.update({
        'notify_all': lambda ex, a, k: (gset(ex, 'notified', SV(IntS, gget(ex, 'notified').e + 1)), SNone())[1],
        'wait': lambda ex, a, k: (gset(ex, 'waited', SV(IntS, gget(ex, 'waited').e + 1)), SNone())[1],
        'with_enter': cond_enter, 'with_exit': cond_exit})
    w.classes['Q'].methods['_start_thread'] = lambda ex, a, k: (
        ex.path.write_field(a[0], '_thread', SV(ValS, z3.Const('feeder_thread', Val))),
        gset(ex, 'threads_started', SV(IntS, gget(ex, 'threads_started').e + 1)), SNone())[2]
    w.classes['JQ'].methods['_start_thread'] = w.classes['Q'].methods['_start_thread']
    w.externals.update({'<opaque>.notify': lambda ex, a, k: SNone(), '<callable>': ext_callable,
                        'time.monotonic': ext_monotonic, 'queues.monotonic': ext_monotonic,
                        '_pickle.loads': lambda ex, a, k: a[0], 'pickle.loads': lambda ex, a, k: a[0],
                        'reduction.ForkingPickler.loads': lambda ex, a, k: a[0]})
    wf = ('allocated(self._sem) and allocated(self._buffer) and len(self._buffer) >= 0 and self._sem.count >= 0 and '
          'allocated(self._rlock) and self._poll != self._recv_bytes')
    appended = ('len(self._buffer) == old(len(self._buffer)) + 1 and at(self._buffer, old(len(self._buffer))) == obj and '
                'all(implies(0 <= k and k < old(len(self._buffer)), at(self._buffer, k) == old(at(self._buffer, k))) for k in ints())')
    untouched = ('len(self._buffer) == old(len(self._buffer)) and '
                 'all(implies(0 <= k and k < len(self._buffer), at(self._buffer, k) == old(at(self._buffer, k))) for k in ints())')
    put_mod = ['self._sem.count', 'self._buffer.*', 'self._thread', 'g.taken', 'g.now', 'g.threads_started']
    put = Contract(
        'queues.Queue.put', prop=PROP, params={'self': ref('Q'), 'obj': ValS, 'block': BoolS, 'timeout': opt(RealS)},
        requires={'wf': wf},
        modifies=put_mod,
        ensures={'a_place_is_taken_then_the_item_goes_to_the_tail': appended + ' and g.taken == old(g.taken) + 1',
                 'the_feeder_thread_is_started_once': 'self._thread is not None and '
                                                      'g.threads_started == old(g.threads_started) + ite(old(self._thread) is None, 1, 0)'},
        raises={'Full': {'nothing_buffered_when_there_is_no_place': untouched + ' and g.taken == old(g.taken) and '
                                                                  'old(self._sem.count) == 0',
                         'only_for_a_non_blocking_or_timed_put': 'not block or timeout is not None',
                         'only_once_the_timeout_has_elapsed': 'implies(block and timeout is not None, '
                                                              'g.now >= old(g.now) + val(timeout))'},
                'AssertionError': {'closed': 'self._closed'}},
    )
    get = Contract(
        'queues.Queue.get', prop=PROP, params={'self': ref('Q'), 'block': BoolS, 'timeout': opt(RealS)},
        requires={'wf': wf, 'lock_free': 'not self._rlock.held'},
        modifies=['self._sem.count', 'self._rlock.held', 'g.released', 'g.received', 'g.now'],
        returns=ValS,
        ensures={'one_message_received_and_one_place_given_back': 'g.received == old(g.received) + 1 and '
                                                                  'g.released == old(g.released) + 1 and '
                                                                  'self._sem.count == old(self._sem.count) + 1',
                 'reader_lock_released': 'not self._rlock.held'},
        raises={'Empty': {'nothing_received_and_no_place_given_back': 'g.received == old(g.received) and '
                                                                      'g.released == old(g.released)',
                          'only_for_a_non_blocking_or_timed_get': 'not block or timeout is not None',
                          'only_once_the_timeout_has_elapsed': 'implies(block and timeout is not None, '
                                                               'g.now >= old(g.now) + val(timeout))',
                          'reader_lock_released': 'not self._rlock.held'}},
    )
    jwf = wf + ' and allocated(self._unfinished_tasks) and self._unfinished_tasks.count >= 0 and allocated(self._cond) and ' \
               'self._unfinished_tasks != self._sem and self._unfinished_tasks._semlock == self._unfinished_tasks and ' \
               'not self._cond.held'
    jput = Contract(
        'queues.JoinableQueue.put', prop=PROP, params={'self': ref('JQ'), 'obj': ValS, 'block': BoolS, 'timeout': opt(RealS)},
        requires={'wf': jwf},
        modifies=put_mod + ['self._unfinished_tasks.count', 'g.released'],
        ensures={'a_place_is_taken_then_the_item_goes_to_the_tail': appended + ' and g.taken == old(g.taken) + 1',
                 'one_more_unfinished_task': 'self._unfinished_tasks.count == old(self._unfinished_tasks.count) + 1'},
        raises={'Full': {'nothing_buffered_and_nothing_counted': untouched + ' and g.taken == old(g.taken) and '
                                                                 'self._unfinished_tasks.count == old(self._unfinished_tasks.count)',
                         'only_for_a_non_blocking_or_timed_put': 'not block or timeout is not None'},
                'AssertionError': {'closed': 'self._closed'}},
    )
    task_done = Contract(
        'queues.JoinableQueue.task_done', prop=PROP, params={'self': ref('JQ')},
        requires={'wf': jwf},
        modifies=['self._unfinished_tasks.count', 'g.taken', 'g.notified', 'g.now'],
        ensures={'one_task_fewer': 'self._unfinished_tasks.count == old(self._unfinished_tasks.count) - 1',
                 'waiters_woken_exactly_when_all_tasks_are_done': 'g.notified == old(g.notified) + '
                                                                  'ite(self._unfinished_tasks.count == 0, 1, 0)'},
        raises={'ValueError': {'called_too_many_times': 'old(self._unfinished_tasks.count) == 0 and '
                                                        'self._unfinished_tasks.count == 0 and g.notified == old(g.notified)'}},
    )
    join = Contract(
        'queues.JoinableQueue.join', prop=PROP, params={'self': ref('JQ')},
        requires={'wf': jwf},
        modifies=['g.waited'],
        ensures={'waits_exactly_when_tasks_are_unfinished': 'g.waited == old(g.waited) + '
                                                            'ite(self._unfinished_tasks.count != 0, 1, 0)'},
    )
    # ---- the feeder thread: what was buffered first is written to the pipe first, each item once ------------------
    # ghost: g.total is the all-time sequence of items appended to the buffer (a prophecy map: other threads append
    # while the feeder waits), g.popped how many of them the feeder has taken, g.n_sent / g.sent what it wrote
    g = w.classes['g']
    g.fields.update({'total': MapS(IntS, ValS), 'popped': IntS, 'n_sent': IntS, 'sent': MapS(IntS, ValS), 'closed': BoolS})
    pickled = z3.Function('pickled', Val, Val)

    def ext_dumps(ex, args, kw):
        return SV(ValS, pickled(args[-1].e))

    def ext_send(ex, args, kw):
        """send_bytes(data): written to the pipe, in call order"""
        n = gget(ex, 'n_sent')
        m = gget(ex, 'sent')
        gset(ex, 'sent', m.shape.store(m, n, args[-1]))
        gset(ex, 'n_sent', SV(IntS, n.e + 1))
        return SNone()

    def ext_nwait(ex, args, kw):
        """notempty.wait(): other threads append to the tail of the buffer meanwhile (what they append is g.total)"""
        P = ex.path
        buf = ex.root.scopes[0]['buffer']
        old_len = P.read_field(buf, 'len').e
        items = P.read_field(buf, 'items')
        new_len = IntS.fresh('len_after_wait')
        new_items = items.shape.fresh('items_after_wait')
        k = z3.Int(fresh_name('k'))
        tot = gget(ex, 'total')
        popped = gget(ex, 'popped').e
        P.assume(new_len.e >= old_len)
        P.assume(z3.ForAll([k], z3.Implies(z3.And(k >= 0, k < new_len.e),
                                           new_items.shape.select(new_items, SV(IntS, k)).e ==
                                           tot.shape.select(tot, SV(IntS, popped + k)).e)))
        P.write_field(buf, 'items', new_items)
        P.write_field(buf, 'len', new_len)
        return SNone()

    def feed_callable(ex, args, kw):
        P = ex.path
        fn = args[0]
        sc = ex.root.scopes[0]
        if P.decide(fn.e == sc['send_bytes'].e):
            return ext_send(ex, args[1:], kw)
        gset(ex, 'closed', mk_bool(True))          # close()
        return SNone()
    w.global_overrides['queues._sentinel'] = lambda ex: SV(ValS, z3.Const('the_sentinel', Val))
    w.spec_funcs['the_sentinel'] = lambda ex: SV(ValS, z3.Const('the_sentinel', Val))

    def ext_fnotify(ex, args, kw):
        gset(ex, 'notified', SV(IntS, gget(ex, 'notified').e + 1))
        return SNone()
    in_step = 'all(implies(0 <= k and k < len(buffer), at(buffer, k) == g.total[g.popped + k]) for k in ints())'
    sent_in_order = 'all(implies(0 <= k and k < g.n_sent, g.sent[k] == pickled(g.total[k])) for k in ints())'
    w.spec_funcs['pickled'] = lambda ex, v: SV(ValS, pickled(v.e))
    feed = Contract(
        'queues.Queue._feed', prop=PROP,
        params={'buffer': list_of(ValS), 'notempty': ValS, 'send_bytes': ValS, 'writelock': ValS, 'close': ValS,
                'ignore_epipe': BoolS},
        externals={'<opaque>.acquire': lambda ex, a, k: SNone(), '<opaque>.release': lambda ex, a, k: SNone(),
                   '<opaque>.wait': ext_nwait, '<callable>': feed_callable,
                   'reduction.ForkingPickler.dumps': ext_dumps, '_pickle.dumps': ext_dumps, 'pickle.dumps': ext_dumps},
        requires={'buffer': 'allocated(buffer) and len(buffer) >= 0 and g.popped >= 0 and g.n_sent == g.popped and '
                            'send_bytes != close and not g.closed', 'buffer_is_the_unsent_part_of_the_history': in_step,
                  'sent_so_far_in_order': sent_in_order},
        modifies=['buffer.*', 'g.popped', 'g.n_sent', 'g.sent', 'g.closed'],
        loops={0: {'inv': {'buffer_is_the_unsent_part_of_the_history': in_step, 'sent_so_far_in_order': sent_in_order,
                           'counts': 'g.n_sent == g.popped and g.popped >= 0 and len(buffer) >= 0 and not g.closed'},
                   'modifies': ['buffer.*', 'g.popped', 'g.n_sent', 'g.sent']},
               1: {'inv': {'buffer_is_the_unsent_part_of_the_history': in_step, 'sent_so_far_in_order': sent_in_order,
                           'counts': 'g.n_sent == g.popped and g.popped >= 0 and len(buffer) >= 0 and not g.closed'},
                   'modifies': ['buffer.*', 'g.popped', 'g.n_sent', 'g.sent']}},
        ghost_after=None,
        lemmas=[{'before': 'if obj is sentinel:', 'ghost': [('popped', 'g.popped + 1')], 'prove': {}}],
        ensures={'everything_taken_was_sent_once_in_buffer_order': sent_in_order + ' and g.n_sent == g.popped - 1 and g.closed',
                 },
        raises={},
    )
    # the stop request of close(): the feeder stops at the sentinel, so the sentinel must come *after* everything that was
    # put before the close -- appended at the tail, nothing before it touched, and the feeder told
    fin_close = Contract(
        'queues.Queue._finalize_close', prop=PROP, params={'buffer': list_of(ValS), 'notempty': ValS},
        externals={'queues.debug': lambda ex, a, k: SNone(), '<opaque>.notify': ext_fnotify,
                   '<opaque>.with_enter': lambda ex, a, k: SNone(), '<opaque>.with_exit': lambda ex, a, k: SNone()},
        requires={'buffer': 'allocated(buffer) and len(buffer) >= 0 and g.notified == 0'},
        modifies=['buffer.*', 'g.notified'],
        ensures={'stop_request_queued_behind_everything_put_before_the_close':
                     'len(buffer) == old(len(buffer)) + 1 and at(buffer, len(buffer) - 1) == the_sentinel()',
                 'objects_put_before_the_close_keep_their_places': 'all(implies(0 <= k and k < old(len(buffer)), '
                                                                   'at(buffer, k) == old(at(buffer, k))) for k in ints())',
                 'the_feeder_is_told': 'g.notified == 1'},
    )
    import c16_simple
    return [put, get, jput, task_done, join, feed, fin_close] + c16_simple.simple_queue_contracts(w, PROP, pickled)


MANIFEST_ENTRY = {
    'text': 'PARTIAL (the sequential core; the property as stated quantifies over interleavings of producers, consumers and '
            'the feeder thread, which contracts on single calls do not decide).  '
            'Proof of the sequential core of the queues (one thread inside each operation): Queue.put takes a place of the '
            'capacity semaphore and only then appends the item at the tail of the buffer (Full is raised without buffering, '
            'only for a non-blocking or timed put, and not before the timeout has elapsed on the ghost clock); Queue.get, in '
            'all three modes, receives exactly one message and gives exactly one place back, raises Empty without receiving '
            'anything and not before its timeout, and always releases the reader lock; the feeder thread (Queue._feed, two '
            'nested loops with invariants over a prophecy of what other threads append) writes what was buffered first to the '
            'pipe first, each item exactly once, until the sentinel; close()\'s stop request (_finalize_close) queues the sentinel '
            'behind everything buffered before it and wakes the feeder; JoinableQueue.put counts one unfinished task exactly when '
            'it buffers, task_done() takes one off, raises ValueError at zero and wakes the waiters exactly when the count '
            'reaches zero, join() waits exactly when tasks are unfinished.  SimpleQueue (the pool\'s own task and result '
            'queues): get_payload reads one whole message with the reader lock held, send_payload writes one with the writer '
            'lock held (or without a lock where there is none), both release their lock on every way out, including a failing '
            'pipe; get() unpickles exactly the message read, after the lock is released; put() pickles the object before '
            'taking the lock and sends it once.',
    'note': 'This is the part of C16 a contract can state.  That every item is returned by exactly one get across processes, '
            'per-producer order, and "join returns exactly when" are compositions over all interleavings of producers, '
            'consumers and the feeder thread (plus C13 for the pipe and C17 for the wake-ups): not proved here.  SemLock '
            'semantics and time-outs are assumed contracts.',
}
