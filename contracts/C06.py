"""C06 -- soft time limit is raised once, inside the task that exceeded it."""
from pyvc.api import *
import pool_shared as ps
import handles as H
import timeouts as T

PROP = 'C06'
VARIANTS = ['apply', 'map', 'imap', 'fork']
REPLAYERS = {'pool.TimeoutHandler.handle_timeouts': 'replayers/timeout_scan.py',
             'pool.Pool.apply_async': 'replayers/apply_limits.py', 'pool.ApplyResult._ack': 'replayers/ack_owner.py',
             'pool.Worker.after_fork': 'replayers/after_fork.py', 'pool.soft_timeout_sighandler': 'replayers/after_fork.py'}

ASSUMPTIONS = [
    'A-env: a signal sent to a live process is delivered; the handler installed for SIG_SOFT_TIMEOUT in the child is '
    'soft_timeout_sighandler (Worker.after_fork)',
    'A-atomic: a scan does not interleave with the result handler below handler granularity; with it, a job in the scanned '
    'copy that has a result already processed is no longer in the cache',
    'job ids are never reused (itertools.count)',
]
OUT_OF_REACH = ['the race in which the result thread resolves the job between the copy and the signal (threads=True)',
                'delivery of the signal inside the worker (kernel)']


def build(w, variant='apply'):
    if variant == 'fork':
        # what the child installs before it takes jobs (shared with C08)
        import worker_fork
        w.cls('g', fields={})
        return worker_fork.fork_contracts(w, PROP)
    T.declare(w, variant)
    ps.declare_submission(w)
    w.classes['g'].fields.update({'cb_soft': BoolS, 'cb_limit': opt(RealS), 'sig_target': opt(IntS), 'sig_num': opt(IntS)})
    items = [T.scan_contract(PROP, variant)]
    if variant == 'apply':
        for c in H.apply_handle_contracts(PROP):
            w.contracts.setdefault(c.qualname, c)
            if c.qualname.endswith('ApplyResult._ack'):
                # "no soft-timeout signal on behalf of a job whose result has already been processed": a job whose result
                # overtook its ACK must leave the cache when the ACK is handled, or the scan still sees it (removed_iff_ready)
                items.append(c)
        items += [T.soft_contract(PROP), ps.apply_async_contract(PROP)]
    return items

MANIFEST_ENTRY = {
    'text': 'Proof (unbounded): the time-limit scan is a generator; its invariant across any number of scans (yield cut points, the '
            'environment free to resolve, remove and add jobs but never to reuse a job id) is that every job has been signalled '
            'at most once and that signalled jobs are remembered as long as they are in the cache; within a scan on_soft_timeout is '
            'called only for a job past its effective soft limit (per-job value, else pool default), not already past its hard '
            'limit, and never a second time; on_soft_timeout sends exactly one SIG_SOFT_TIMEOUT to the recorded owner if that '
            'worker is still in the pool and tells the timeout callback soft=True and the limit; apply_async stores the per-job '
            'soft limit in preference to the pool default; map/imap handles are never signalled (D6, fixed).  In the child '
            '(variant fork): Worker.after_fork installs soft_timeout_sighandler for the soft-timeout signal -- after the '
            'termination handlers, which are installed once, with the worker\'s protection level and with the inherited exit '
            'flag already cleared -- ignores SIGINT, runs the initializer once first and closes the two unused pipe ends; '
            'soft_timeout_sighandler always raises SoftTimeLimitExceeded.',
    'note': 'Signal delivery is assumed (that a delivered signal runs the installed handler inside the task); the threads=True race '
            'between the scan and the result handler is out of reach.',
}
