"""Contracts of the time-limit machinery (C05 hard limits, C06 soft limits)."""
from pyvc.api import *
import pool_shared as ps
import handles as H

# effective limits as the scan computes them (per-job value, else pool default)
HARD = '(job._timeout if job._timeout is not None else self.t_hard)'
SOFT = '(job._soft_timeout if job._soft_timeout is not None else self.t_soft)'


def due(limit, now='g.now'):
    """_timed_out(ack_time, limit) as a formula: accepted, limit set, clock past it"""
    return ('(job._time_accepted is not None and job._time_accepted != 0 and %s is not None and %s != 0 '
            'and %s >= val(job._time_accepted) + val(%s))' % (limit, limit, now, limit))


def _scan_env(ex):
    """`self` of the scan (the TimeoutHandler) from the root frame"""
    return ex.root.scopes[0]['self']


def ext_on_hard(ex, args, kw):
    """TimeoutHandler.on_hard_timeout(job), as called by the scan: the call is
    only allowed for a job whose hard limit has expired (obligation), it is
    counted (ghost g.hard) -- the method itself is under contract in C01/C05"""
    me, job = args
    env = {'self': me, 'job': job}
    prove(ex, 'call:on_hard_timeout.only_for_a_job_past_its_hard_limit', ex.spec_bool(due(HARD), env))
    hm = gget(ex, 'hard')
    j = ex.path.read_field(job, '_job')
    gset(ex, 'hard', hm.shape.store(hm, j, SV(IntS, hm.shape.select(hm, j).e + 1)))
    return SNone()


def ext_on_soft(ex, args, kw):
    """TimeoutHandler.on_soft_timeout(job), as called by the scan: only for a
    job past its soft limit, not yet past its hard limit, and never twice"""
    me, job = args
    env = {'self': me, 'job': job}
    prove(ex, 'call:on_soft_timeout.only_for_a_job_past_its_soft_limit', ex.spec_bool(due(SOFT), env))
    sm = gget(ex, 'soft')
    j = ex.path.read_field(job, '_job')
    prove(ex, 'call:on_soft_timeout.at_most_once_per_job', sm.shape.select(sm, j).e == 0)
    gset(ex, 'soft', sm.shape.store(sm, j, SV(IntS, sm.shape.select(sm, j).e + 1)))
    return SNone()


def ext_never(what):
    def f(ex, args, kw):
        """map / imap handles carry no single acceptance time and no limits: the
        scan must leave them alone"""
        prove(ex, 'call:%s.never_for_map_or_imap_handles' % what, z3.BoolVal(False))
        return SNone()
    return f


def declare(w, kind):
    ps.declare(w, kind)
    H.declare_handles(w, kind)
    ps.declare_handlers(w)
    w.classes['g'].fields.update({
        'hard': MapS(IntS, IntS), 'soft': MapS(IntS, IntS),      # calls per job id
        'hard0': MapS(IntS, IntS), 'now0': RealS,                 # snapshot at the start of a scan
    })


def scan_contract(prop, kind):
    """TimeoutHandler.handle_timeouts: one iteration of the outer loop (between
    two yields) is one scan over a copy of the cache"""
    cachekey = 'all(implies(has(self.cache, k), allocated(get(self.cache, k)) and get(self.cache, k)._job == k) for k in ints())'
    dirty_inv = {
        # C06: a soft limit is signalled at most once per job, over any number of scans
        'soft_at_most_once': 'all(g.soft[k] <= 1 and g.soft[k] >= 0 for k in ints())',
        'signalled_jobs_are_remembered': 'all(implies(g.soft[k] >= 1, has(dirty, k) or not has(self.cache, k)) for k in ints())',
        'cache_keys_are_job_ids': cachekey,
        'closure': 't_hard == self.t_hard and t_soft == self.t_soft and fresh(dirty)',
    }
    job = 'get(cache, k)'
    due0 = due(HARD, 'g.now0').replace('job.', job + '.')
    loops = {
        0: {'inv': dirty_inv, 'modifies': ['g.now', 'g.hard', 'g.soft', 'dirty.*', 'g.hard0', 'g.now0', 'Job.*',
                                          'self.cache.*', 'Event.flag'],
            'locals': {'cache': dict_of(IntS, ref('Job')), 'dirty': set_of(IntS)}},
        1: {'inv': dict(
                {k: v for k, v in dirty_inv.items() if k != 'signalled_jobs_are_remembered'},
                signalled_jobs_are_remembered='all(implies(g.soft[k] >= 1, has(dirty, k) or not has(cache, k)) for k in ints())',
                scan_copy_wf='all(implies(has(cache, k), allocated(get(cache, k)) and get(cache, k)._job == k) for k in ints())',
                clock='g.now >= g.now0',
                # C05: a job past its hard limit when the scan started has been failed once the scan has visited it
                every_expired_job_is_failed_in_this_scan=
                    'all(implies(_seen[k] and has(cache, k) and %s, g.hard[k] >= g.hard0[k] + 1) for k in ints())' % due0,
                counts_only_grow='all(g.hard[k] >= g.hard0[k] for k in ints())'),
            'modifies': ['g.now', 'g.hard', 'g.soft', 'dirty.*']},
    }
    externals = {'pool.TimeoutHandler.on_hard_timeout': ext_on_hard,
                 'pool.TimeoutHandler.on_soft_timeout': ext_on_soft}
    if kind != 'apply':
        loops[1]['inv'].pop('every_expired_job_is_failed_in_this_scan')
        externals = {'pool.TimeoutHandler.on_hard_timeout': ext_never('on_hard_timeout'),
                     'pool.TimeoutHandler.on_soft_timeout': ext_never('on_soft_timeout')}
    return Contract(
        'pool.TimeoutHandler.handle_timeouts', prop=prop,
        params={'self': ref('TimeoutHandler')},
        locals={'dirty': set_of(IntS)},
        externals=externals,
        requires={'clock': 'g.now > 0', 'nothing_signalled_yet': 'all(g.soft[k] == 0 for k in ints())',
                  'cache': 'allocated(self.cache)', 'cache_keys_are_job_ids': cachekey},
        modifies=['g.now', 'g.hard', 'g.soft', 'g.hard0', 'g.now0', 'Job.*', 'self.cache.*', 'Event.flag'],
        loops=loops,
        lemmas=[{'before': 'for i, job in cache.items():',
                 'ghost': [('hard0', 'g.hard'), ('now0', 'g.now')]}],
        yields={
            'inv': dirty_inv,
            # between two scans anything may happen to the jobs and the cache
            # (results arrive, jobs are submitted) -- except that job ids are
            # never reused: a job that left the cache does not come back
            'env_modifies': ['Job.*', 'self.cache.*', 'Event.flag', 'g.now'],
            'env_assume': {
                'clock_monotone': 'g.now >= old(g.now)',
                'ids_never_return': 'all(implies(has(self.cache, k) and not old(has(self.cache, k)), g.soft[k] == 0) for k in ints())',
                'cache_keys_are_job_ids': cachekey,
            },
        },
        ensures={'t': 'True'},
    )


# ---- _trywaitkill: TERM first, KILL if the worker lingers ------------------------

def _sig(ex, name, val=True):
    gset(ex, name, mk_bool(val))


def ext_getpgid(ex, args, kw):
    """os.getpgid(pid): the process group id, or OSError if there is no such process"""
    if ex.path.choose(2) == 1:
        _sig(ex, 'no_such_process')
        raise_exc(ex, 'OSError')
    return IntS.fresh('pgid')


def ext_killpg(ex, args, kw):
    """os.killpg(pgid, sig): signal sent to the group (recorded), or OSError"""
    sig = ex.conc_int(args[1])
    record_signal(ex, sig, group=True)          # the attempt counts: a failure means the group is gone
    if ex.path.choose(2) == 1:
        _sig(ex, 'no_such_process')
        raise_exc(ex, 'OSError')
    return SNone()


def ext_kill(ex, args, kw):
    sig = ex.conc_int(args[1])
    if ex.path.choose(2) == 1:
        _sig(ex, 'no_such_process')
        raise_exc(ex, 'OSError', errno=lift(3))
    record_signal(ex, sig, group=False)
    return SNone()


def record_signal(ex, sig, group):
    import signal
    if sig == int(signal.SIGKILL):
        if not ex.path.decide(gget(ex, 'term_sent').e):
            _sig(ex, 'kill_before_term')
        _sig(ex, 'kill_sent')
    elif sig == int(signal.SIGTERM):
        _sig(ex, 'term_sent')
        if group:
            _sig(ex, 'term_to_group')
    gset(ex, 'signals', SV(IntS, gget(ex, 'signals').e + 1))


def worker_terminate(ex, args, kw):
    """Process.terminate(): SIGTERM to the worker (recorded), or OSError"""
    record_signal(ex, 15, group=False)
    if ex.path.choose(2) == 1:
        _sig(ex, 'no_such_process')
        raise_exc(ex, 'OSError')
    return SNone()


def popen_wait(ex, args, kw):
    """Popen.wait(timeout): the exit status if the child ended within the timeout, else None"""
    r = opt(IntS).fresh('waitstatus')
    if ex.path.decide(z3.And(z3.Not(r.isnone), r.val.e != 0)):
        _sig(ex, 'gone')
    return r


def declare_kill(w):
    w.classes['g'].fields.update({'term_sent': BoolS, 'kill_sent': BoolS, 'kill_before_term': BoolS,
                                  'term_to_group': BoolS, 'gone': BoolS, 'no_such_process': BoolS})
    w.classes['WorkerP'].methods['terminate'] = worker_terminate
    w.classes['Popen'].methods['wait'] = popen_wait
    w.externals.update({'os.getpgid': ext_getpgid, 'os.killpg': ext_killpg, 'os.kill': ext_kill})


def trywaitkill_contract(prop):
    return Contract(
        'pool.TimeoutHandler._trywaitkill', prop=prop,
        params={'self': ref('TimeoutHandler'), 'worker': ref('WorkerP')},
        requires={'nothing_sent_yet': 'not g.term_sent and not g.kill_sent and not g.kill_before_term and not g.gone '
                                      'and not g.no_such_process',
                  'started': 'worker.pid is not None and worker._popen is not None and allocated(val(worker._popen))'},
        modifies=['g.term_sent', 'g.kill_sent', 'g.kill_before_term', 'g.term_to_group', 'g.gone',
                  'g.no_such_process', 'g.signals'],
        ensures={
            # TERM is attempted before any KILL (unless the process could not even be looked up)
            'termination_signal_first': 'not g.kill_before_term or g.no_such_process',
            'really_gone_or_killed': 'g.gone or g.kill_sent or g.no_such_process',
            'no_kill_if_it_went_away_on_TERM': 'implies(g.gone, not g.kill_sent)',
        },
    )


# ---- on_soft_timeout: callback told soft=True and the limit, one signal to the owner --------

def ext_timeout_callback(ex, args, kw):
    """the user's timeout callback: counted, with the keyword arguments it was given"""
    fn = args[0]
    nc = gget(ex, 'ncalls')
    cur = nc.shape.select(nc, fn)
    gset(ex, 'ncalls', nc.shape.store(nc, fn, SV(IntS, cur.e + 1)))
    if 'soft' in kw:
        gset(ex, 'cb_soft', coerce(ex.path, kw['soft'], BoolS))
        gset(ex, 'cb_limit', coerce(ex.path, kw['timeout'], opt(RealS)))
    if ex.path.choose(2) == 1:
        raise_exc(ex, 'AnyException')
    return SNone()


def ext_kill_soft(ex, args, kw):
    """_kill(pid, SIG_SOFT_TIMEOUT): the signal is sent (recorded with its target), or
    OSError(ESRCH) if the process is gone, or another OSError"""
    pid, sig = args
    gset(ex, 'sig_target', coerce(ex.path, pid, opt(IntS)))
    gset(ex, 'sig_num', coerce(ex.path, sig, opt(IntS)))
    gset(ex, 'signals', SV(IntS, gget(ex, 'signals').e + 1))
    k = ex.path.choose(3)
    if k == 1:
        raise PyExc(VExc('OSError', [mk_int(3)], {'errno': mk_int(3)}))      # ESRCH
    if k == 2:
        e = IntS.fresh('errno')
        ex.path.assume(e.e != 3)
        raise PyExc(VExc('OSError', [e], {'errno': e}))
    return SNone()


def soft_contract(prop):
    import signal
    return Contract(
        'pool.TimeoutHandler.on_soft_timeout', prop=prop,
        params={'self': ref('TimeoutHandler'), 'job': ref('Job')},
        externals={'<callable>': ext_timeout_callback, 'os.kill': ext_kill_soft,
                   'compat.get_errno': lambda ex, a, k: ex.getattr(a[0], 'errno')},
        inline=['pool.TimeoutHandler._process_by_pid', 'pool.ApplyResult.handle_timeout',
                'pool.ApplyResult.safe_apply_callback'],
        requires={'job_wf': 'job._timeout_callback is None or truthy(job._timeout_callback)',
                  'procs': 'allocated(self.processes)'},
        modifies=['g.ncalls', 'g.cb_soft', 'g.cb_limit', 'g.sig_target', 'g.sig_num', 'g.signals'],
        ensures={
            'at_most_one_signal_to_the_owner': 'g.signals <= old(g.signals) + 1 and implies(g.signals > old(g.signals), '
                                               'g.sig_target == job._worker_pid and g.sig_num == %d)' % int(signal.SIGUSR1),
            'callback_told_soft_and_the_limit': 'implies(job._timeout_callback is not None and g.signals > old(g.signals), '
                                                'g.cb_soft and g.cb_limit == job._soft_timeout)',
            'no_job_state_touched': 'unchanged("Job._success") and unchanged("Job._value") and unchanged("Event.flag")',
        },
        raises={'OSError': {'only_other_than_no_such_process': 'exc.errno != 3'},
                'MemoryError': {'t': 'True'},
                # a callback error the user asked to propagate (callbacks_propagate)
                'AnyException': {'t': 'True'}},
    )
