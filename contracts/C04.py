"""C04 -- a worker dying mid-task yields WorkerLostError for exactly its job."""
from pyvc.api import *
import pool_shared as ps
import handles as H
import C01 as c01

PROP = 'C04'
VARIANTS = ['apply', 'map', 'imap', 'imapu']
REPLAYERS = {'pool.ApplyResult._ack': 'replayers/ack_owner.py', 'pool.Pool._join_exited_workers': 'replayers/join_exited.py',
             'pool.Pool.mark_as_worker_lost': 'replayers/kinds_lost.py', 'pool.MapResult._set': 'replayers/kinds_lost.py',
             'pool.MapResult._ack': 'replayers/kinds_lost.py'}

ASSUMPTIONS = [
    'worker.exitcode is what the OS reported (popen.poll: C19); a worker with exitcode None and a Popen object is alive',
    'A-atomic: the supervision tick does not interleave with the result handler below handler granularity',
    'clock arithmetic exact; monotonic() positive and non-decreasing',
    'pool bookkeeping invariant I5 (every worker in the list has its pid registered in _poolctrl and _on_ready_counters, '
    'pids pairwise distinct) is assumed at entry; it is established by _create_worker_process (C09)',
]
OUT_OF_REACH = ['how soon the kernel reports the death; wall-clock length of a supervision period']

LOSTCOND = ('(not {j}._event.flag and {j}._worker_lost is not None and '
            '{now} - val({j}._worker_lost)[0] > {j}._lost_worker_timeout)')


def ext_mark_lost(ex, args, kw):
    """Pool.mark_as_worker_lost(job, exitcode) as called from the tick: only
    for an unresolved job whose grace period is over (obligation), then its contract"""
    env = {'job': args[1], 'now': ex.lookup('now')}
    prove(ex, 'call:mark_as_worker_lost.no_earlier_than_the_lost_worker_timeout',
          ex.spec_bool(LOSTCOND.format(j='job', now='val(now)') + ' and now is not None', env))
    return call_contract(ex, 'pool.Pool.mark_as_worker_lost', args)


def worker_join(ex, args, kw):
    return SNone()


def worker_is_alive(ex, args, kw):
    """Process._is_alive(): exit status not yet known"""
    w_ = args[0]
    return SV(BoolS, ex.path.read_field(w_, 'exitcode').isnone)


def build(w, variant='apply'):
    if variant != 'apply':
        import c04_kinds
        return c04_kinds.build_kinds(w, variant)
    owner_record = []
    for c in c01.build(w):
        w.contracts.setdefault(c.qualname, c)
        if c.qualname.endswith('ApplyResult._ack'):
            # who is recorded as the owner of a job is what the tick matches exited workers against (C01's contract of
            # the parent side of the handshake: owner_recorded)
            c.prop = PROP
            owner_record.append(c)
    w.classes['WorkerP'].methods.update({'join': worker_join, '_is_alive': worker_is_alive})
    w.classes['Pool'].fields.update({'_worker_handler': ValS})
    cache = 'self._cache'
    K = {'k': 'ints()'}
    jk = 'get(%s, k)' % cache
    # owner_of: every Event object belongs to one job (it is created by that
    # job's constructor and never shared): a spec function, not state
    _owner = z3.Function('owner_of', z3.IntSort(), z3.IntSort())
    w.spec_funcs['owner_of'] = lambda ex, e: SV(IntS, _owner(e.id))
    cache_wf = Forall(K, 'implies(has(%s, k), allocated(%s) and %s._job == k and %s._cache == %s and allocated(%s._event) '
                         'and owner_of(%s._event) == k and %s)' % (
        cache, jk, jk, jk, cache, jk, jk, c01.job_inv_for(jk)))
    alive = '(at(self._pool, j).exitcode is None and at(self._pool, j)._popen is not None)'
    I5_reg = Forall({'j': 'ints()'}, 'implies(0 <= j and j < len(self._pool), allocated(at(self._pool, j)) and '
                    'at(self._pool, j).pid is not None and has(self._poolctrl, val(at(self._pool, j).pid)) and '
                    'has(self._on_ready_counters, val(at(self._pool, j).pid)))')
    I5_dis = Forall({'i': 'ints()', 'j': 'ints()'}, 'implies(0 <= i and i < j and j < len(self._pool), '
                    'at(self._pool, i) != at(self._pool, j) and at(self._pool, i).pid != at(self._pool, j).pid)')
    GRACE = Forall(K, 'implies(old(has(%s, k)) and old(%s), %s._event.flag)' % (
        cache, LOSTCOND.format(j=jk, now='g.now'), jk))
    join = Contract(
        'pool.Pool._join_exited_workers', prop=PROP,
        params={'self': ref('Pool'), 'shutdown': BoolS},
        locals={'cleaned': dict_of(opt(IntS), ref('WorkerP')), 'exitcodes': dict_of(opt(IntS), opt(IntS))},
        externals={'pool.Pool.mark_as_worker_lost': ext_mark_lost},
        inline=['pool.Pool.on_job_process_lost', 'pool.Pool.on_job_process_down', 'pool.Pool.process_flush_queues',
                'pool.Pool._process_cleanup_queues'],
        requires={'cache_wf': cache_wf, 'cache': 'allocated(%s) and allocated(self._pool) and allocated(self._poolctrl) '
                                                 'and allocated(self._on_ready_counters)' % cache,
                  'clock': 'g.now > 0', 'lens': 'len(self._pool) >= 0',
                  'hook': 'is_hook(self.on_process_down) and (self.on_process_down is None or truthy(self.on_process_down))',
                  'I5_registered': Forall({'j': 'ints()'}, 'implies(0 <= j and j < len(self._pool), allocated(at(self._pool, j)) and '
                                          'at(self._pool, j).pid is not None and has(self._poolctrl, val(at(self._pool, j).pid)) and '
                                          'has(self._on_ready_counters, val(at(self._pool, j).pid)))'),
                  'I5_distinct': Forall({'i': 'ints()', 'j': 'ints()'}, 'implies(0 <= i and i < j and j < len(self._pool), '
                                        'at(self._pool, i) != at(self._pool, j) and at(self._pool, i).pid != at(self._pool, j).pid)')},
        instantiate_entry={},
        uses={'lost_only_if_its_worker_really_exited': ['lost_only_if_its_worker_really_exited', 'cache_wf',
                                                        'resolved_stays_resolved', 'unvisited_jobs_untouched']},
        modifies=['Job._success', 'Job._value', 'Event.flag', cache + '.has', cache + '.size', 'g.ncalls', 'g.assigned',
                  'g.cb_raised', 'g.now', 'Job._worker_lost', 'self._pool.*', 'self._poolctrl.*', 'self._on_ready_counters.*'],
        returns=list_of(opt(IntS)),
        loops={
            0: {'inv': {
                    'cache_wf': cache_wf,
                    'clock': 'g.now > 0 and g.now >= old(g.now) and (now is None or (val(now) > 0 and val(now) <= g.now '
                             'and val(now) >= old(g.now)))',
                    'unvisited_jobs_untouched': Forall(K, 'implies(old(has(%s, k)) and not _seen[k], '
                                                          '%s._event.flag == old(%s._event.flag) and has(%s, k))' % (cache, jk, jk, cache)),
                    'no_job_enters_the_cache': Forall(K, 'implies(has(%s, k), old(has(%s, k)))' % (cache, cache)),
                    'clock_read_before_the_first_job': Forall(K, 'implies(_seen[k], now is not None)'),
                    'resolved_stays_resolved': Forall(K, 'implies(old(has(%s, k)) and old(%s._event.flag), %s._event.flag)' % (cache, jk, jk)),
                    # every visited job whose grace period was over when the list was built is resolved
                    'lost_jobs_fail_after_the_grace_period': Forall(K,
                        'implies(_seen[k] and old(has(%s, k)) and now is not None and old(%s), %s._event.flag)' % (
                            cache, LOSTCOND.format(j=jk, now='val(now)'), jk)),
                },
                'modifies': ['Job._success', 'Job._value', 'Event.flag', cache + '.has', cache + '.size', 'g.ncalls',
                             'g.assigned', 'g.cb_raised', 'g.now'],
                'locals': {'now': opt(RealS)}},
            1: {'inv': {
                    'bounds': '-1 <= _i and _i < len(self._pool) and len(self._pool) >= 0',
                    'kept_workers_are_alive': Forall({'j': 'ints()'}, 'implies(_i < j and j < len(self._pool), %s)' % alive),
                    'I5_registered': I5_reg,
                    'I5_distinct': I5_dis,
                    'reaped_workers_really_exited': Forall({'p': 'ints()'},
                        'implies(has(cleaned, p), allocated(get(cleaned, p)) and get(cleaned, p).pid == p and '
                        '(get(cleaned, p).exitcode is not None or get(cleaned, p)._popen is None) and has(exitcodes, p) '
                        'and get(exitcodes, p) == get(cleaned, p).exitcode)'),
                    'reaped_workers_left_the_pool': Forall({'j': 'ints()'},
                        'implies(0 <= j and j < len(self._pool), not has(cleaned, val(at(self._pool, j).pid)))'),
                    'containers': 'fresh(cleaned) and fresh(exitcodes) and cleaned != exitcodes',
                    'one_status_per_reaped_worker': 'len(exitcodes) == old(len(self._pool)) - len(self._pool) and '
                                                    'len(cleaned) == len(exitcodes) and len(cleaned) >= 0',
                    'same_keys': Forall({'p': 'ints()'}, 'has(exitcodes, p) == has(cleaned, p)'),
                },
                'modifies': ['self._pool.*', 'self._poolctrl.*', 'self._on_ready_counters.*', 'cleaned.*', 'exitcodes.*'],
                # (Python keeps the names assigned in a loop body bound after the loop: whatever the last worker looked at left)
                'locals': {'exitcode': opt(IntS)}},
            2: {'inv': {
                    'cache_wf': cache_wf,
                    'reaped_workers_really_exited': Forall({'p': 'ints()'},
                        'implies(has(cleaned, p), allocated(get(cleaned, p)) and get(cleaned, p).pid == p and '
                        '(get(cleaned, p).exitcode is not None or get(cleaned, p)._popen is None))'),
                    'unvisited_jobs_untouched': Forall(K, 'implies(old(has(%s, k)) and not _seen[k], '
                        '%s._worker_lost == old(%s._worker_lost) and has(%s, k) == entry(has(%s, k)) and %s._event.flag == entry(%s._event.flag))' % (cache, jk, jk, cache, cache, jk, jk)),
                    # P1: a job is marked lost only if it is unresolved and the worker that accepted it is gone
                    'lost_only_if_its_worker_really_exited': Forall(K,
                        'implies(old(has(%s, k)) and %s._worker_lost != old(%s._worker_lost), '
                        'old(not %s._event.flag) and (old(get(self._cache, k)._worker_pid) is not None and old(get(self._cache, k)._worker_pid) != 0 and (has(cleaned, old(get(self._cache, k)._worker_pid)) or all(implies(0 <= j and j < len(self._pool), at(self._pool, j).pid != old(get(self._cache, k)._worker_pid)) for j in ints()))))' % (cache, jk, jk, jk)),
                    # P2: every unresolved job whose worker was reaped in this tick is marked (or terminated)
                    'job_of_a_reaped_worker_is_marked': Forall(K,
                        'implies(_seen[k] and old(has(%s, k)) and entry(not get(self._cache, k)._event.flag) and old(%s._worker_pid) is not None and '
                        'old(%s._worker_pid) != 0 and has(cleaned, old(%s._worker_pid)), '
                        '%s._worker_lost is not None or %s._event.flag)' % (cache, jk, jk, jk, jk, jk)),
                    # P3: ... and so is every unresolved job whose worker is no longer in the pool at all (its ACK was handled
                    # after the worker had been reaped in an earlier tick)
                    'job_of_a_vanished_worker_is_marked': Forall(K,
                        'implies(_seen[k] and old(has(%s, k)) and entry(not get(self._cache, k)._event.flag) and old(%s._worker_pid) is not None and '
                        'old(%s._worker_pid) != 0 and all(implies(0 <= j and j < len(self._pool), at(self._pool, j).pid != old(%s._worker_pid)) for j in ints()), '
                        '%s._worker_lost is not None or %s._event.flag)' % (cache, jk, jk, jk, jk, jk)),
                    'no_job_enters_the_cache': Forall(K, 'implies(has(%s, k), old(has(%s, k)))' % (cache, cache)),
                    # P5: ... "naming the exit status": the record of a job whose worker was reaped in this tick carries that
                    # worker's exit status (0 where there is none)
                    'loss_record_names_the_exit_status_of_the_reaped_worker': Forall(K, 'implies(_seen[k] and old(has(%s, k)) and old(%s._worker_lost) is None and %s._worker_lost is not None and '
                        'old(get(self._cache, k)._worker_pid) is not None and has(cleaned, old(get(self._cache, k)._worker_pid)), '
                        'val(%s._worker_lost)[1] is not None and val(val(%s._worker_lost)[1]) == '
                        'ite(get(cleaned, old(get(self._cache, k)._worker_pid)).exitcode is None, 0, val(get(cleaned, old(get(self._cache, k)._worker_pid)).exitcode)))' % (cache, jk, jk, jk, jk)),
                    'statuses_recorded': Forall({'p': 'ints()'}, 'implies(has(cleaned, p), has(exitcodes, p) and '
                                                                 'get(exitcodes, p) == get(cleaned, p).exitcode)'),
                    # P4: the instant of detection and the exit status recorded with it are never overwritten (a later tick that
                    # reaps another worker must not re-arm the grace period of a job that is already marked)
                    'a_loss_record_is_never_replaced': Forall(K, 'implies(old(has(%s, k)) and old(%s._worker_lost) is not None, %s._worker_lost == old(%s._worker_lost))' % (cache, jk, jk, jk)),
                    'clock': 'g.now > 0',
                    'resolved_stays_resolved': Forall(K, 'implies(old(has(%s, k)) and old(%s._event.flag), %s._event.flag)' % (cache, jk, jk)),
                    'flags_only_get_set': Forall(K, 'implies(old(has(%s, k)) and entry(%s._event.flag), %s._event.flag)' % (cache, jk, jk)),
                },
                'modifies': ['Job._success', 'Job._value', 'Event.flag', cache + '.has', cache + '.size', 'g.ncalls',
                             'g.assigned', 'g.cb_raised', 'g.now', 'Job._worker_lost'],
                'locals': {}},
            3: {'inv': {'t': 'True'}, 'modifies': ['g.ncalls', 'g.cb_raised']},
        },
        ensures={
            # no earlier than the timeout after detection, no later than the first tick after it
            'lost_jobs_fail_after_the_grace_period': GRACE,
            # conversely, no job is reported lost unless the worker that accepted it really exited
            'no_job_reported_lost_unless_its_worker_exited': Forall(K,
                'implies(old(has(%s, k)) and %s._worker_lost != old(%s._worker_lost), old(not %s._event.flag) and '
                'old(%s._worker_pid) is not None and all(implies(0 <= j and j < len(self._pool), '
                'at(self._pool, j).pid != old(%s._worker_pid)) for j in ints()))' % (cache, jk, jk, jk, jk, jk)),
            # ... so "no later than the timeout plus one supervision period after detection" holds across ticks
            'a_loss_record_is_never_replaced': Forall(K, 'implies(old(has(%s, k)) and old(%s._worker_lost) is not None, %s._worker_lost == old(%s._worker_lost))' % (cache, jk, jk, jk)),
            # the loss is reported for every job whose worker is gone -- also when its ACK was handled after the worker had been
            # reaped: in a tick that reaps some worker ...
            'job_of_a_vanished_worker_is_marked_when_a_worker_was_reaped': Forall(K, 'implies(%s and has(%s, k) and not %s._event.flag and %s._worker_pid is not None and '
                '%s._worker_pid != 0 and all(implies(0 <= j and j < len(self._pool), at(self._pool, j).pid != %s._worker_pid) for j in ints()), '
                '%s._worker_lost is not None)' % ('len(result) > 0', cache, jk, jk, jk, jk, jk)),
            # ... and in a tick that reaps nothing (D12: the matching loop does not run then)
            'job_of_a_vanished_worker_is_marked_in_a_tick_that_reaps_nothing': Forall(K, 'implies(%s and has(%s, k) and not %s._event.flag and %s._worker_pid is not None and '
                '%s._worker_pid != 0 and all(implies(0 <= j and j < len(self._pool), at(self._pool, j).pid != %s._worker_pid) for j in ints()), '
                '%s._worker_lost is not None)' % ('len(result) == 0', cache, jk, jk, jk, jk, jk)),
            'only_live_workers_remain': Forall({'j': 'ints()'}, 'implies(0 <= j and j < len(self._pool), %s)' % alive),
            'one_status_per_reaped_worker': 'len(result) == old(len(self._pool)) - len(self._pool)',
        },
        raises={'WorkersJoined': {'only_at_shutdown_with_no_worker_left': 'shutdown and len(self._pool) == 0',
                                  'lost_jobs_fail_after_the_grace_period': GRACE},
                'MemoryError': {'t': 'True'}, 'AnyException': {'t': 'True'}, 'AnyBaseException': {'t': 'True'}},
    )
    return [join] + owner_record

MANIFEST_ENTRY = {
    'text': 'Proof (unbounded, four loop invariants) of Pool._join_exited_workers for apply jobs: a job is marked with '
            'WorkerLostError only when it is unresolved and its lost-worker timeout has elapsed since detection, and every such '
            'job is marked by the first tick after that -- also at shutdown with no worker left (the obligation the seeded change '
            'C04-a breaks); the reaping loop removes exactly the workers whose exit status is known (or that never started) from '
            'the list and both registries and returns one status per reaped worker; a job gets a loss record only if it is '
            'unresolved and the worker that accepted it was reaped in this tick or is not in the pool, and every unresolved job of '
            'a reaped worker gets one (or is terminated, for terminate_job); a loss record, once set, is never replaced -- its '
            'detection time and exit status survive later ticks (refuted on the tree before /repo a163998: D13, reaping any other '
            'worker re-armed the grace period and reset the status to 0; fixed).  mark_as_worker_lost fails exactly that job, '
            'observably.  The owner record itself (ApplyResult._ack, C01\'s contract of the parent side of the handshake): unless the '
            'job is refused, the accepting worker and the acceptance time are recorded, also when the accept callback raises.',
    'note': 'The tick itself (_join_exited_workers) is proved for apply handles.  For the other handle kinds the two places where '
            'ownership and the loss record are handled are under contract (variants map / imap / imapu): MapResult._set clears the '
            'owner of a delivered chunk (refuted on the pinned tree -- D3, a recycled worker failed the whole map -- replayed, fixed '
            'in /repo ab695da); mark_as_worker_lost on an unordered imap queues the loss record for the consumer (proved), on an '
            'ordered imap it does not (D4: KNOWN-FINDING with replay, not repaired: no small patch gives the iterator a position '
            'to raise at).  D12 (the ACK of a job is handled after its worker was reaped): the tick marks such a job when it reaps some worker '
            '(proved: post.job_of_a_vanished_worker_is_marked_when_a_worker_was_reaped) but not in a tick that reaps nothing '
            '(KNOWN-FINDING with replay; not repaired: running the matching loop in every tick changes how often the embedder '
            'hooks on_job_process_down fire).  Exit status '
            'reporting by the OS and the length of a supervision period are assumed.',
}
