"""C04 for the other handle kinds (map, imap, imap_unordered): the ownership
bookkeeping a lost worker is matched against, and how the loss reaches the caller.

These are the places where the pinned tree is known to be defective (DESIGN.md
section 8: D3, D4); the obligations below are the ones the property demands, the
refuted ones are recorded in known_findings.txt with their replay.
"""
from pyvc.api import *
import pool_shared as ps
import handles as H

PROP = 'C04'


def build_kinds(w, variant):
    ps.declare(w, kind=variant)
    if variant == 'map':
        return build_map(w)
    H_externals(w)
    qual = 'pool.IMapIterator._set' if variant == 'imap' else 'pool.IMapUnorderedIterator._set'
    wf = ('allocated(job) and allocated(job._items) and len(job._items) >= 0 and allocated(job._unsorted) and job._index >= 0 and '
          'allocated(job._cache) and has(job._cache, job._job) and '
          '(job._length is None or val(job._length) > job._index)')
    lost = Contract(
        'pool.Pool.mark_as_worker_lost', prop=PROP, variants=[variant],
        params={'self': ref('Pool'), 'job': ref('Job'), 'exitcode': opt(IntS)},
        inline=[qual],
        requires={'an_unfinished_iterator': wf},
        modifies=['job._items.*', 'job._index', 'job._unsorted.*', 'job._ready', 'job._cache.*'],
        ensures={
            # "WorkerLostError for exactly its job": the consumer of the iterator must get to see the record
            'the_loss_reaches_the_consumer': 'len(job._items) == old(len(job._items)) + 1 and '
                                             'not at(job._items, old(len(job._items)))[0]',
            'results_already_queued_are_kept': 'all(implies(0 <= k and k < old(len(job._items)), '
                                               'at(job._items, k) == old(at(job._items, k))) for k in ints())',
        },
    )
    return [lost]


def H_externals(w):
    w.externals.update({'einfo.ExceptionInfo': H.ext_einfo, 'common.human_status': H.ext_human_status,
                        '<opaque>.format': H.ext_format, '<opaque>.notify': lambda ex, a, k: SNone()})
    w.spec_funcs['einfo'] = H.spec_einfo


def build_map(w):
    """MapResult: a chunk that has been delivered no longer has an owner a later worker exit could be matched against"""
    H.declare_handles(w, kind='map')
    w.abstract_seqs = True
    CS = 'self._chunksize'
    n_chunks = '(self._length // %s + ite(self._length %% %s != 0, 1, 0))' % (CS, CS)
    set_ = Contract(
        'pool.MapResult._set', prop=PROP, variants=['map'],
        params={'self': ref('Job'), 'i': IntS, 'success_result': tup(BoolS, ValS)},
        inline=['pool.MapResult.accepted'],
        externals={'builtins.all': lambda ex, a, k: BoolS.fresh('all_accepted')},
        requires={'wf': 'self._chunksize > 0 and self._length >= 0 and self._number_left >= 1 and allocated(self._cache) and '
                        'allocated(self._event) and allocated(self._worker_pid) and len(self._worker_pid) == self._length and '
                        'allocated(self._accepted) and len(self._accepted) == self._length',
                  'chunk_index': '0 <= i and i < %s' % n_chunks},
        modifies=['self._value', 'self._number_left', 'self._success', 'self._event.flag', 'self._cache.*', 'g.ncalls',
                  'g.cb_raised', 'self._worker_pid.*'],
        ensures={
            # worker_pids() is what _join_exited_workers matches exited workers against: the worker that has
            # delivered chunk i must no longer count as an owner of the job, or its later (normal) exit fails the map
            'a_delivered_chunk_has_no_owner_left': 'all(implies(success_result[0] and i * %s <= j and j < (i + 1) * %s and '
                                                   'j < self._length, at(self._worker_pid, j) is None) for j in ints())' % (CS, CS),
        },
        raises={'AnyException': {'t': 'True'}, 'AnyBaseException': {'t': 'True'}, 'MemoryError': {'t': 'True'}},
    )
    return [set_, map_ack_contract(w, PROP, CS, n_chunks)]


def map_ack_contract(w, prop, CS, n_chunks):
    """MapResult._ack: the worker that accepted chunk i is recorded as the owner of exactly the items of that chunk (the
    last one may be shorter), nothing else is touched and the per-item lists keep the length of the job"""
    lists = ('self._accepted', 'self._worker_pid', 'self._time_accepted')
    lens = ' and '.join('len(%s) == self._length' % l for l in lists)
    in_chunk = 'i * %s <= j and j < (i + 1) * %s and j < self._length' % (CS, CS)
    done = lambda bound: ('all(implies(i * %s <= j and j < %s and j < self._length, at(self._accepted, j) and '
                          'at(self._worker_pid, j) == pid and at(self._time_accepted, j) == time_accepted) for j in ints())' % (CS, bound))
    others = ('all(implies(0 <= j and j < self._length and not (%s), at(self._accepted, j) == old(at(self._accepted, j)) and '
              'at(self._worker_pid, j) == old(at(self._worker_pid, j)) and '
              'at(self._time_accepted, j) == old(at(self._time_accepted, j))) for j in ints())' % in_chunk)
    return Contract(
        'pool.MapResult._ack', prop=prop, variants=['map'],
        params={'self': ref('Job'), 'i': IntS, 'time_accepted': RealS, 'pid': IntS},
        requires={'wf': 'self._chunksize > 0 and self._length >= 0 and allocated(self._cache) and allocated(self._event) and ' +
                        ' and '.join('allocated(%s)' % l for l in lists) + ' and ' + lens +
                        ' and self._accepted != self._worker_pid and self._accepted != self._time_accepted and '
                        'self._worker_pid != self._time_accepted',
                  'chunk_index': '0 <= i and i < %s' % n_chunks},
        modifies=['self._accepted.*', 'self._worker_pid.*', 'self._time_accepted.*', 'self._cache.*'],
        loops={0: {'inv': {'lists_keep_the_length_of_the_job': lens,
                           'recorded_so_far': done('_i'), 'rest_untouched_so_far':
                           'all(implies(0 <= j and j < self._length and not (i * %s <= j and j < _i), '
                           'at(self._accepted, j) == old(at(self._accepted, j)) and '
                           'at(self._worker_pid, j) == old(at(self._worker_pid, j)) and '
                           'at(self._time_accepted, j) == old(at(self._time_accepted, j))) for j in ints())' % CS},
                   'modifies': ['self._accepted.*', 'self._worker_pid.*', 'self._time_accepted.*']}},
        ensures={'lists_keep_the_length_of_the_job': lens,
                 'owner_recorded_for_exactly_the_items_of_the_chunk': done('(i + 1) * %s' % CS),
                 'other_items_untouched': others},
    )
