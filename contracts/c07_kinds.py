"""C07 for map handles: the result of a chunk must be credited to the counter of
the worker that sent it -- the exit guard of that worker (Worker.
_ensure_messages_consumed) waits for its own counter to reach the number of
results it sent; a result credited to another worker makes it wait out the
guard (30 s) before it exits, which is what close(); join() then waits for
(DESIGN.md section 8, D7: 31 s join measured natively)."""
from pyvc.api import *
import pool_shared as ps
import handles as H

PROP = 'C07'


def ext_set(ex, args, kw):
    """item._set(i, obj) (MapResult._set: C02 / C04 contracts): not the subject here"""
    return SNone()


def build_map(w):
    ps.declare(w, kind='map')
    H.declare_handles(w, kind='map')
    ps.declare_handlers(w)
    w.classes['Counter'].methods['get_lock'] = lambda ex, a, k: SV(ValS, z3.Const('counter_lock', Val))
    w.externals['pool.LaxBoundedSemaphore.release'] = lambda ex, a, k: SNone()
    item = 'old(get(cache, job))'
    sender = 'at(%s._worker_pid, val(i) * %s._chunksize)' % (item, item)
    on_ready = Contract(
        'pool.ResultHandler._make_methods.<locals>.on_ready', prop=PROP, variants=['map'],
        enclosing={'self': ref('ResultHandler')},
        params={'job': IntS, 'i': opt(IntS), 'obj': tup(BoolS, ValS), 'inqW_fd': opt(IntS)},
        inline=['pool.MapResult.worker_pids', 'pool.ApplyResult.ready'],
        externals={'pool.MapResult._set': ext_set},
        requires={
            'cache': 'allocated(cache) and all(implies(has(cache, k), allocated(get(cache, k)) and allocated(get(cache, k)._worker_pid) '
                     'and len(get(cache, k)._worker_pid) == get(cache, k)._length and get(cache, k)._chunksize > 0 and '
                     'allocated(get(cache, k)._event)) for k in ints())',
            'counters': 'self.on_ready_counters is not None and allocated(val(self.on_ready_counters)) and '
                        'all(implies(has(val(self.on_ready_counters), p), allocated(get(val(self.on_ready_counters), p)) and '
                        'len(val(self.on_ready_counters)) > 0) for p in ints())',
            'distinct_counters': 'all(implies(has(val(self.on_ready_counters), p) and has(val(self.on_ready_counters), q) and p != q, '
                                 'get(val(self.on_ready_counters), p) != get(val(self.on_ready_counters), q)) '
                                 'for p in ints() for q in ints())',
            'a_chunk_result': 'i is not None and val(i) >= 0 and implies(has(cache, job), '
                              'val(i) * get(cache, job)._chunksize < get(cache, job)._length)',
            'hooks': 'on_job_ready is None',
        },
        modifies=['Counter.value', 'Sem._value', 'g.releases'],
        ensures={
            'result_credited_to_the_worker_that_sent_it':
                'implies(old(has(cache, job)) and %s is not None and val(%s) != 0 and '
                'has(val(self.on_ready_counters), val(%s)), '
                'get(val(self.on_ready_counters), val(%s)).value == '
                'old(get(val(self.on_ready_counters), val(%s)).value) + 1)' % (sender, sender, sender, sender, sender.replace('old(', '(')),
        },
    )
    return [on_ready]
