"""Proof scripts for C13 (verified modularly over the contracts of
_send_bytes / _recv_bytes): order and message boundaries."""


def send_two(c, p1, p2):
    c._send_bytes(p1)
    c._send_bytes(p2)


def recv_two(c):
    r1 = c._recv_bytes(None)
    r2 = c._recv_bytes(None)
    return r1, r2
