"""C10 -- the slot semaphore is bounded, conserved and never leaked."""
from pyvc.api import *
import pool_shared as ps
import handles as H
import C01 as c01

PROP = 'C10'
REPLAYERS = {'pool.TaskHandler.body': 'replayers/taskhandler_slot.py', 'pool.Pool.apply_async': 'replayers/apply_async_slot.py', 'pool.Pool._maintain_pool': 'replayers/pool_size.py',
}

ASSUMPTIONS = [
    'threading.Semaphore.__init__/acquire/release and Condition.notify have their documented sequential contracts over _value '
    '(assumed); while a shrink()/acquire() blocks, other threads may only perform the semaphore\'s own operations',
    'A-atomic: handlers do not interleave below handler granularity (each method body runs under the semaphore\'s condition lock)',
    '_join_exited_workers returns one exit status per reaped worker (its own contract is C04/C09\'s)',
]
OUT_OF_REACH = [
    'fairness of wake-ups among submitters blocked in acquire()',
    'the global conservation law "once the pool is quiet all slots are free" is reduced to per-handler obligations: a slot is '
    'released exactly once when the first result of a job arrives (on_ready), once per reaped worker (_maintain_pool), and no '
    'handler resolves a job without either; the induction over histories combining them is a meta-argument (DESIGN.md section 4)',
]
TRUSTED = []

I6 = 'self._value >= 0 and self._value <= self._initial_value'


def ghost_release(ex):
    gset(ex, 'releases', SV(IntS, gget(ex, 'releases').e + 1))


def ext_sem_init(ex, args, kw):
    """threading.Semaphore.__init__(self, value): ValueError if value < 0, else _value = value"""
    self, value = args[0], ex.force(args[1])
    if ex.path.decide(as_arith(value) < 0):
        raise_exc(ex, 'ValueError')
    ex.path.write_field(self, '_value', value)
    return SNone()


def ext_sem_release_base(ex, args, kw):
    """threading.Semaphore.release(self): _value += 1 (and notify)"""
    self = args[0]
    v = ex.path.read_field(self, '_value')
    ex.path.write_field(self, '_value', SV(IntS, v.e + 1))
    return SNone()


def ext_sem_acquire(ex, args, kw):
    """threading.Semaphore.acquire(self) (blocking): while it waits other
    threads may release/acquire (keeping 0 <= _value <= max(_value, _initial_value));
    returns True after decrementing a positive _value"""
    self = args[0]
    v = ex.path.read_field(self, '_value')
    iv = ex.path.read_field(self, '_initial_value')
    nv = IntS.fresh('value_when_woken')
    hi = z3.If(v.e > iv.e, v.e, iv.e)
    ex.path.assume(z3.And(nv.e >= 1, nv.e <= hi, z3.Or(v.e < 1, nv.e == v.e)))
    ex.path.write_field(self, '_value', SV(IntS, nv.e - 1))
    gset(ex, 'acquires', SV(IntS, gget(ex, 'acquires').e + 1))
    return mk_bool(True)


def noop(ex, args, kw):
    return SNone()


def ext_join_exited(ex, args, kw):
    """Pool._join_exited_workers(): the list of exit statuses of the workers
    it reaped (one per worker)"""
    lst = list_of(opt(IntS)).fresh('joined')
    ex.path._assume_wf(lst)
    ex.path.assume(ex.path.read_field(lst, 'len').e >= 0)
    gset(ex, 'reaped', SV(IntS, gget(ex, 'reaped').e + ex.path.read_field(lst, 'len').e))
    return lst


def ext_next_job(ex, args, kw):
    """next(job_counter): a fresh job id (itertools.count never repeats)"""
    n = gget(ex, 'next_job')
    gset(ex, 'next_job', SV(IntS, n.e + 1))
    return n


def ext_event_new(ex, args, kw):
    e = SRef(ref('Event'), ex.path.new_id())
    ex.path.write_field(e, 'flag', mk_bool(False))
    return e


def ext_queue_put(ex, args, kw):
    """taskqueue.put(item) / _quick_put(msg): the message is handed over, or
    the send raises (unpicklable task, broken pipe)"""
    gset(ex, 'submitted', SV(IntS, gget(ex, 'submitted').e + 1))
    if ex.path.choose(2) == 1:
        gset(ex, 'submitted', SV(IntS, gget(ex, 'submitted').e - 1))
        raise_exc(ex, 'AnyException')
    return SNone()


def build(w):
    c01_list = c01.build(w)          # declares the shared classes, ghost state and C01's handler contracts
    w.externals.pop('pool.LaxBoundedSemaphore.release', None)   # here the real method is under contract
    for it in c01_list:                  # callee contracts (proved by ./check C01) are used modularly
        w.contracts.setdefault(it.qualname, it)
    ps.declare_submission(w)
    g = w.classes['g']
    g.fields.update({'acquires': IntS, 'reaped': IntS, 'sending': IntS, 'failed_sends': IntS})
    w.classes['Sem'].methods['acquire'] = ext_sem_acquire
    # the condition's lock, for the lock discipline of release() / grow(): test and update under one hold of the lock
    w.cls('SemCond', fields={'held': BoolS}, methods={
        'with_enter': lambda ex, a, k: (ex.path.write_field(a[0], 'held', mk_bool(True)), SNone())[1],
        'with_exit': lambda ex, a, k: (ex.path.write_field(a[0], 'held', mk_bool(False)), SNone())[1],
        'notify': noop, 'notify_all': noop})
    w.classes['Sem'].fields['_cond'] = ref('SemCond')
    LOCKED = {'_value': 'self._cond.held', '_initial_value': 'self._cond.held'}
    cond_free = 'allocated(self._cond) and not self._cond.held'
    w.externals.update({
        'threading.Semaphore.__init__': ext_sem_init,
        'threading.Semaphore.release': ext_sem_release_base,
        '<opaque>.notify': noop, '<opaque>.notify_all': noop,
    })
    S = {'self': ref('Sem')}
    sem_init = Contract(
        'pool.LaxBoundedSemaphore.__init__', prop=PROP,
        params={'self': ref('Sem'), 'value': IntS, 'verbose': opt(ValS)},
        modifies=['self._value', 'self._initial_value'],
        ensures={'full': 'self._value == value and self._initial_value == value', 'bounded': I6},
        raises={'ValueError': {'negative': 'value < 0'}},
    )
    grow = Contract(
        'pool.LaxBoundedSemaphore.grow', prop=PROP, params=S, requires={'bounded': I6, 'cond': cond_free},
        modifies=['self._value', 'self._initial_value', 'self._cond.held'], guarded=LOCKED,
        ensures={'bounded': I6, 'one_more_slot': 'self._initial_value == old(self._initial_value) + 1 and '
                                                 'self._value == old(self._value) + 1', 'lock_released': 'not self._cond.held'},
    )
    release = Contract(
        'pool.LaxBoundedSemaphore.release', prop=PROP, params=S, requires={'bounded': I6, 'cond': cond_free},
        modifies=['self._value', 'g.releases', 'self._cond.held'], ghost_entry=ghost_release, guarded=LOCKED,
        ensures={'bounded': I6,
                 'gives_back_one_unless_full': 'self._value == old(self._value) + ite(old(self._value) < self._initial_value, 1, 0)',
                 'counted': 'g.releases == old(g.releases) + 1', 'lock_released': 'not self._cond.held'},
    )
    clear = Contract(
        'pool.LaxBoundedSemaphore.clear', prop=PROP, params=S, requires={'bounded': I6},
        modifies=['self._value'],
        loops={0: {'inv': {'bounded': I6}, 'modifies': ['self._value']}},
        ensures={'bounded': I6, 'all_free': 'self._value == self._initial_value'},
    )
    shrink = Contract(
        'pool.LaxBoundedSemaphore.shrink', prop=PROP, params=S,
        requires={'bounded': I6, 'has_a_slot_to_remove': 'self._initial_value >= 1'},
        modifies=['self._value', 'self._initial_value', 'g.acquires'],
        ensures={'bounded': I6, 'one_slot_less': 'self._initial_value == old(self._initial_value) - 1'},
    )

    # ---- the pool side --------------------------------------------------------
    maintain = Contract(
        'pool.Pool._maintain_pool', prop=PROP, params={'self': ref('Pool')},
        externals={'pool.Pool._join_exited_workers': ext_join_exited,
                   'pool.Pool._repopulate_pool': noop},
        requires={'sem': 'self._putlock is None or (allocated(val(self._putlock)) and '
                         'val(self._putlock)._value >= 0 and val(self._putlock)._value <= val(self._putlock)._initial_value and allocated(val(self._putlock)._cond) and not val(self._putlock)._cond.held)'},
        modifies=['Sem._value', 'g.releases', 'g.reaped'],
        loops={0: {'inv': {'one_release_per_reaped_worker': 'implies(self._putlock is not None, g.releases == old(g.releases) + _i)',
                           'bounded': 'self._putlock is None or (val(self._putlock)._value >= 0 and '
                                      'val(self._putlock)._value <= val(self._putlock)._initial_value)',
                           'joined': 'len(joined) == g.reaped - old(g.reaped)'},
                   'modifies': ['Sem._value', 'g.releases']}},
        ensures={'slot_returned_for_every_replaced_worker':
                 'implies(self._putlock is not None, g.releases - old(g.releases) == g.reaped - old(g.reaped))',
                 'bounded': 'self._putlock is None or (val(self._putlock)._value >= 0 and '
                            'val(self._putlock)._value <= val(self._putlock)._initial_value)'},
    )
    # on_ready with the semaphore under its contract: the slot goes back
    # exactly when the first result of a cached job arrives
    on_ready = None
    for it in c01_list:
        if it.qualname.endswith('.on_ready'):
            on_ready = it
    on_ready.prop = PROP
    on_ready.requires = dict(on_ready.requires, sem='putlock is None or (allocated(val(putlock)) and '
                             'val(putlock)._value >= 0 and val(putlock)._value <= val(putlock)._initial_value and allocated(val(putlock)._cond) and not val(putlock)._cond.held)')
    on_ready.modifies = on_ready.modifies + ['Sem._value']
    for d in [on_ready.ensures] + list(on_ready.raises.values()):
        d['semaphore_bounded'] = ('putlock is None or (val(putlock)._value >= 0 and '
                                  'val(putlock)._value <= val(putlock)._initial_value)')

    submit = ps.apply_async_contract(PROP)

    # the task feeder: a job resolved as "task could not be sent" never reaches
    # a worker, so nothing else will ever give its slot back
    import copy
    set_counting = copy.copy(w.contracts['pool.ApplyResult._set'])
    set_counting.params = dict(set_counting.params, i=ValS)
    set_counting.modifies = set_counting.modifies + ['g.failed_sends']
    set_counting.ensures = dict(set_counting.ensures, failed_send_counted='g.failed_sends == old(g.failed_sends) + 1')
    set_counting.raises = {k: dict(v, failed_send_counted='g.failed_sends == old(g.failed_sends) + 1')
                           for k, v in set_counting.raises.items()}
    body0 = [it for it in c01_list if it.qualname == 'pool.TaskHandler.body'][0]
    slot_inv = 'g.failed_sends - old(g.failed_sends) == g.releases - old(g.releases)'
    body = Contract(
        'pool.TaskHandler.body', prop=PROP, params=body0.params,
        callee_contracts={'pool.ApplyResult._set': set_counting},
        externals=body0.externals, requires=body0.requires,
        modifies=body0.modifies + ['g.failed_sends', 'g.releases'],
        # (C01 also lets a lazy task sequence raise while it is iterated; that path is C01's to check, not this property's)
        loops={k: dict({kk: vv for kk, vv in v.items() if kk != 'iter_raises'},
                       inv=dict(v['inv'], slot_returned_for_unsendable_job=slot_inv),
                       modifies=v['modifies'] + ['g.failed_sends', 'g.releases'])
               for k, v in body0.loops.items()},
        lemmas=body0.lemmas,
        ensures={'slot_returned_for_unsendable_job': slot_inv},
        raises={k: {'t': 'True'} for k in body0.raises},
    )
    return [sem_init, grow, release, clear, shrink, maintain, on_ready, submit, body]



MANIFEST_ENTRY = {
    'text': 'Proof (unbounded): the class invariant 0 <= _value <= _initial_value of LaxBoundedSemaphore is proved for __init__, '
            'grow, shrink, release and clear, each for an arbitrary state satisfying it (hence for every order of operations), '
            'with clear ending full and release giving back one slot unless full; on the pool side, apply_async takes exactly '
            'one slot per job before the job exists (and none on a closed pool), on_ready releases exactly once when the first '
            'result of a cached job arrives (never for late/duplicate messages), _maintain_pool releases exactly once per '
            'reaped worker (loop invariant), and the task feeder must not resolve an unsendable job without returning its '
            'slot.  The last obligation and apply_async\'s send-failure path are refuted on the pinned tree and replayed on the '
            'real code: recorded as known findings D9a-c (a genuine leak, not repaired: the feeder has no reference to the semaphore).',
    'note': 'threading.Semaphore/Condition primitives are assumed (sequential contracts); handler atomicity assumed; fairness of '
            'wake-ups and the history-level conservation argument ("once quiet, all free") are not mechanised beyond the per-handler obligations.',
}
