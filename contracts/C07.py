"""C07 -- close() then join() drains all work and leaves no processes behind."""
from pyvc.api import *
import pool_shared as ps
import handles as H
import worker as W
import C01 as c01
import C04 as c04

PROP = 'C07'
VARIANTS = ['apply', 'map']
REPLAYERS = {q: 'replayers/close_join.py' for q in (
    'pool.Pool.join', 'pool.Pool.close', 'pool.TaskHandler.tell_others', 'pool.Worker._ensure_messages_consumed',
    'pool.ResultHandler._make_methods.<locals>.on_ready', 'pool.ResultHandler.finish_at_shutdown')}
REPLAYERS['pool.Pool.apply_async'] = 'replayers/apply_async_slot.py'
REPLAYERS['pool.Pool._join_exited_workers'] = 'replayers/join_exited.py'

ASSUMPTIONS = [
    'thread.join()/stop and Process.join() return when the thread/process has ended (assumed); the order in which join() '
    'stops the helpers is what is proved',
    'A-atomic (handler granularity); queue puts of the sentinels do not fail except with IOError',
    'finish_at_shutdown: poll (a message, an extra sentinel, nothing, or IOError/EOFError), the dispatcher, the tick and the '
    'time-limit check are assumed contracts that can only remove jobs from the cache; the last block (making room in the '
    'outqueue for the sentinels) is under a statement contract: it touches neither the cache nor the handler',
    'the parent only ever increments a worker\'s on_ready_counter (loop-head havoc of Counter.value constrained to be monotone)',
]
OUT_OF_REACH = [
    'that join() *returns* (liveness) and that the OS has reaped the children: reduced to "Process.join() was called on every '
    'started worker, after the three helper threads were stopped, in that order"',
    'imap handles: crediting is not under contract (their owner list has no index); for map handles the clause is generated '
    'and refuted (D7, known finding)',
]


def shutdown_drain_contract(w):
    """ResultHandler.finish_at_shutdown: keeps dispatching results until the cache is empty"""
    g = w.classes['g']
    g.fields.update({'polls': IntS, 'tasks_read': IntS, 'dispatched': IntS, 'ticks': IntS, 'timeout_checks': IntS,
                     'extra_sentinels': IntS, 'poll_failed': BoolS, 'all_joined_at': opt(RealS), 'now': RealS})
    w.cls('RHS', module='pool', pyname='ResultHandler', fields={
        'outqueue': ValS, 'get': ValS, 'cache': dict_of(IntS, ref('Job')), 'poll': ValS, 'join_exited_workers': ValS,
        '_shutdown_complete': BoolS, 'check_timeouts': opt(ValS), 'on_state_change': ValS, '_state': IntS})

    def call(ex, args, kw):
        me = ex.root.scopes[0]['self']
        fn = args[0]

        def is_(field):
            v = ex.path.read_field(me, field)
            if isinstance(v, SOpt):
                return ex.path.decide(z3.And(z3.Not(v.isnone), fn.e == v.val.e))
            return ex.path.decide(fn.e == v.e)
        if is_('poll'):
            gset(ex, 'polls', SV(IntS, gget(ex, 'polls').e + 1))
            k = ex.path.choose(4)
            if k == 0:
                gset(ex, 'poll_failed', mk_bool(True))
                raise_exc(ex, 'OSError' if ex.path.choose(2) == 0 else 'EOFError')
            if k == 1:
                return STup([mk_bool(False), SNone()])
            if k == 2:
                gset(ex, 'extra_sentinels', SV(IntS, gget(ex, 'extra_sentinels').e + 1))
                return STup([mk_bool(True), SNone()])
            gset(ex, 'tasks_read', SV(IntS, gget(ex, 'tasks_read').e + 1))
            task = SV(ValS, z3.Const(fresh_name('task'), Val))
            ex.path.assume(task.e != z3.Const('NoneVal', Val))        # (None is the sentinel: the case above)
            return STup([mk_bool(True), task])
        if is_('on_state_change'):
            # the handlers proved in C01/C03: they resolve jobs, which removes them from the cache
            prove(ex, 'dispatch.every_message_read_is_dispatched_once', gget(ex, 'dispatched').e == gget(ex, 'tasks_read').e - 1)
            gset(ex, 'dispatched', SV(IntS, gget(ex, 'dispatched').e + 1))
            havoc_cache(ex, me)
            return SNone()
        if is_('join_exited_workers'):
            prove(ex, 'tick.told_that_the_pool_is_shutting_down', kw.get('shutdown', mk_bool(False)).e)
            gset(ex, 'ticks', SV(IntS, gget(ex, 'ticks').e + 1))
            havoc_cache(ex, me)                 # jobs of lost workers are failed by the tick (C04)
            if ex.path.choose(2) == 1:
                j = gget(ex, 'all_joined_at')
                if ex.path.decide(j.isnone):
                    gset(ex, 'all_joined_at', gget(ex, 'now'))
                raise_exc(ex, 'WorkersJoined')
            return SNone()
        if is_('check_timeouts'):
            gset(ex, 'timeout_checks', SV(IntS, gget(ex, 'timeout_checks').e + 1))
            havoc_cache(ex, me)                 # a job past its hard limit is failed (C05)
            return SNone()
        raise Unsupported('finish_at_shutdown calls an unknown callable')

    def havoc_cache(ex, me):
        cache = ex.path.read_field(me, 'cache')
        has = ex.path.read_field(cache, 'has')
        nh = has.shape.fresh('has_after')
        k = z3.Int(fresh_name('k'))
        ex.path.assume(z3.ForAll([k], z3.Implies(nh.shape.select(nh, SV(IntS, k)).e, has.shape.select(has, SV(IntS, k)).e)))
        size = IntS.fresh('size_after')
        ex.path.assume(z3.And(size.e >= 0, size.e <= ex.path.read_field(cache, 'size').e))
        ex.path.write_field(cache, 'has', nh)
        ex.path.write_field(cache, 'size', size)
    counts = ('g.dispatched == g.tasks_read and g.ticks == g.polls - g.extra_sentinels and '
              '(self.check_timeouts is None or g.timeout_checks == g.polls)')
    return Contract(
        'pool.ResultHandler.finish_at_shutdown', prop=PROP, params={'self': ref('RHS'), 'handle_timeouts': BoolS},
        externals={'<callable>': call, 'pool.debug': noop, 'time.monotonic': ps.ext_monotonic, 'pool.monotonic': ps.ext_monotonic},
        requires={'wf': 'allocated(self.cache) and len(self.cache) >= 0 and g.now > 0',
                  'fresh': 'g.polls == 0 and g.tasks_read == 0 and g.dispatched == 0 and g.ticks == 0 and g.timeout_checks == 0 '
                           'and g.extra_sentinels == 0 and not g.poll_failed and g.all_joined_at is None',
                  'distinct_callables': 'self.poll != self.on_state_change and self.poll != self.join_exited_workers and '
                                        'self.on_state_change != self.join_exited_workers and '
                                        '(self.check_timeouts is None or (val(self.check_timeouts) != self.poll and '
                                        'val(self.check_timeouts) != self.on_state_change and '
                                        'val(self.check_timeouts) != self.join_exited_workers))'},
        modifies=['g.*', 'self.cache.*', 'self._shutdown_complete'],
        blocks=[{'label': 'making room in the outqueue for the sentinels', 'first': "if hasattr(outqueue, '_reader'):",
                 'last': "if hasattr(outqueue, '_reader'):", 'assigns': {'i': IntS}, 'raises': []}],
        loops={0: {'inv': {'wf': 'allocated(self.cache) and len(self.cache) >= 0 and g.now > 0 and self._shutdown_complete',
                           'counts': counts, 'still_connected': 'not g.poll_failed',
                           'first_all_joined': '(time_terminate is None) == (g.all_joined_at is None) and '
                                               'implies(time_terminate is not None, val(time_terminate) >= val(g.all_joined_at) '
                                               'and val(g.all_joined_at) > 0)'},
                   'modifies': ['g.*', 'self.cache.*'],
                   'locals': {'time_terminate': opt(RealS), 'ready': BoolS, 'task': opt(ValS), 'now': RealS}}},
        ensures={
            'marks_the_shutdown': 'self._shutdown_complete',
            # C07: the result handler keeps draining until the cache is empty
            'drains_until_every_job_has_its_result': 'len(self.cache) == 0 or self._state == 2 or g.poll_failed or '
                                                     '(g.all_joined_at is not None and g.now - val(g.all_joined_at) > 5)',
            'every_message_read_is_dispatched': 'g.dispatched == g.tasks_read',
            'lost_workers_and_time_limits_still_watched_while_draining':
                'implies(not g.poll_failed, g.ticks == g.polls - g.extra_sentinels) and '
                '(self.check_timeouts is None or g.timeout_checks == g.polls)',
        },
    )


def noop(ex, args, kw):
    return SNone()


def ext_stop(ex, args, kw):
    """stop_if_not_current(thread): the thread is stopped/joined; the order is recorded"""
    t = args[0]
    n = gget(ex, 'seq')
    m = gget(ex, 'stopped_at')
    gset(ex, 'stopped_at', m.shape.store(m, SV(IntS, t.id), SV(IntS, n.e + 1)))
    gset(ex, 'seq', SV(IntS, n.e + 1))
    return SNone()


def worker_join(ex, args, kw):
    """Process.join(): recorded (which worker, when)"""
    wk = args[0]
    n = gget(ex, 'seq')
    m = gget(ex, 'joined_at')
    gset(ex, 'joined_at', m.shape.store(m, SV(IntS, wk.id), SV(IntS, n.e + 1)))
    gset(ex, 'seq', SV(IntS, n.e + 1))
    return SNone()


def ext_taskqueue_put(ex, args, kw):
    gset(ex, 'sentinels', SV(IntS, gget(ex, 'sentinels').e + 1))
    return SNone()


def ext_put_sentinel(ex, args, kw):
    """put(None) / outqueue.put(None): one sentinel sent, or IOError"""
    if ex.path.choose(2) == 1:
        gset(ex, 'ioerror', mk_bool(True))
        raise_exc(ex, 'OSError')
    gset(ex, 'sentinels', SV(IntS, gget(ex, 'sentinels').e + 1))
    return SNone()


def ext_put_result_sentinel(ex, args, kw):
    if ex.path.choose(2) == 1:
        gset(ex, 'ioerror', mk_bool(True))
        raise_exc(ex, 'OSError')
    gset(ex, 'result_sentinels', SV(IntS, gget(ex, 'result_sentinels').e + 1))
    return SNone()


def build(w, variant='apply'):
    if variant == 'map':
        import c07_kinds
        return c07_kinds.build_map(w)
    for c in c01.build(w):
        w.contracts.setdefault(c.qualname, c)
    ps.declare_submission(w)
    W.declare_worker(w)
    g = w.classes['g']
    g.fields.update({'seq': IntS, 'stopped_at': MapS(IntS, IntS), 'joined_at': MapS(IntS, IntS), 'sentinels': IntS,
                     'result_sentinels': IntS, 'ioerror': BoolS})
    w.classes['Counter'].methods['get_lock'] = lambda ex, a, k: SV(ValS, z3.Const('counter_lock', Val))
    w.cls('Thread', module='pool', pyname='PoolThread', fields={'_state': IntS, '_was_started': BoolS})
    w.classes['Supervisor'].base = 'Thread'
    w.classes['Supervisor'].fields.pop('_state', None)
    P = w.classes['Pool']
    P.fields.update({'_worker_handler': ref('Supervisor'), '_task_handler': ref('Thread'), '_result_handler': ref('Thread')})
    w.classes['WorkerP'].methods['join'] = worker_join
    w.classes['Sem'].methods['acquire'] = ps.ext_sem_acquire
    w.externals.update({'pool.stop_if_not_current': ext_stop, 'threading.Semaphore.release': lambda ex, a, k: (
        ex.path.write_field(a[0], '_value', SV(IntS, ex.path.read_field(a[0], '_value').e + 1)), SNone())[1]})

    close = Contract(
        'pool.Pool.close', prop=PROP, params={'self': ref('Pool')},
        externals={'<opaque>.put': ext_taskqueue_put},
        inline=['pool.PoolThread.close', 'pool.LaxBoundedSemaphore.clear'],
        requires={'wh': 'allocated(self._worker_handler)',
                  'sem': 'self._putlock is None or (allocated(val(self._putlock)) and val(self._putlock)._value >= 0 and '
                         'val(self._putlock)._value <= val(self._putlock)._initial_value)'},
        modifies=['self._state', 'self._worker_handler._state', 'Sem._value', 'g.sentinels', 'g.seq', 'g.stopped_at'],
        loops={('pool.LaxBoundedSemaphore.clear', 0): {
            'inv': {'bounded': 'self._value >= 0 and self._value <= self._initial_value'}, 'modifies': ['self._value']}},
        ensures={
            'running_pool_becomes_closed': 'implies(old(self._state) == 0, self._state == 1 and self._worker_handler._state == 1 '
                                           'and g.sentinels == old(g.sentinels) + 1)',
            'second_close_is_a_no_op': 'implies(old(self._state) != 0, self._state == old(self._state) and '
                                       'g.sentinels == old(g.sentinels) and g.seq == old(g.seq))',
            'blocked_submitters_released': 'implies(old(self._state) == 0 and self._putlock is not None, '
                                           'val(self._putlock)._value == val(self._putlock)._initial_value)',
        },
    )
    join = Contract(
        'pool.Pool.join', prop=PROP, params={'self': ref('Pool')},
        inline=['pool.Pool._stop_task_handler'],
        requires={'threads': 'allocated(self._worker_handler) and allocated(self._task_handler) and allocated(self._result_handler) '
                             'and self._worker_handler != self._task_handler and self._task_handler != self._result_handler '
                             'and self._worker_handler != self._result_handler and allocated(self._pool) and len(self._pool) >= 0',
                  'seq': 'g.seq >= 0',
                  'workers': Forall({'j': 'ints()'}, 'implies(0 <= j and j < len(self._pool), allocated(at(self._pool, j)))'),
                  'nothing_joined_yet': Forall({'o': 'ints()'}, 'g.joined_at[o] == 0 and g.stopped_at[o] == 0')},
        modifies=['g.seq', 'g.stopped_at', 'g.joined_at'],
        loops={0: {'inv': {
            'helpers_stopped_in_order': '0 < g.stopped_at[idof(self._worker_handler)] and '
                                        'g.stopped_at[idof(self._worker_handler)] < g.stopped_at[idof(self._task_handler)] and '
                                        'g.stopped_at[idof(self._task_handler)] < g.stopped_at[idof(self._result_handler)] and '
                                        'g.stopped_at[idof(self._result_handler)] <= g.seq',
            'every_started_worker_so_far_joined': Forall({'j': 'ints()'},
                'implies(0 <= j and j < _i and at(self._pool, j)._popen is not None, '
                'g.joined_at[idof(at(self._pool, j))] > g.stopped_at[idof(self._result_handler)])'),
        }, 'modifies': ['g.seq', 'g.joined_at']}},
        ensures={
            'supervisor_then_feeder_then_result_thread': '0 < g.stopped_at[idof(self._worker_handler)] and '
                'g.stopped_at[idof(self._worker_handler)] < g.stopped_at[idof(self._task_handler)] and '
                'g.stopped_at[idof(self._task_handler)] < g.stopped_at[idof(self._result_handler)]',
            'every_started_worker_joined_after_the_threads': Forall({'j': 'ints()'},
                'implies(0 <= j and j < len(self._pool) and at(self._pool, j)._popen is not None, '
                'g.joined_at[idof(at(self._pool, j))] > g.stopped_at[idof(self._result_handler)])'),
        },
        raises={'AssertionError': {'only_on_a_running_pool': 'self._state != 1 and self._state != 2'}},
    )
    th = w.classes['TaskHandler']
    tell = Contract(
        'pool.TaskHandler.tell_others', prop=PROP, params={'self': ref('TaskHandler')},
        externals={'<opaque>.put': ext_put_result_sentinel, '<callable>': ext_put_sentinel},
        requires={'pool': 'allocated(self.pool) and len(self.pool) >= 0', 'no_error_yet': 'not g.ioerror'},
        modifies=['g.sentinels', 'g.result_sentinels', 'g.ioerror'],
        loops={0: {'inv': {'one_sentinel_per_worker_so_far': 'g.sentinels == old(g.sentinels) + _i and '
                                                            'g.result_sentinels == old(g.result_sentinels) + 1 and not g.ioerror'},
                   'modifies': ['g.sentinels', 'g.ioerror']}},
        ensures={'one_sentinel_for_the_result_thread_and_one_per_worker':
                 'implies(not g.ioerror, g.result_sentinels == old(g.result_sentinels) + 1 and '
                 'g.sentinels == old(g.sentinels) + len(self.pool))',
                 'never_more_than_one_per_worker': 'g.sentinels <= old(g.sentinels) + len(self.pool)'},
    )
    w.classes['WorkerC'].fields.update({})
    consumed = Contract(
        'pool.Worker._ensure_messages_consumed', prop=PROP,
        params={'self': ref('WorkerC'), 'completed': IntS},
        requires={'counter': 'self.on_ready_counter is None or allocated(val(self.on_ready_counter))'},
        modifies=['g.now', 'g.sleeps', 'Counter.value'],
        returns=BoolS,
        loops={0: {'inv': {'still_waiting': 'implies(self.on_ready_counter is not None, g.sleeps == old(g.sleeps) + _i)',
                           'slept_only_if_behind': 'implies(self.on_ready_counter is not None and _i > 0, '
                                                   'old(val(self.on_ready_counter).value) < completed)',
                           # the parent only ever increments the counter
                           'counter_monotone': 'implies(self.on_ready_counter is not None, '
                                               'val(self.on_ready_counter).value >= old(val(self.on_ready_counter).value))'},
                   'modifies': ['g.now', 'g.sleeps', 'Counter.value']}},
        ensures={
            # exiting workers do not wait out the guard once their results have been consumed
            'no_waiting_when_everything_was_consumed':
                'implies(self.on_ready_counter is not None and old(val(self.on_ready_counter).value) >= completed, '
                'result and g.sleeps == old(g.sleeps))',
            'true_only_if_consumed': 'implies(result, self.on_ready_counter is not None and '
                                     'val(self.on_ready_counter).value >= completed)',
            'bounded_wait': 'g.sleeps <= old(g.sleeps) + 300',
        },
    )
    w.externals['time.sleep'] = ps.ext_sleep
    w.externals['time.monotonic'] = ps.ext_monotonic
    def redeclare(w):
        # c01.build / c04.build declare the classes afresh: put this property's additions back
        ps.declare_submission(w)
        W.declare_worker(w)
        g = w.classes['g']
        g.fields.update({'seq': IntS, 'stopped_at': MapS(IntS, IntS), 'joined_at': MapS(IntS, IntS), 'sentinels': IntS,
                         'result_sentinels': IntS, 'ioerror': BoolS})
        w.classes['Counter'].methods['get_lock'] = lambda ex, a, k: SV(ValS, z3.Const('counter_lock', Val))
        w.cls('Thread', module='pool', pyname='PoolThread', fields={'_state': IntS, '_was_started': BoolS})
        w.classes['Supervisor'].base = 'Thread'
        w.classes['Supervisor'].fields.pop('_state', None)
        w.classes['Pool'].fields.update({'_worker_handler': ref('Supervisor'), '_task_handler': ref('Thread'),
                                         '_result_handler': ref('Thread')})
        w.classes['WorkerP'].methods['join'] = worker_join
        w.classes['Sem'].methods['acquire'] = ps.ext_sem_acquire
    on_ready = [c for c in c01.build(w) if c.qualname.endswith('.on_ready')][0]
    redeclare(w)
    # the result of a job is credited to the counter of the worker that sent it
    on_ready.prop = PROP
    cr = ('implies(old(has(cache, job)) and self.on_ready_counters is not None and old(get(cache, job))._worker_pid is not None '
          'and old(get(cache, job))._worker_pid != 0 and has(val(self.on_ready_counters), val(old(get(cache, job))._worker_pid)), '
          'get(val(self.on_ready_counters), val(old(get(cache, job))._worker_pid)).value == '
          'old(get(val(self.on_ready_counters), val(get(cache, job)._worker_pid)).value) + 1)')
    for d in [on_ready.ensures] + list(on_ready.raises.values()):
        d['result_credited_to_the_worker_that_sent_it'] = cr
    on_ready.requires = dict(on_ready.requires, counters_wf='self.on_ready_counters is None or '
                             'all(implies(has(val(self.on_ready_counters), p), allocated(get(val(self.on_ready_counters), p)) and '
                             'len(val(self.on_ready_counters)) > 0) for p in ints())')
    # the counters on_ready credits are the ones the pool registers new workers in: reaping must not replace the registries
    reap = [c for c in c04.build(w, 'apply') if c.qualname.endswith('_join_exited_workers')][0]
    redeclare(w)
    reap.prop = PROP
    # (the loss-record clause that is a recorded finding of C04 -- D12 -- is C04's to report, not this property's)
    reap.ensures = {k: v for k, v in reap.ensures.items() if k != 'job_of_a_vanished_worker_is_marked_in_a_tick_that_reaps_nothing'}
    reap.modifies = reap.modifies + ['g.seq', 'g.joined_at']        # this world records Process.join() calls
    reap.loops[1]['modifies'] = reap.loops[1]['modifies'] + ['g.seq', 'g.joined_at']
    reap.uses = dict(reap.uses, registries_stay_the_shared_objects=[])
    reap.ensures = dict(reap.ensures, registries_stay_the_shared_objects=(
        'self._on_ready_counters == old(self._on_ready_counters) and self._poolctrl == old(self._poolctrl) and '
        'self._pool == old(self._pool) and self._cache == old(self._cache)'))
    return [ps.apply_async_contract(PROP), close, join, tell, consumed, on_ready, reap, shutdown_drain_contract(w)]


MANIFEST_ENTRY = {
    'text': 'Proof (unbounded) over the functions close()/join() are made of: after close() every submission raises and adds '
            'nothing to the queue or the cache; close() on a running pool flips pool and supervisor to CLOSE, queues exactly one '
            'feeder sentinel and refills the submission semaphore, a second close() does nothing; join() stops supervisor, feeder '
            'and result thread strictly in that order and then joins every started worker (loop invariant over the worker list), '
            'and refuses a running pool; the feeder, when it leaves, sends one sentinel to the result thread and one per worker '
            'unless the pipe fails; the result handler credits every result to the counter of the worker that accepted the job, '
            'and an exiting worker does not sleep once the counter has reached its number of completed jobs and waits at most 300 '
            'retries otherwise; reaping exited workers (_join_exited_workers, C04 contract) never replaces the registries the '
            'result handler and the supervisor share with the pool (the seeded change C07-a).  ResultHandler.finish_at_shutdown '
            '(loop invariant over any number of rounds): it returns only when the cache is empty, the pool is terminating, the '
            'result pipe failed, or more than 5 s on the clock have passed since the tick first reported that all workers are '
            'gone; every message read in the meantime is dispatched exactly once, extra sentinels are skipped, and lost workers '
            '(the tick, told that the pool is shutting down) and time limits are still watched in every round.',
    'note': 'Liveness (join() returns) and OS-level reaping are outside contracts: reduced to the order of stop/join calls and to '
            'the sentinel counts.  The crediting clause is also generated for map handles (variant map): there it is refuted -- the '
            'counter of the first owner of the handle is credited, not the sender\'s (D7: KNOWN-FINDING with replay; 31 s join '
            'natively; not repaired: the handles have no index-to-owner interface that covers imap) -- imap handles are not '
            'under contract here.',
}
