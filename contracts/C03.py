"""C03 -- worker job protocol: accept before run, one result per job, NACK honoured."""
from pyvc.api import *
import worker as W

PROP = 'C03'
VARIANTS = ['apply', 'map']
REPLAYERS = {'pool.Worker.workloop': 'replayers/workloop.py', 'pool.ApplyResult._ack': 'replayers/ack_owner.py',
             'pool.MapResult._ack': 'replayers/kinds_lost.py'}


def build(w, variant='apply'):
    if variant == 'map':
        # what the ACK of a chunk records on a map handle (the contract lives with C04's handle kinds)
        import c04_kinds
        import pool_shared as ps
        ps.declare(w, kind='map')
        items = [c for c in c04_kinds.build_map(w) if c.qualname.endswith('MapResult._ack')]
        for c in items:
            c.prop = PROP
        return items
    # the parent side of the protocol: what the ACK records (C01's contracts of ApplyResult._ack and on_ack)
    import C01 as c01
    parent = [c for c in c01.build(w) if c.qualname.endswith('ApplyResult._ack') or c.qualname.endswith('.on_ack')]
    for c in parent:
        c.prop = PROP
    W.declare_worker(w)
    return [W.workloop_contract(PROP)] + parent

ASSUMPTIONS = [
    'the worker talks to the world only through wait_for_job / wait_for_syn / put / the task function; each is an assumed '
    'external producing every outcome the real one can (value, None, any exception, the termination signal arriving inside it)',
    'A-fifo: messages of one worker arrive in the order it put them (ACK before READY)',
]
OUT_OF_REACH = ['that the parent\'s send_ack reaches the worker (Celery supplies it; billiard\'s is a no-op)']

MANIFEST_ENTRY = {
    'text': 'Proof (unbounded, loop invariant over any number of jobs): Worker.workloop is verified against the message grammar '
            'of the statement -- for every job the ACK (carrying the worker pid and the acceptance time) is put before the task '
            'function is called, the task is called exactly once and only for a job that was not refused, exactly one READY is '
            'put per executed job (the encoding-error record if the first put fails) before the next job is taken, a NACKed job '
            'is neither executed nor counted toward the quota, the quota is never exceeded, and nothing is sent or taken after '
            'the termination signal (refuted on the pinned tree and replayed: defect D2, fixed).  The parent side is proved with it: ApplyResult._ack '
            'records owner and acceptance time before the accept callback runs (also for a job cancelled before its ACK is '
            'handled), and on_ack attributes the ACK to the job named in it.',
    'note': 'The ACK of a map chunk (variant map: MapResult._ack) records the accepting worker and the time for exactly the items '
            'of that chunk -- the last one may be shorter -- and keeps the per-item lists as long as the job.  '
            'Externals (queue receive/put, task code) are assumed contracts; message order per worker is assumed FIFO.',
}
