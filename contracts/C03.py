"""C03 -- worker job protocol: accept before run, one result per job, NACK honoured."""
from pyvc.api import *
import worker as W

PROP = 'C03'
REPLAYERS = {'pool.Worker.workloop': 'replayers/workloop.py', 'pool.ApplyResult._ack': 'replayers/ack_owner.py'}


def build(w):
    # the parent side of the protocol: what the ACK records (C01's contracts of ApplyResult._ack and on_ack)
    import C01 as c01
    parent = [c for c in c01.build(w) if c.qualname.endswith('ApplyResult._ack') or c.qualname.endswith('.on_ack')]
    for c in parent:
        c.prop = PROP
    W.declare_worker(w)
    return [W.workloop_contract(PROP)] + parent

ASSUMPTIONS = [
    'the worker talks to the world only through wait_for_job / wait_for_syn / put / the task function; each is an assumed '
    'external producing every outcome the real one can (value, None, any exception, the termination signal arriving inside it)',
    'A-fifo: messages of one worker arrive in the order it put them (ACK before READY)',
]
OUT_OF_REACH = ['that the parent\'s send_ack reaches the worker (Celery supplies it; billiard\'s is a no-op)']

MANIFEST_ENTRY = {
    'text': 'Proof (unbounded, loop invariant over any number of jobs): Worker.workloop is verified against the message grammar '
            'of the statement -- for every job the ACK (carrying the worker pid and the acceptance time) is put before the task '
            'function is called, the task is called exactly once and only for a job that was not refused, exactly one READY is '
            'put per executed job (the encoding-error record if the first put fails) before the next job is taken, a NACKed job '
            'is neither executed nor counted toward the quota, the quota is never exceeded, and nothing is sent or taken after '
            'the termination signal (refuted on the pinned tree and replayed: defect D2, fixed).  The parent side is proved with it: ApplyResult._ack '
            'records owner and acceptance time before the accept callback runs (also for a job cancelled before its ACK is '
            'handled), and on_ack attributes the ACK to the job named in it.',
    'note': 'Externals (queue receive/put, task code) are assumed contracts; message order per worker is assumed FIFO.',
}
