"""C15 -- shared ctypes values: own storage, zeroed, then initialised (the part a contract can state)."""
from pyvc.api import *
import C14 as c14

PROP = 'C15'
VARIANTS = ['size', 'init', 'locks', 'fork']
REPLAYERS = {q: 'replayers/shared_values.py' for q in (
    'heap.BufferWrapper.__init__', 'sharedctypes.rebuild_ctype', 'sharedctypes._new_value', 'sharedctypes.RawValue',
    'sharedctypes.RawArray', 'sharedctypes.getvalue', 'sharedctypes.setvalue', 'sharedctypes.getraw', 'sharedctypes.setraw',
    'sharedctypes.SynchronizedBase.__enter__', 'sharedctypes.SynchronizedBase.__exit__', 'sharedctypes.SynchronizedBase.__init__',
    'sharedctypes.SynchronizedArray.__getitem__', 'sharedctypes.SynchronizedArray.__setitem__', 'sharedctypes.synchronized')}
REPLAYERS['heap.Heap.malloc'] = 'replayers/heap_ops.py'

ASSUMPTIONS = [
    'ctypes: sizeof(t) >= 0 is the size of every instance of t, sizeof(t * n) == n * sizeof(t); t.from_buffer(buf) is an object '
    'whose storage is exactly the bytes of buf; memset(addressof(obj), 0, n) zeroes the first n bytes of obj; obj.__init__(*vals) '
    'stores the given values (a ctypes array initialised with as many values as it has elements is fully initialised)',
    'Heap.malloc has the contract proved in C14 (a live block of at least the requested size, disjoint from every other live '
    'block); util.Finalize(obj, f, args) calls f(*args) once when obj is dropped',
]
OUT_OF_REACH = [
    'that a write made in a child process is visible in the parent (mmap semantics) and that read-modify-write sequences under '
    'the object\'s lock lose no update under contention: interleavings of processes, not statements about one call',
    'the synchronized wrapper classes (lock-wrapped accessors generated with make_property / exec)',
]

_sizeof = z3.Function('ctypes_sizeof', Val, z3.IntSort())
_arr = z3.Function('ctypes_array_type', Val, z3.IntSort(), Val)


def malloc_after_fork(w):
    """Heap.malloc in a child, the first time after a fork: the heap the child inherited describes arenas that are shared
    with the parent (and every sibling); nothing of it may be handed out -- the child starts from an empty heap, which is
    what Heap.__init__ establishes (its contract, proved in C14: starts_empty, belongs_to_the_calling_process).  Checked
    at the moment the allocation proper starts (the calls of _free_pending_blocks and _malloc): the indexes, the set of
    live blocks and the pending list are empty and the heap carries this process's pid"""
    items = c14.build(w)
    by = {c.qualname: c for c in items}
    full = by['heap.Heap.__init__']
    keep = ('starts_empty', 'belongs_to_the_calling_process', 'lock_is_free_and_not_reentrant')
    w.contracts['heap.Heap.__init__'] = Contract(
        'heap.Heap.__init__', prop=PROP, params=dict(full.params), modifies=list(full.modifies),
        ensures={k: full.ensures[k] for k in keep})
    pub = by['heap.Heap.malloc']
    S_, A_, PD_ = 'self._start_to_block', 'self._allocated_blocks', 'self._pending_free_blocks'

    def discarded(ex, what):
        me = ex.root.scopes[0]['self']
        prove(ex, 'fork.the_inherited_heap_is_discarded_before_%s' % what,
              ex.spec_bool('len(%s) == 0 and len(%s) == 0 and len(%s) == 0 and self._lastpid == g.pid' % (S_, A_, PD_),
                           {'self': me}))

    def ext_drain(ex, args, kw):
        discarded(ex, 'pending_blocks_are_freed')
        return SNone()

    def ext_malloc(ex, args, kw):
        discarded(ex, 'a_block_is_chosen')
        a = SRef(ref('Arena'), ex.path.new_id('Arena'))
        lo, hi = IntS.fresh('start'), IntS.fresh('stop')
        ex.path.assume(z3.And(lo.e >= 0, hi.e >= lo.e + args[1].e))
        return STup([a, lo, hi])
    return Contract(
        'heap.Heap.malloc', prop=PROP, variants=['fork'], params=dict(pub.params), inline=list(pub.inline),
        externals=dict(pub.externals, **{'heap.Heap._free_pending_blocks': ext_drain, 'heap.Heap._malloc': ext_malloc,
                                         'heap.Heap._free': lambda ex, a, k: SNone(),
                                         'mmap.PAGESIZE': lambda ex, a, k: mk_int(4096)}),
        requires={'size': '0 <= size', 'in_a_child_after_fork': 'self._lastpid != g.pid',
                  'objects': 'allocated(self._lock) and allocated(%s) and allocated(%s) and allocated(%s)' % (S_, A_, PD_)},
        modifies=['self.*', 'Lock.*', 'set<tup[ref[Arena],int,int]>.*'], returns=pub.returns,
        ensures={'the_heap_now_belongs_to_this_process': 'self._lastpid == g.pid'},
        raises=dict(pub.raises),
    )


def build(w, variant='size'):
    if variant == 'locks':
        import c15_locks
        return c15_locks.build_locks(w, PROP)
    if variant == 'fork':
        return [malloc_after_fork(w)]
    c14.build(w)
    malloc = [c for c in c14.build(w) if c.qualname == 'heap.Heap.malloc'][0]
    w.contracts['heap.Heap.malloc'] = malloc
    g = w.classes['g']
    g.fields.update({'heap': ref('Heap'), 'finalizers': IntS, 'finalizer_block': c14.BLK, 'zeroed': MapS(IntS, IntS),
                     'inited': MapS(IntS, IntS), 'seq': IntS, 'zeroed_at': MapS(IntS, IntS), 'inited_at': MapS(IntS, IntS),
                     'init_values': MapS(IntS, IntS)})
    w.cls('BW', module='heap', pyname='BufferWrapper', fields={'_state': tup(c14.BLK, IntS)})
    w.cls('CObj', fields={'_wrapper': ref('BW'), 'ctype': ValS, 'nbytes': IntS, 'window_of': ref('BW')})
    w.cls('MView', fields={'of': ref('BW'), 'nbytes': IntS})
    w.global_overrides['heap.BufferWrapper._heap'] = lambda ex: gget(ex, 'heap')
    w.global_overrides['sharedctypes.typecode_to_type'] = lambda ex: SV(ValS, z3.Const('typecode_to_type', Val))

    def ext_finalize(ex, args, kw):
        gset(ex, 'finalizers', SV(IntS, gget(ex, 'finalizers').e + 1))
        blk = kw.get('args')
        if isinstance(blk, (STup,)) and len(blk.items) == 1:
            gset(ex, 'finalizer_block', blk.items[0])
        return SNone()

    def ext_sizeof(ex, args, kw):
        v = args[0]
        if isinstance(v, SRef):              # sizeof(obj)
            return ex.path.read_field(v, 'nbytes')
        n = _sizeof(v.e)
        ex.path.assume(n >= 0)
        return SV(IntS, n)

    def ext_binop(ex, args, kw):
        """type_ * n: the array type of n elements"""
        op, a, b = args
        if op.s == 'Mult' and isinstance(a, SV) and a.shape is ValS and isinstance(b, SV) and b.shape is IntS:
            t = _arr(a.e, b.e)
            ex.path.assume(z3.Implies(b.e >= 0, _sizeof(t) == b.e * _sizeof(a.e)))
            return SV(ValS, t)
        raise Unsupported('opaque arithmetic %s' % op.s)

    def ext_from_buffer(ex, args, kw):
        """type_.from_buffer(buf): an object of that type over exactly the bytes of buf"""
        t, buf = args[0], args[1]
        o = SRef(ref('CObj'), ex.path.new_id('CObj'))
        P = ex.path
        P.write_field(o, 'ctype', t)
        P.write_field(o, 'nbytes', SV(IntS, _sizeof(t.e)))
        P.write_field(o, 'window_of', P.read_field(buf, 'of'))
        prove(ex, 'call:from_buffer.buffer_is_exactly_as_large_as_the_type', P.read_field(buf, 'nbytes').e == _sizeof(t.e))
        return o

    def bw_create_memoryview(ex, args, kw):
        me = args[0]
        v = SRef(ref('MView'), ex.path.new_id('MView'))
        ex.path.write_field(v, 'of', me)
        st = ex.path.read_field(me, '_state')
        ex.path.write_field(v, 'nbytes', st.items[1])
        return v

    def ext_memset(ex, args, kw):
        """memset(addressof(obj), 0, n)"""
        o, val, n = args
        prove(ex, 'call:memset.fills_with_zero', as_arith(val) == 0)
        z = gget(ex, 'zeroed')
        gset(ex, 'zeroed', z.shape.store(z, SV(IntS, o.id), n))
        s = gget(ex, 'seq')
        za = gget(ex, 'zeroed_at')
        gset(ex, 'zeroed_at', za.shape.store(za, SV(IntS, o.id), SV(IntS, s.e + 1)))
        gset(ex, 'seq', SV(IntS, s.e + 1))
        return SNone()

    def cobj_init(ex, args, kw):
        """obj.__init__(*values)"""
        o = args[0]
        s = gget(ex, 'seq')
        ia = gget(ex, 'inited_at')
        gset(ex, 'inited_at', ia.shape.store(ia, SV(IntS, o.id), SV(IntS, s.e + 1)))
        gset(ex, 'seq', SV(IntS, s.e + 1))
        iv = gget(ex, 'init_values')
        nvals = None
        if len(args) == 2 and isinstance(args[1], SRef):           # *<list>
            nvals = ex.path.read_field(args[1], 'len')
        elif len(args) == 2 and isinstance(args[1], SV) and args[1].shape is ValS:
            nvals = IntS.fresh('nvalues')
        else:
            nvals = mk_int(len(args) - 1)
        gset(ex, 'init_values', iv.shape.store(iv, SV(IntS, o.id), nvals))
        return SNone()
    w.classes['CObj'].methods['__init__'] = cobj_init
    w.classes['BW'].methods['create_memoryview'] = bw_create_memoryview
    w.externals.update({
        'util.Finalize': ext_finalize, 'multiprocessing.util.Finalize': ext_finalize, 'ctypes.sizeof': ext_sizeof,
        'binop<opaque>': ext_binop, '<opaque>.from_buffer': ext_from_buffer,
        'ctypes.addressof': lambda ex, a, k: a[0], 'ctypes.memset': ext_memset,
        '<opaque>.get': lambda ex, a, k: a[-1],             # typecode_to_type.get(code, code): a type either way
        'reduction.ForkingPickler.register': lambda ex, a, k: SNone(), '<opaque>.register': lambda ex, a, k: SNone(),
    })
    heap_inv = {k: v.replace('self.', 'g.heap.') if isinstance(v, str) else v for k, v in {}.items()}
    H = 'g.heap'
    # the heap's own invariant (C14), stated about the one shared heap
    inv14 = {}
    for k, v in malloc.requires.items():
        if k in ('size', 'same_process', 'heap_size', 'arenas'):
            continue
        inv14[k] = v if not isinstance(v, str) else v
    bw_init = Contract(
        'heap.BufferWrapper.__init__', prop=PROP, variants=['size'],
        params={'self': ref('BW'), 'size': IntS},
        requires={'heap': 'allocated(g.heap)'},
        modifies=['self._state', 'g.finalizers', 'g.finalizer_block', 'Heap.*'],
        callee_contracts={'heap.Heap.malloc': Contract(
            'heap.Heap.malloc', params=malloc.params, requires={'size': '0 <= size'}, modifies=[], returns=c14.BLK,
            ensures={'large_enough': 'result[2] - result[1] >= size and result[2] - result[1] >= 8',
                     'well_placed': 'allocated(result[0]) and 0 <= result[1] and result[2] <= result[0].size'},
            raises={'AssertionError': {'size': 'size >= sys.maxsize'}})},
        ensures={
            'own_block_large_enough': 'self._state[1] == size and self._state[0][2] - self._state[0][1] >= size and '
                                      'allocated(self._state[0][0]) and 0 <= self._state[0][1] and '
                                      'self._state[0][2] <= self._state[0][0].size',
            'block_goes_back_when_the_wrapper_is_dropped': 'g.finalizers == old(g.finalizers) + 1 and '
                                                           'g.finalizer_block == self._state[0]',
        },
        raises={'AssertionError': {'size_out_of_range': 'size < 0 or size >= sys.maxsize'}},
    )
    wrapper_of = Contract(
        'heap.BufferWrapper.__init__', params={'self': ref('BW'), 'size': IntS}, requires={'size': '0 <= size'},
        modifies=['self._state'],
        ensures={'own_block_large_enough': 'self._state[1] == size and self._state[0][2] - self._state[0][1] >= size'},
        raises={},
    )
    rebuild = Contract(
        'sharedctypes.rebuild_ctype', prop=PROP, variants=['size'],
        params={'type_': ValS, 'wrapper': ref('BW'), 'length': opt(IntS)},
        requires={'wrapper_fits': 'allocated(wrapper) and wrapper._state[1] == '
                                  'ite(length is None, ctypes_sizeof(type_), val(length) * ctypes_sizeof(type_)) and '
                                  '(length is None or val(length) >= 0)'},
        modifies=[], returns=ref('CObj'),
        ensures={'views_exactly_the_wrappers_bytes_and_keeps_it_alive':
                 'fresh(result) and result._wrapper == wrapper and result.window_of == wrapper and '
                 'result.nbytes == wrapper._state[1]'},
    )
    w.spec_funcs['ctypes_sizeof'] = lambda ex, t: SV(IntS, _sizeof(t.e))
    new_value = Contract(
        'sharedctypes._new_value', prop=PROP, variants=['size'],
        params={'type_': ValS}, callee_contracts={'heap.BufferWrapper.__init__': wrapper_of},
        modifies=[], returns=ref('CObj'),
        ensures={'a_new_object_over_its_own_new_block': 'fresh(result) and fresh(result._wrapper) and '
                                                        'result.window_of == result._wrapper and '
                                                        'result.nbytes == ctypes_sizeof(type_) and '
                                                        'result._wrapper._state[1] == ctypes_sizeof(type_)'},
    )
    nv_for_callers = Contract(
        'sharedctypes._new_value', params={'type_': ValS}, modifies=[], returns=ref('CObj'),
        ensures={'new': 'fresh(result) and result.nbytes == ctypes_sizeof(type_) and result.nbytes >= 0'}, raises={})
    zero_then_init = ('g.zeroed[idof(result)] == result.nbytes and g.zeroed_at[idof(result)] > old(g.seq) and '
                      'g.inited_at[idof(result)] > g.zeroed_at[idof(result)]')
    raw_value = Contract(
        'sharedctypes.RawValue', prop=PROP, variants=['size'],
        params={'typecode_or_type': ValS, 'args': ValS},
        callee_contracts={'sharedctypes._new_value': nv_for_callers},
        requires={'seq': 'g.seq >= 0'},
        modifies=['g.zeroed', 'g.zeroed_at', 'g.inited_at', 'g.seq', 'g.init_values'], returns=ref('CObj'),
        ensures={'zero_filled_completely_then_initialised': zero_then_init + ' and fresh(result)'},
    )
    raw_array_n = Contract(
        'sharedctypes.RawArray', prop=PROP, variants=['size'],
        params={'typecode_or_type': ValS, 'size_or_initializer': IntS},
        callee_contracts={'sharedctypes._new_value': nv_for_callers},
        requires={'seq': 'g.seq >= 0', 'n': 'size_or_initializer >= 0'},
        modifies=['g.zeroed', 'g.zeroed_at', 'g.inited_at', 'g.seq', 'g.init_values'], returns=ref('CObj'),
        ensures={'zero_filled_completely': 'fresh(result) and g.zeroed[idof(result)] == result.nbytes and '
                                           'g.zeroed_at[idof(result)] > old(g.seq)'},
    )
    raw_array_i = Contract(
        'sharedctypes.RawArray', prop=PROP, variants=['init'],
        params={'typecode_or_type': ValS, 'size_or_initializer': list_of(ValS)},
        callee_contracts={'sharedctypes._new_value': nv_for_callers},
        externals={'isinstance<opaque>': lambda ex, a, k: mk_bool(False)},
        requires={'seq': 'g.seq >= 0', 'n': 'allocated(size_or_initializer) and len(size_or_initializer) >= 0'},
        modifies=['g.zeroed', 'g.zeroed_at', 'g.inited_at', 'g.seq', 'g.init_values'], returns=ref('CObj'),
        ensures={'every_element_initialised_from_the_initialiser':
                 'fresh(result) and g.inited_at[idof(result)] > old(g.seq) and '
                 'g.init_values[idof(result)] == len(size_or_initializer) and '
                 'result.nbytes == len(size_or_initializer) * ctypes_sizeof(typecode_or_type)'},
    )
    if variant == 'init':
        return [raw_array_i]
    return [bw_init, rebuild, new_value, raw_value, raw_array_n]


MANIFEST_ENTRY = {
    'text': 'PARTIAL (two of the four clauses; the two about concurrent processes are out of reach of contracts).  '
            'Proof of the allocation and initialisation path of shared ctypes objects, over Heap.malloc\'s contract (C14): a '
            'BufferWrapper owns a live heap block at least as large as requested and registers exactly that block to be freed '
            'when it is dropped; rebuild_ctype makes an object over exactly the wrapper\'s bytes and keeps the wrapper alive '
            'through the object; _new_value gives every object its own new wrapper of exactly sizeof(type) bytes -- with '
            'C14\'s "disjoint from every other live block" this is the isolation clause; RawValue and RawArray(n) zero-fill '
            'the whole object (sizeof(obj) bytes) before any initialiser runs, RawArray(initialiser) builds an array of exactly '
            'len(initialiser) elements and initialises every one of them.  The lock-wrapped accessors (variant locks): the '
            'property accessors get/set value and raw -- instantiated on every run from the exec template in the real source -- '
            'and SynchronizedArray.__getitem__/__setitem__ touch the shared object only while the wrapper\'s own lock is held '
            '(guarded-by obligations on every access), acquire it once and give it back on every way out; '
            'SynchronizedBase.__enter__/__exit__ take and release that same lock; the constructor keeps the lock it is given, '
            'makes a new one only when none is given, and binds acquire/release to it; synchronized() hands the lock it is given '
            'to the wrapper for every kind of simple value and array (it is also what un-pickling a wrapper calls).  Heap.malloc in a child after fork '
            '(variant fork): the inherited heap -- whose arenas are shared with the parent -- is discarded before anything is '
            'allocated: when the pending blocks are freed and when a block is chosen, the indexes, the live set and the '
            'pending list are empty and the heap carries the child\'s pid (over Heap.__init__\'s contract, C14).',
    'note': 'Own storage, zero / initial value, and the lock discipline of the accessors.  Cross-process visibility, and that the '
            'lock discipline yields atomic read-modify-write under contention, are interleaving properties of processes, out of '
            'reach of contracts; ctypes itself (sizeof, from_buffer, memset, __init__) and the RLock are assumed contracts.  The '
            'accessor functions are not in the source as functions: the extraction instantiates the template string of '
            'sharedctypes.py for the names its class bodies pass to make_property (listed in the evidence).',
}
