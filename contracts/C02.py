"""C02 -- results equal the sequential computation: value, order, exception."""
from pyvc.api import *
from pyvc.absseq import seq_len, seq_at
import pool_shared as ps
import handles as H

PROP = 'C02'
VARIANTS = ['map', 'imap', 'imapu', 'feeder', 'wait']
REPLAYERS = {q: 'replayers/map_results.py' for q in (
    'pool.MapResult.__init__', 'pool.MapResult._set', 'pool.Pool._map_async', 'pool.IMapIterator._set',
    'pool.IMapIterator._set_length', 'pool.IMapIterator.next', 'pool.IMapUnorderedIterator._set', 'pool.ApplyResult.get',
    'pool.mapstar', 'pool.starmapstar')}
REPLAYERS['pool.TaskHandler.body'] = 'replayers/feeder_length.py'
REPLAYERS['pool.Pool.imap'] = REPLAYERS['pool.Pool.imap_unordered'] = 'replayers/imap_entry.py'

ASSUMPTIONS = [
    'a worker sends exactly one result per (job, chunk index) and runs the function of the task it was sent (C03); the result '
    'of chunk i is the list mapstar returns for that chunk (one value per input of the chunk, in order) -- so len(result) is the '
    'length of chunk i; results arrive in ANY order (the contracts quantify over the index of the arriving chunk)',
    'lists held in MapResult._value are abstract sequences (pyvc/absseq.py: length, element at k, Python slice assignment)',
    'A-atomic: the result handler runs one _set at a time; user callbacks do not touch the handle',
    'pickling leaves arguments and results unchanged (assumed of pickle)',
    'the induction "every chunk set exactly once, in any order => the list equals the sequential map" is the meta-argument of '
    'DESIGN.md section 4 over the per-call obligations proved here',
]
OUT_OF_REACH = [
    'Pool._get_tasks / mapstar (itertools.islice, map): that the chunks partition the input in order is the standard library\'s '
    'behaviour, cross-checked at run time by the replayer (bounded), not proved',
    'which worker runs which chunk, and when (any arrival order is covered; that all chunks do arrive is liveness)',
]

CS = 'self._chunksize'
NCHUNKS = '(self._length // %s + ite(self._length %% %s != 0, 1, 0))' % (CS, CS)


def sp_seq_len(ex, v):
    return SV(IntS, seq_len(v.e))


def sp_seq_at(ex, v, k):
    return SV(ValS, seq_at(v.e, as_arith(k)))


def ext_apply_init(ex, args, kw):
    """ApplyResult.__init__ (contract proved in C01): registers the handle in the cache under a fresh job id"""
    return call_contract(ex, 'pool.ApplyResult.__init__', args, kw)


_res = [z3.Function('res_ok', z3.IntSort(), z3.BoolSort()), z3.Function('res_val', z3.IntSort(), Val)]


def sp_res(ex, k):
    """res(k): the result record (success, value) of input k -- whatever the worker that ran it sent"""
    k = as_arith(k)
    return STup([SV(BoolS, _res[0](k)), SV(ValS, _res[1](k))])



def sp_resumable(ex, v):
    """can next() be called again after it raised?  The imap handles can (their next() is under contract above: a
    failed item raises at its position and the iterator goes on); a generator object cannot -- language rule: a
    generator whose frame raised is finished, every later next() raises StopIteration"""
    from pyvc.evalexpr import VGenObj
    if isinstance(v, VGenObj):
        return mk_bool(False)
    if isinstance(v, SRef) and v.shape.cls == 'Job':
        return mk_bool(True)
    raise ContractError('resumable(%r)' % (v,))


def sp_is_handle(ex, v):
    return mk_bool(isinstance(v, SRef) and v.shape.cls == 'Job')


def ext_get_tasks(ex, args, kw):
    """Pool._get_tasks(func, it, size): a generator of (func, chunk) pairs (itertools.islice; out of reach)"""
    return SV(ValS, z3.Const(fresh_name('task_batches'), Val))


def entry_contract(w, variant):
    """Pool.imap / Pool.imap_unordered: what the caller gets back"""
    import pool_shared as ps2
    w.spec_funcs['resumable'] = sp_resumable
    w.spec_funcs['is_handle'] = sp_is_handle
    g = w.classes['g']
    g.fields.update({'queued': IntS})
    P = w.classes['Pool']
    P.fields.update({'_taskqueue': ValS})

    def put(ex, args, kw):
        gset(ex, 'queued', SV(IntS, gget(ex, 'queued').e + 1))
        return SNone()

    def ext_handle(ex, args, kw):
        """IMapIterator(cache, lost_worker_timeout=...): a new handle, registered in the cache under a new id"""
        cache = args[0]
        j = SRef(ref('Job'), ex.path.new_id('Job'))
        jid = IntS.fresh('new_job_id')
        has = ex.path.read_field(cache, 'has')
        ex.path.assume(z3.Not(has.shape.select(has, jid).e))
        ex.path.write_field(j, '_job', jid)
        ex.path.write_field(j, '_cache', cache)
        ex.path.write_field(j, '_index', mk_int(0))
        ex.path.write_field(j, '_ready', mk_bool(False))
        val = ex.path.read_field(cache, 'val')
        ex.path.write_field(cache, 'has', has.shape.store(has, jid, mk_bool(True)))
        ex.path.write_field(cache, 'val', val.shape.store(val, jid, j))
        return j
    name = 'imap' if variant == 'imap' else 'imap_unordered'
    cls = 'IMapIterator' if variant == 'imap' else 'IMapUnorderedIterator'
    return Contract(
        'pool.Pool.' + name, prop=PROP, variants=[variant],
        params={'self': ref('Pool'), 'func': ValS, 'iterable': ValS, 'chunksize': IntS, 'lost_worker_timeout': opt(RealS)},
        externals={'<opaque>.put': put, 'pool.' + cls: ext_handle, 'pool.Pool._get_tasks': ext_get_tasks},
        requires={'pool': 'allocated(self._cache) and g.queued == 0 and chunksize >= 1 and self._state == 0'},
        modifies=['g.queued', 'self._cache.*', 'Job.*'],
        ensures={
            'one_task_sequence_is_queued': 'g.queued == 1',
            # C02: "imap iterators raise at the failing item's position ... and then go on with the remaining items"
            'iterator_goes_on_after_a_failing_item': 'implies(chunksize == 1, resumable(result))',
            'iterator_goes_on_after_a_failing_chunk': 'implies(chunksize != 1, resumable(result))',
            'unchunked_result_is_the_registered_handle': 'implies(chunksize == 1, is_handle(result))',
        },
        raises={'AssertionError': {'never': 'False'}},
    )


def build_imap(w, variant):
    """IMapIterator (ordered) / IMapUnorderedIterator: the reorder buffer"""
    ps.declare(w, kind='imap' if variant == 'imap' else 'imapu')
    w.spec_funcs['res'] = sp_res
    w.externals.update({'<opaque>.notify': lambda ex, a, k: SNone(), '<opaque>.wait': lambda ex, a, k: SNone()})
    U = 'self._unsorted'
    wf = ('allocated(self._items) and len(self._items) >= 0 and allocated(%s) and self._index >= 0 and '
          'allocated(self._cache) and (self._length is None or val(self._length) >= self._index)' % U)
    buffered = Forall({'k': 'ints()'}, 'implies(has(%s, k), k > self._index and get(%s, k) == res(k))' % (U, U))
    out = []
    if variant == 'imap':
        delivered_in_order = Forall({'k': 'ints()'},
            'implies(0 <= k and k < self._index - old(self._index), '
            'at(self._items, old(len(self._items)) + k) == res(old(self._index) + k))')
        out.append(Contract(
            'pool.IMapIterator._set', prop=PROP, variants=['imap'],
            params={'self': ref('Job'), 'i': IntS, 'obj': tup(BoolS, ValS)},
            requires={'wf': wf, 'buffered_results_wait_for_their_turn': buffered,
                      'this_result': 'obj == res(i) and i >= self._index and not has(%s, i) and '
                                     '(self._length is None or i < val(self._length))' % U,
                      'registered': 'implies(self._length is not None and val(self._length) > self._index, '
                                    'has(self._cache, self._job))'},
            modifies=['self._items.*', 'self._index', U + '.*', 'self._ready', 'self._cache.*'],
            loops={0: {'inv': {
                'released_so_far_in_input_order': Forall({'k': 'ints()'},
                    'implies(0 <= k and k < self._index - old(self._index), '
                    'at(self._items, old(len(self._items)) + k) == res(old(self._index) + k))'),
                'queue_grows_by_what_was_released': 'len(self._items) == old(len(self._items)) + self._index - old(self._index) '
                                                    'and self._index > old(self._index) and i == old(self._index)',
                'earlier_items_kept': Forall({'k': 'ints()'}, 'implies(0 <= k and k < old(len(self._items)), '
                                                               'at(self._items, k) == old(at(self._items, k)))'),
                'rest_still_buffered': Forall({'k': 'ints()'},
                    'has(%s, k) == (old(has(%s, k)) and k >= self._index) and '
                    'implies(has(%s, k), get(%s, k) == res(k))' % (U, U, U, U)),
            }, 'modifies': ['self._items.*', 'self._index', U + '.*']}},
            ensures={
                'released_in_input_order': delivered_in_order,
                'only_complete_prefixes_are_released': 'len(self._items) == old(len(self._items)) + self._index - old(self._index) '
                                                       'and self._index >= old(self._index) and not has(%s, self._index)' % U,
                'in_turn_result_is_released_at_once': 'implies(i == old(self._index), self._index > old(self._index))',
                'early_result_is_buffered': 'implies(i != old(self._index), self._index == old(self._index) and '
                                            'has(%s, i) and get(%s, i) == obj)' % (U, U),
                'buffered_results_wait_for_their_turn': buffered,
                'earlier_items_kept': Forall({'k': 'ints()'}, 'implies(0 <= k and k < old(len(self._items)), '
                                                               'at(self._items, k) == old(at(self._items, k)))'),
                'finished_exactly_when_all_were_released': 'implies(self._length is not None and self._index == val(self._length), '
                                                           'self._ready and not has(self._cache, self._job))',
            },
        ))
    else:
        out.append(Contract(
            'pool.IMapUnorderedIterator._set', prop=PROP, variants=['imapu'],
            params={'self': ref('Job'), 'i': IntS, 'obj': tup(BoolS, ValS)},
            requires={'wf': wf, 'registered': 'implies(self._length is not None and val(self._length) > self._index, '
                                              'has(self._cache, self._job))'},
            modifies=['self._items.*', 'self._index', 'self._ready', 'self._cache.*'],
            ensures={
                'every_result_is_queued_once_as_it_arrives': 'len(self._items) == old(len(self._items)) + 1 and '
                                                             'at(self._items, old(len(self._items))) == obj and '
                                                             'self._index == old(self._index) + 1',
                'earlier_items_kept': Forall({'k': 'ints()'}, 'implies(0 <= k and k < old(len(self._items)), '
                                                               'at(self._items, k) == old(at(self._items, k)))'),
                'finished_exactly_when_all_arrived': 'implies(self._length is not None and self._index == val(self._length), '
                                                     'self._ready and not has(self._cache, self._job))',
            },
        ))
    out.append(entry_contract(w, variant))
    cls = 'IMapIterator'
    if variant == 'imap':
        out.append(Contract(
            'pool.IMapIterator._set_length', prop=PROP, variants=['imap'],
            params={'self': ref('Job'), 'length': IntS},
            requires={'wf': wf, 'length': 'length >= self._index and self._length is None and has(self._cache, self._job)'},
            modifies=['self._length', 'self._ready', 'self._cache.*'],
            ensures={'length_recorded': 'self._length == length',
                     'finished_at_once_if_everything_was_already_released': '(self._ready or old(self._ready)) == '
                                                                            '(old(self._ready) or self._index == length) and '
                                                                            'has(self._cache, self._job) == (self._index != length)'},
        ))
        out.append(Contract(
            'pool.IMapIterator.next', prop=PROP, variants=['imap'],
            params={'self': ref('Job'), 'timeout': opt(RealS)},
            requires={'wf': wf, 'something_to_hand_out_or_finished': 'len(self._items) > 0 or '
                      '(self._length is not None and self._index == val(self._length))'},
            modifies=['self._items.*', 'self._ready'],
            returns=ValS,
            ensures={'hands_out_the_oldest_queued_value': 'old(len(self._items)) > 0 and old(at(self._items, 0))[0] and '
                                                          'result == old(at(self._items, 0))[1] and '
                                                          'len(self._items) == old(len(self._items)) - 1',
                     'the_rest_keeps_its_order': Forall({'k': 'ints()'}, 'implies(0 <= k and k < len(self._items), '
                                                                          'at(self._items, k) == old(at(self._items, k + 1)))')},
            raises={
                'StopIteration': {'only_when_everything_was_handed_out': 'old(len(self._items)) == 0 and self._length is not None '
                                                                        'and self._index == val(self._length) and self._ready'},
                'Exception': {'a_failed_item_raises_at_its_position_and_the_iterator_goes_on':
                              'old(len(self._items)) > 0 and not old(at(self._items, 0))[0] and '
                              'len(self._items) == old(len(self._items)) - 1'},
            },
        ))
    return out


def build_feeder(w):
    """TaskHandler.body: the length announced to an imap iterator (set_length) is the number of tasks of *its own*
    task sequence -- an empty input must announce 0, whatever was sent before (C01's contract of the feeder, with the
    index bookkeeping added)"""
    import C01 as c01
    body = [c for c in c01.build(w) if c.qualname == 'pool.TaskHandler.body'][0]
    body.prop = PROP
    base_ext = body.externals['<callable>']

    def ext_callable_checked(ex, args, kw):
        me = ex.root.scopes[0]['self']
        put = ex.path.read_field(me, 'put')
        is_put = len(args) == 2 and isinstance(args[1], STup)
        if not is_put:
            # set_length(n): n must be the number of tasks of the sequence just sent
            seq = ex.lookup('taskseq')
            n = ex.path.read_field(seq, 'len').e
            if ex.handling:
                # the sequence failed half-way: what was read so far
                prove(ex, 'call:set_length.length_announced_after_a_failure_is_what_was_read',
                      z3.And(as_arith(args[1]) >= 0, as_arith(args[1]) <= n))
            else:
                prove(ex, 'call:set_length.length_announced_is_the_number_of_tasks_of_this_sequence',
                      as_arith(args[1]) == n)
        return base_ext(ex, args, kw)
    body.externals = dict(body.externals, **{'<callable>': ext_callable_checked})
    body.loops[1]['inv'] = dict(body.loops[1]['inv'],
                                index_of_the_last_task_read='i == ite(_i > 0, _i - 1, entry(i)) and taskseq == entry(taskseq)')
    # (C01 also lets a lazy task sequence raise while it is iterated; that path is C01's to check, not this clause's)
    body.loops[1].pop('iter_raises', None)
    body.variants = ['feeder']
    return [body]


def build_next_blocking(w):
    """IMapIterator.next (shared by the unordered iterator) when it has to block: nothing is queued and the iteration is
    not known to be over, so the caller waits on the condition.  While it waits the lock is released and the result
    handler / the feeder run `_set` and `_set_length` any number of times: on return from wait() the queue, the index, the
    length and the flag hold *any* values the class invariant allows (index and length only grow / get known).  What the
    caller then gets must be decided by that state, not by the one before the wait: the oldest queued item if there is
    one; StopIteration -- never TimeoutError -- if the wake-up was the announcement that everything has been handed out
    (an empty input, or a lazy input whose end is noticed after its last result was consumed); TimeoutError only if
    there is still nothing and the iteration is not over.  Ghost: g.woke_len / g.woke_finished / g.woke_first = the
    state found after the wait."""
    ps.declare(w, kind='imap')
    w.spec_funcs['res'] = sp_res
    w.classes['g'].fields.update({'woke_len': IntS, 'woke_finished': BoolS, 'woke_first': tup(BoolS, ValS), 'waits': IntS})
    wf = ('allocated(self._items) and len(self._items) >= 0 and allocated(self._unsorted) and self._index >= 0 and '
          'allocated(self._cache) and (self._length is None or val(self._length) >= self._index)')
    from pyvc.contracts import havoc_modifies

    def ext_wait(ex, args, kw):
        me = ex.root.scopes[0]['self']
        i0 = ex.path.read_field(me, '_index')
        l0 = ex.path.read_field(me, '_length')
        havoc_modifies(ex, ['self._items.*', 'self._index', 'self._length', 'self._ready', 'self._unsorted.*',
                            'self._cache.*'], ex)
        env = {'self': me, 'i0': i0, 'l0': l0}
        ex.path.assume(ex.spec_bool(wf + ' and self._index >= i0 and (l0 is None or self._length == l0)', env))
        gset(ex, 'waits', SV(IntS, gget(ex, 'waits').e + 1))
        gset(ex, 'woke_len', ex.spec_eval('len(self._items)', env))
        gset(ex, 'woke_finished', ex.spec_eval('self._length is not None and self._index == val(self._length)', env))
        if ex.path.decide(ex.spec_bool('len(self._items) > 0', env)):
            gset(ex, 'woke_first', ex.spec_eval('at(self._items, 0)', env))
        return SNone()
    w.externals.update({'<opaque>.notify': lambda ex, a, k: SNone()})
    # (billiard.exceptions re-exports multiprocessing.TimeoutError: a plain Exception subclass)
    w.global_overrides['pool.TimeoutError'] = lambda ex: VClass('TimeoutError')
    return [Contract(
        'pool.IMapIterator.next', prop=PROP, variants=['wait'],
        params={'self': ref('Job'), 'timeout': opt(RealS)},
        externals={'<opaque>.wait': ext_wait},
        requires={'wf': wf, 'has_to_block': 'len(self._items) == 0 and '
                                            'not (self._length is not None and self._index == val(self._length))',
                  'ghost': 'g.waits == 0'},
        modifies=['self._items.*', 'self._index', 'self._length', 'self._ready', 'self._unsorted.*', 'self._cache.*',
                  'g.waits', 'g.woke_len', 'g.woke_finished', 'g.woke_first'],
        returns=ValS,
        ensures={'waited_once': 'g.waits == 1',
                 'hands_out_the_oldest_item_queued_meanwhile': 'g.woke_len > 0 and g.woke_first[0] and '
                                                               'result == g.woke_first[1] and '
                                                               'len(self._items) == g.woke_len - 1'},
        raises={
            'StopIteration': {'woken_by_the_end_of_the_iteration': 'g.waits == 1 and g.woke_len == 0 and g.woke_finished '
                                                                    'and self._ready'},
            'TimeoutError': {'only_when_still_nothing_queued_and_not_over': 'g.waits == 1 and g.woke_len == 0 and '
                                                                            'not g.woke_finished'},
            'Exception': {'a_failed_item_queued_meanwhile_raises_at_its_position': 'g.woke_len > 0 and '
                          'not g.woke_first[0] and len(self._items) == g.woke_len - 1'},
        },
    )]


def build(w, variant='map'):
    if variant == 'feeder':
        return build_feeder(w)
    if variant == 'wait':
        return build_next_blocking(w)
    if variant != 'map':
        return build_imap(w, variant)
    ps.declare(w, kind='map')
    H.declare_handles(w, kind='map')
    w.abstract_seqs = True
    w.spec_funcs.update({'seq_len': sp_seq_len, 'seq_at': sp_seq_at})
    g = w.classes['g']
    J = w.classes['Job']
    cache_ok = 'allocated(self._cache) and allocated(self._event)'
    wf = ('self._chunksize > 0 and self._length >= 0 and seq_len(self._value) == self._length and '
          'self._number_left >= 1 and self._number_left <= %s and ' % NCHUNKS + cache_ok +
          ' and allocated(self._accepted) and len(self._accepted) >= 0 and allocated(self._worker_pid) and '
          'len(self._worker_pid) == self._length')

    # ---- MapResult._set: chunk i goes to [i*cs, (i+1)*cs), nothing else moves ---------------------
    chunk_len = 'ite((i + 1) * %s <= self._length, %s, self._length - i * %s)' % (CS, CS, CS)
    map_set = Contract(
        'pool.MapResult._set', prop=PROP,
        params={'self': ref('Job'), 'i': IntS, 'success_result': tup(BoolS, ValS)},
        inline=['pool.MapResult.accepted'],
        externals={'builtins.all': lambda ex, a, k: BoolS.fresh('all_accepted')},
        requires={'wf': wf, 'chunk_index': '0 <= i and i < %s' % NCHUNKS,
                  'result_of_chunk_i': 'implies(success_result[0], seq_len(success_result[1]) == %s)' % chunk_len,
                  'hooks': 'is_hook(self._callback) == False or True'},
        modifies=['self._value', 'self._number_left', 'self._success', 'self._event.flag', 'self._cache.*', 'g.ncalls',
                  'g.cb_raised', 'self._worker_pid.*'],
        ensures={
            'chunk_stored_at_its_own_positions': Forall({'k': 'ints()'},
                'implies(success_result[0] and i * %s <= k and k < i * %s + %s, '
                'seq_at(self._value, k) == seq_at(success_result[1], k - i * %s))' % (CS, CS, chunk_len, CS)),
            'other_positions_untouched': Forall({'k': 'ints()'},
                'implies(success_result[0] and 0 <= k and k < self._length and (k < i * %s or k >= (i + 1) * %s), '
                'seq_at(self._value, k) == seq_at(old(self._value), k))' % (CS, CS)),
            'length_kept': 'implies(success_result[0], seq_len(self._value) == self._length)',
            'ready_exactly_when_every_chunk_arrived': 'implies(success_result[0], self._number_left == old(self._number_left) - 1 '
                                                      'and self._event.flag == (old(self._event.flag) or self._number_left == 0))',
            'a_failing_chunk_fails_the_map_with_its_error': 'implies(not success_result[0], not self._success and '
                                                            'self._value == success_result[1] and self._event.flag)',
        },
        raises={'AnyException': {'callback_raised': 'g.cb_raised'}, 'AnyBaseException': {'callback_raised': 'g.cb_raised'},
                'MemoryError': {'callback_raised': 'g.cb_raised'}},
    )

    # ---- MapResult.__init__: the buffer and the number of chunks ------------------------------------
    base_init = H.init_contract(PROP)
    # ApplyResult.__init__ as seen from MapResult (proved for ApplyResult itself in C01): the clauses about the scalar
    # owner fields do not apply to a map handle, which overwrites them with per-item lists right after
    base_init.ensures = {k: v for k, v in base_init.ensures.items() if k in ('fresh_id', 'filed_under_own_id', 'other_entries_kept')}
    base_init.ensures['unresolved'] = 'not self._event.flag and fresh(self._event) and allocated(self._event)'
    base_init.ensures['callbacks_stored'] = 'self._callback == callback and self._error_callback == error_callback'
    w.contracts['pool.ApplyResult.__init__'] = base_init
    map_init = Contract(
        'pool.MapResult.__init__', prop=PROP,
        params={'self': ref('Job'), 'cache': dict_of(IntS, ref('Job')), 'chunksize': IntS, 'length': IntS,
                'callback': opt(ValS), 'error_callback': opt(ValS)},
        requires={'length': 'length >= 0', 'cache': 'allocated(cache) and g.next_job >= 0 and not has(cache, g.next_job)'},
        modifies=['self.*', 'cache.*', 'g.next_job', 'Event.flag'],
        ensures={
            'buffer_of_the_input_length': 'seq_len(self._value) == length and self._length == length and '
                                          'self._chunksize == chunksize and self._success',
            'one_result_expected_per_chunk': 'implies(chunksize > 0, self._number_left == length // chunksize + '
                                             'ite(length % chunksize != 0, 1, 0))',
            'empty_input_gives_an_empty_result_at_once': 'implies(length == 0 and chunksize <= 0, self._event.flag and '
                                                         'seq_len(self._value) == 0 and not has(cache, self._job))',
            'otherwise_pending_and_registered': 'implies(chunksize > 0, not self._event.flag and has(cache, self._job) and '
                                                'get(cache, self._job) == self)',
        },
    )

    # ---- _map_async: chunk size defaulting --------------------------------------------------------------
    def ext_get_tasks(ex, args, kw):
        gset(ex, 'tasks_chunksize', args[-1])
        return SV(ValS, z3.Const(fresh_name('task_batches'), Val))

    def ext_mapresult(ex, args, kw):
        gset(ex, 'result_chunksize', args[1])
        gset(ex, 'result_length', args[2])
        return SRef(ref('Job'), ex.path.new_id())
    g.fields.update({'tasks_chunksize': IntS, 'result_chunksize': IntS, 'result_length': IntS, 'queued': IntS})
    w.classes['Pool'].fields.update({'_taskqueue': ValS})
    map_async = Contract(
        'pool.Pool._map_async', prop=PROP,
        params={'self': ref('Pool'), 'func': ValS, 'iterable': list_of(ValS), 'mapper': ValS, 'chunksize': opt(IntS),
                'callback': opt(ValS), 'error_callback': opt(ValS)},
        externals={'pool.Pool._get_tasks': ext_get_tasks, 'pool.MapResult': ext_mapresult,
                   '<opaque>.put': lambda ex, a, k: (gset(ex, 'queued', SV(IntS, gget(ex, 'queued').e + 1)), SNone())[1],
                   'builtins.hasattr': lambda ex, a, k: mk_bool(True)},
        requires={'pool': 'allocated(self._pool) and len(self._pool) >= 1 and allocated(iterable) and len(iterable) >= 0',
                  'explicit_chunksize_is_positive': 'chunksize is None or val(chunksize) >= 1'},
        modifies=['g.tasks_chunksize', 'g.result_chunksize', 'g.result_length', 'g.queued'],
        returns=opt(ref('Job')),
        ensures={
            'tasks_and_buffer_use_the_same_chunk_size': 'implies(self._state == 0, g.tasks_chunksize == g.result_chunksize and '
                                                        'g.result_length == len(iterable) and g.queued == old(g.queued) + 1)',
            'default_chunk_size_covers_the_input': 'implies(self._state == 0 and chunksize is None and len(iterable) > 0, '
                                                   'g.result_chunksize >= 1 and '
                                                   'g.result_chunksize * len(self._pool) * 4 >= len(iterable) and '
                                                   '(g.result_chunksize - 1) * len(self._pool) * 4 < len(iterable))',
            'explicit_chunk_size_is_used': 'implies(self._state == 0 and chunksize is not None and len(iterable) > 0, '
                                           'g.result_chunksize == val(chunksize))',
            'empty_input': 'implies(self._state == 0 and len(iterable) == 0, g.result_chunksize == 0)',
            'nothing_submitted_unless_running': 'implies(self._state != 0, result is None and g.queued == old(g.queued))',
        },
    )
    return [map_set, map_init, map_async]


MANIFEST_ENTRY = {
    'text': 'Proof (unbounded: all input lengths, chunk sizes, pool sizes, and -- by quantifying over the index of the arriving '
            'chunk -- all completion orders) of the map side: MapResult.__init__ allocates a buffer of the input length and '
            'expects ceil(length/chunksize) results, an empty input is resolved at once with an empty list; MapResult._set '
            'stores the result of chunk i at positions [i*chunksize, (i+1)*chunksize) and nowhere else (also for the last, '
            'shorter chunk), keeps the length, counts the chunk, becomes ready exactly when the last chunk arrived, and a '
            'failing chunk fails the map with that chunk\'s error; _map_async uses one chunk size for the task batches and the '
            'buffer, the defaulted one is ceil(len / (4 * pool size)), an explicit one is used as given, and nothing is '
            'submitted unless the pool is running.  The imap side (reorder buffer): IMapIterator._set, for a result of any index '
            'arriving in any order, releases to the consumer queue exactly the complete prefix of results in input order (loop '
            'invariant over the drain loop), buffers an early result under its own index, never drops or reorders queued items, '
            'and finishes exactly when all were released; _set_length finishes at once if everything was already released; '
            'next() hands out the oldest queued item, raises at a failed item\'s position and leaves the rest queued in order, '
            'and stops only when everything was handed out; when it has to block (variant wait: wait() may return with any state '
            'the other threads\' _set / _set_length can leave within the class invariant) the outcome is decided by the state found '
            'on wake-up -- the oldest item queued meanwhile, StopIteration when the wake-up was the end of the iteration, '
            'TimeoutError only when there is still nothing and it is not over; IMapUnorderedIterator._set queues every result once as it arrives.  '
            'Pool.imap / imap_unordered: one task sequence is queued, a new handle is registered, and what the caller gets back '
            'goes on after a failing item for chunksize 1 (it is the handle whose next() is proved above); for chunksize > 1 it is '
            'a generator expression, which the first failing chunk finishes -- refuted by the language rule, KNOWN-FINDING D11a / '
            'D11b with a replay on the real code.',
    'note': 'Not proved: _get_tasks / mapstar (itertools.islice, map) are the standard library\'s -- cross-checked at run time by '
            'the replayer only; the imap iterators (ordering buffer) are covered by the second half of this check where stated in '
            'the evidence.  D11 (imap with chunksize > 1 stops at the first failing chunk) is recorded, not repaired: the '
            'behaviour is inherited from CPython\'s multiprocessing and replacing the generator by a resumable iterator class changes '
            'the type handed to callers.  Results arrive exactly once per chunk by C03; the induction over arrivals is a meta-argument.',
}
