"""C15, second part -- the lock-wrapped accessors of shared values: the shared memory behind a synchronized wrapper is
only touched while the wrapper's lock is held, the lock is given back on every way out, and the wrapper keeps / hands on
the lock it was given.  (Atomicity of read-modify-write sequences of several processes is what this discipline is for;
the interleaving argument itself is out of reach.)"""
from pyvc.api import *

BoundOf = z3.Function('bound_method', Val, z3.IntSort(), Val)      # (lock identity, 0 acquire | 1 release)


def build_locks(w, PROP):
    w.cls('g', fields={'acquires': IntS, 'releases': IntS, 'new_locks': IntS})
    # the lock (ctx.RLock()): depth = how often the calling thread holds it; acquire / release are its bound methods
    w.cls('SLock', fields={'depth': IntS, 'acquire': ValS, 'release': ValS, 'ident': ValS}, methods={
        '__enter__': lambda ex, a, k: bump(ex, a[0], 1),
        '__exit__': lambda ex, a, k: bump(ex, a[0], -1),
    })
    # the ctypes object in shared memory (RawValue / RawArray): value, raw and the items
    w.cls('Shared', fields={'value': ValS, 'raw': ValS, 'items': MapS(ValS, ValS), 'n': IntS})
    w.cls('Sync', module='sharedctypes', pyname='SynchronizedBase', fields={
        '_obj': ref('Shared'), '_lock': ref('SLock'), 'acquire': ValS, 'release': ValS})

    def bump(ex, lock, d):
        ex.path.write_field(lock, 'depth', SV(IntS, ex.path.read_field(lock, 'depth').e + d))
        gset(ex, 'acquires' if d > 0 else 'releases', SV(IntS, gget(ex, 'acquires' if d > 0 else 'releases').e + 1))
        return mk_bool(True) if d > 0 else SNone()

    def held_by(ex, obj):
        """the guard on Shared.<field>: some wrapper's lock... here: the lock of the wrapper under verification"""
        me = ex.root.scopes[0].get('self')
        lock = ex.path.read_field(me, '_lock')
        return z3.And(ex.path.read_field(me, '_obj').id == obj.id, ex.path.read_field(lock, 'depth').e > 0)
    w.field_guards = {'Shared.value': held_by, 'Shared.raw': held_by, 'Shared.items': held_by}

    def call(ex, args, kw):
        """self.acquire() / self.release(): the bound methods the constructor stored"""
        me = ex.root.scopes[0]['self']
        lock = ex.path.read_field(me, '_lock')
        fn = args[0]
        if ex.path.decide(fn.e == ex.path.read_field(lock, 'acquire').e):
            return bump(ex, lock, 1)
        if ex.path.decide(fn.e == ex.path.read_field(lock, 'release').e):
            prove(ex, 'lock.released_only_while_held', ex.path.read_field(lock, 'depth').e > 0)
            return bump(ex, lock, -1)
        raise Unsupported('call of an unknown callable in a synchronized accessor')
    wf = ('allocated(self._obj) and allocated(self._lock) and self.acquire == self._lock.acquire and '
          'self.release == self._lock.release and self._lock.acquire != self._lock.release and self._lock.depth >= 0')
    same = 'self._lock.depth == old(self._lock.depth)'
    mod = ['SLock.depth', 'g.acquires', 'g.releases']
    out = []
    for name in ('value', 'raw'):
        out.append(Contract(
            'sharedctypes.get' + name, prop=PROP, variants=['locks'], params={'self': ref('Sync')},
            externals={'<callable>': call}, requires={'wf': wf}, modifies=mod, returns=ValS,
            ensures={'reads_the_shared_object_under_the_lock': 'result == self._obj.%s' % name, 'lock_given_back': same,
                     'one_acquire_one_release': 'g.acquires == old(g.acquires) + 1 and g.releases == old(g.releases) + 1'},
        ))
        out.append(Contract(
            'sharedctypes.set' + name, prop=PROP, variants=['locks'], params={'self': ref('Sync'), 'value': ValS},
            externals={'<callable>': call}, requires={'wf': wf}, modifies=mod + ['self._obj.' + name],
            ensures={'writes_the_shared_object_under_the_lock': 'self._obj.%s == value' % name, 'lock_given_back': same,
                     'one_acquire_one_release': 'g.acquires == old(g.acquires) + 1 and g.releases == old(g.releases) + 1'},
        ))
    # with self: ... in the array accessors goes through these two
    enter = Contract('sharedctypes.SynchronizedBase.__enter__', prop=PROP, variants=['locks'], params={'self': ref('Sync')},
                     requires={'wf': wf}, modifies=mod, returns=BoolS,
                     ensures={'takes_the_wrappers_own_lock': 'self._lock.depth == old(self._lock.depth) + 1'})
    leave = Contract('sharedctypes.SynchronizedBase.__exit__', prop=PROP, variants=['locks'],
                     params={'self': ref('Sync'), 'args': ValS},
                     requires={'wf': wf, 'held': 'self._lock.depth > 0'}, modifies=mod,
                     ensures={'gives_the_wrappers_own_lock_back': 'self._lock.depth == old(self._lock.depth) - 1'})
    w.contracts[enter.qualname] = enter
    w.contracts[leave.qualname] = leave
    w.classes['Sync'].methods.update({
        'with_enter': lambda ex, a, k: call_contract(ex, enter.qualname, [a[0]], {}),
        'with_exit': lambda ex, a, k: call_contract(ex, leave.qualname, [a[0], SV(ValS, z3.Const('exc_info', Val))], {})})

    def item_get(ex, args, kw):
        obj, i = args[0], args[1]
        ex.check_guard(obj, 'items')
        m = ex.path.read_field(obj, 'items')
        return m.shape.select(m, i)

    def item_set(ex, args, kw):
        obj, i, v = args[0], args[1], args[2]
        ex.check_guard(obj, 'items')
        m = ex.path.read_field(obj, 'items')
        ex.path.write_field(obj, 'items', m.shape.store(m, i, v))
        return SNone()
    w.classes['Shared'].methods.update({'__getitem__': item_get, '__setitem__': item_set})
    getitem = Contract(
        'sharedctypes.SynchronizedArray.__getitem__', prop=PROP, variants=['locks'], params={'self': ref('Sync'), 'i': ValS},
        requires={'wf': wf}, modifies=mod, returns=ValS,
        ensures={'reads_the_item_under_the_lock': 'result == self._obj.items[i]', 'lock_given_back': same})
    setitem = Contract(
        'sharedctypes.SynchronizedArray.__setitem__', prop=PROP, variants=['locks'],
        params={'self': ref('Sync'), 'i': ValS, 'value': ValS},
        requires={'wf': wf}, modifies=mod + ['self._obj.items'],
        ensures={'writes_the_item_under_the_lock': 'self._obj.items[i] == value', 'lock_given_back': same})

    # the constructor: keeps the lock it is given (a new one only if none is given) and binds acquire / release to it
    def ext_ctx(ex, args, kw):
        return SV(ValS, z3.Const('the_context', Val))

    def ext_rlock(ex, args, kw):
        lock = SRef(ref('SLock'), ex.path.new_id('SLock'))
        ex.path.write_field(lock, 'depth', mk_int(0))
        ident = SV(ValS, z3.Const(fresh_name('lock_ident'), Val))
        ex.path.write_field(lock, 'ident', ident)
        ex.path.write_field(lock, 'acquire', SV(ValS, BoundOf(ident.e, 0)))
        ex.path.write_field(lock, 'release', SV(ValS, BoundOf(ident.e, 1)))
        gset(ex, 'new_locks', SV(IntS, gget(ex, 'new_locks').e + 1))
        return lock
    init = Contract(
        'sharedctypes.SynchronizedBase.__init__', prop=PROP, variants=['locks'],
        params={'self': ref('Sync'), 'obj': ref('Shared'), 'lock': opt(ref('SLock')), 'ctx': opt(ValS)},
        externals={'sharedctypes.get_context': ext_ctx, 'context.get_context': ext_ctx, 'billiard..get_context': ext_ctx,
                   '<opaque>.RLock': ext_rlock},
        requires={'objects': 'allocated(obj) and (lock is None or allocated(val(lock)))', 'fresh': 'g.new_locks == 0'},
        modifies=['self._obj', 'self._lock', 'self.acquire', 'self.release', 'g.new_locks', 'SLock.*'],
        ensures={'wraps_the_object_it_was_given': 'self._obj == obj',
                 'keeps_the_lock_it_was_given': 'implies(lock is not None, self._lock == val(lock) and g.new_locks == 0)',
                 'a_new_lock_only_when_none_was_given': 'implies(lock is None, fresh(self._lock) and g.new_locks == 1 and '
                                                        'self._lock.depth == 0)',
                 'acquire_and_release_are_that_locks': 'self.acquire == self._lock.acquire and self.release == self._lock.release'})
    # synchronized(obj, lock, ctx): picks the wrapper class by the kind of ctypes object and hands the lock on.  (It is also
    # what un-pickling a wrapper calls -- SynchronizedBase.__reduce__ -- so a lock dropped here is a lock dropped in the
    # receiving process.)  The branch for structures builds a class at run time and is excluded by the precondition.
    w.contracts[init.qualname] = init
    w.classes['Shared'].fields.update({'kind': IntS, '_type_': ValS})
    for cname, pyname in (('SyncV', 'Synchronized'), ('SyncA', 'SynchronizedArray'), ('SyncS', 'SynchronizedString')):
        w.cls(cname, module='sharedctypes', pyname=pyname, base='Sync', fields={})

    def ext_isinstance(ex, args, kw):
        obj, cls = args
        name = getattr(cls, 'name', '') or ''
        kind = ex.path.read_field(obj, 'kind').e
        if name.endswith('SynchronizedBase'):
            return mk_bool(False)
        if name.endswith('_SimpleCData'):
            return SV(BoolS, kind == 0)
        if name.endswith('Array'):
            return SV(BoolS, z3.Or(kind == 1, kind == 2))
        raise Unsupported('isinstance(%r, %r)' % (obj, cls))
    C_CHAR = "ext('ctypes.c_char')"
    w.spec_funcs['ext'] = lambda ex, n: SV(ValS, z3.Const('ext:' + n.s, Val))
    sync = Contract(
        'sharedctypes.synchronized', prop=PROP, variants=['locks'],
        params={'obj': ref('Shared'), 'lock': opt(ref('SLock')), 'ctx': opt(ValS)},
        externals={'builtins.isinstance': ext_isinstance, 'sharedctypes.get_context': ext_ctx, 'context.get_context': ext_ctx,
                   'billiard..get_context': ext_ctx, '<opaque>.RLock': ext_rlock},
        requires={'objects': 'allocated(obj) and (lock is None or allocated(val(lock)))', 'fresh': 'g.new_locks == 0',
                  'a_simple_value_or_an_array': '0 <= obj.kind and obj.kind <= 2 and '
                                                '(obj.kind == 2) == (obj._type_ == %s)' % C_CHAR},
        modifies=['Sync.*', 'g.new_locks', 'SLock.*'],
        returns=ref('Sync'),
        ensures={'wraps_the_object_it_was_given': 'fresh(result) and result._obj == obj',
                 'hands_the_lock_it_was_given_to_the_wrapper': 'implies(lock is not None, result._lock == val(lock) and '
                                                               'g.new_locks == 0)',
                 'a_new_lock_only_when_none_was_given': 'implies(lock is None, fresh(result._lock) and g.new_locks == 1)',
                 'acquire_and_release_are_that_locks': 'result.acquire == result._lock.acquire and '
                                                       'result.release == result._lock.release'})
    return out + [enter, leave, getitem, setitem, init, sync]
