"""C12 -- exceptions and tracebacks cross the process boundary intact."""
from pyvc.api import *
from pyvc.core import VExc, box
import worker as W

PROP = 'C12'
REPLAYERS = {q: 'replayers/einfo_roundtrip.py' for q in (
    'einfo.Traceback.__init__', 'einfo._Truncated.__init__', 'einfo._Code.__init__', 'einfo._Frame.__init__',
    'einfo._Code.__reduce__', 'einfo._Frame.__reduce__', 'einfo._Truncated.__reduce__', 'einfo.Traceback.__reduce__',
    'einfo.ExceptionInfo.__init__', 'einfo.ExceptionWithTraceback.__reduce__', 'einfo.rebuild_exc')}
REPLAYERS['pool.Worker.workloop'] = 'replayers/workloop.py'
REPLAYERS['pool.MaybeEncodingError.__init__'] = 'replayers/einfo_roundtrip.py'

ASSUMPTIONS = [
    'pickle rebuilds an object from a reduce value (callable, args, state) by calling callable(*args) and setting __dict__ to '
    'state; built-in exceptions pickle to an equal type and args (assumed contract of the standard library); round-trip '
    'stability for any number of trips follows from "__reduce__ returns the whole __dict__" by induction on the number of trips',
    'traceback.format_exception / sys.exc_info are the standard library\'s (the text and the (type, value, traceback) triple are '
    'opaque values); a Python traceback is a finite acyclic chain (tblen is its length)',
    'the interface list (attributes CPython 3.12\'s traceback module reads from traceback, frame and code objects) is a '
    'committed list in this file, checked against the installed interpreter by the replayer',
    'in the model the _Truncated marker shares the node class of Traceback with a ghost flag (g_trunc); its own constructor is '
    'verified separately',
]
OUT_OF_REACH = [
    'what pickle and traceback actually do with the stand-ins (cross-checked at run time by the replayer: format and re-pickle '
    'a rebuilt record -- bounded, not counted as proved)',
    'the unserialisable-result path of the worker is proved with the worker protocol (C03: exactly one READY per job, '
    'carrying MaybeEncodingError when the first put raises)',
]

# attributes the traceback module (3.12) reads
TB_ATTRS = ['tb_frame', 'tb_lineno', 'tb_lasti', 'tb_next']
FRAME_ATTRS = ['f_code', 'f_globals', 'f_locals', 'f_lineno', 'f_lasti', 'f_back', 'f_builtins', 'f_trace',
               'f_exc_traceback', 'f_exc_type', 'f_exc_value', 'f_restricted']
CODE_ATTRS = ['co_filename', 'co_name', 'co_argcount', 'co_cellvars', 'co_firstlineno', 'co_flags', 'co_freevars',
              'co_code', 'co_lnotab', 'co_names', 'co_nlocals', 'co_stacksize', 'co_varnames', 'co_qualname', '_co_positions']

_tblen = z3.Function('tblen', z3.IntSort(), z3.IntSort())
_is_tb = z3.Function('is_tb', z3.IntSort(), z3.BoolSort())


def q(names):
    return ', '.join(repr(n) for n in names)


def ext_truncated(ex, args, kw):
    """_Truncated(): the marker node (its constructor is verified on its own)"""
    n = SRef(ref('Traceback'), ex.path.new_id())
    P = ex.path
    P.write_field(n, 'g_trunc', mk_bool(True))
    P.write_field(n, 'g_chain', mk_int(1))
    P.write_field(n, 'tb_next', SNone())
    P.write_field(n, 'tb_lineno', mk_int(-1))
    P.write_field(n, 'tb_lasti', mk_int(0))
    return n


def ext_object(ex, args, kw):
    """_Object(**kw): a plain object with these attributes"""
    o = SRef(ref('_Object'), ex.path.new_id())
    for k, v in kw.items():
        ex.bag_of(o)[k] = v
    return o


def ext_exc_info(ex, args, kw):
    g = ex.lookup('g')
    P = ex.path
    return STup([P.read_field(g, 'exc_type'), P.read_field(g, 'exc_value'), P.read_field(g, 'exc_tb')])


def ext_format_exception(ex, args, kw):
    """traceback.format_exception(type, value, tb): the text; ghost: which traceback object it was formatted from
    (the original one names every frame; the depth-limited stand-in ends in the truncation marker)"""
    tb = args[2]
    from_original = isinstance(tb, SRef) and tb.shape.cls == 'PyTB'
    gset(ex, 'text_from', SV(IntS, tb.id) if from_original else mk_int(-1))
    f = z3.Function('formatted_lines', z3.IntSort(), Val)
    return SV(ValS, f(gget(ex, 'text_from').e))


def ext_join(ex, args, kw):
    f = z3.Function('joined', Val, Val)
    return SV(ValS, f(args[-1].e))


def sp_reduces(ex, result, clsname, selfobj):
    """reduces_to_new(result, 'C', self): result is (C.__new__, (C,), self.__dict__)"""
    from pyvc.core import PyList, VExternal, VClass
    from pyvc.evalexpr import VBagDict
    ok = isinstance(result, (PyList, STup)) and len(result.items) == 3
    if ok:
        a, b, c = result.items
        ok = (isinstance(a, VExternal) and a.name == clsname.s + '.__new__' and
              isinstance(b, (PyList, STup)) and len(b.items) == 1 and isinstance(b.items[0], VClass) and
              b.items[0].name == clsname.s and isinstance(c, VBagDict) and
              z3.simplify(c.obj.id).eq(z3.simplify(selfobj.id)))
    return mk_bool(bool(ok))


def sp_remote_tb(ex, tb):
    return SV(ValS, box(VExc('RemoteTraceback', [tb])))


def encoding_error_contract(w):
    """MaybeEncodingError.__init__: what the record of an unserialisable result carries -- two strings (the reprs), also as
    the exception's own arguments, so that the record pickles whatever the serialiser raised and whatever the result was"""
    Repr = z3.Function('repr_of', Val, Val)
    w.classes['g'].fields.update({'mee_args0': ValS, 'mee_args1': ValS, 'mee_inits': IntS})
    w.cls('MEE', module='pool', pyname='MaybeEncodingError', fields={'exc': ValS, 'value': ValS})
    w.spec_funcs['repr_of'] = lambda ex, v: SV(ValS, Repr(v.e))

    def super_init(ex, args, kw):
        gset(ex, 'mee_inits', SV(IntS, gget(ex, 'mee_inits').e + 1))
        a = [coerce(ex.path, x, ValS) for x in args[1:]]
        gset(ex, 'mee_args0', a[0] if len(a) > 0 else SV(ValS, z3.Const('no_arg', Val)))
        gset(ex, 'mee_args1', a[1] if len(a) > 1 else SV(ValS, z3.Const('no_arg', Val)))
        return SNone()
    return Contract(
        'pool.MaybeEncodingError.__init__', prop=PROP, params={'self': ref('MEE'), 'exc': ValS, 'value': ValS},
        externals={'builtins.repr': lambda ex, a, k: SV(ValS, Repr(coerce(ex.path, a[0], ValS).e)), 'super.__init__': super_init},
        requires={'fresh': 'g.mee_inits == 0'},
        modifies=['self.exc', 'self.value', 'g.mee_args0', 'g.mee_args1', 'g.mee_inits'],
        ensures={'carries_the_text_of_the_error_and_of_the_result': 'self.exc == repr_of(exc) and self.value == repr_of(value)',
                 'its_own_arguments_are_those_two_strings': 'g.mee_inits == 1 and g.mee_args0 == repr_of(exc) and '
                                                            'g.mee_args1 == repr_of(value)'},
    )


def build(w):
    w.cls('g', fields={'exc_type': ValS, 'exc_value': ValS, 'exc_tb': ref('PyTB'), 'text_from': IntS})
    w.cls('PyCode', fields={n: ValS for n in ('co_filename', 'co_name', 'co_argcount', 'co_firstlineno', 'co_flags',
                                               'co_names', 'co_nlocals', 'co_stacksize', 'co_qualname')},
          methods={'co_positions': lambda ex, a, k: SV(ValS, z3.Const(fresh_name('positions'), Val))})
    w.cls('PyLocals', fields={})
    w.cls('PyFrame', fields={'f_code': ref('PyCode'), 'f_lineno': IntS, 'f_lasti': IntS, 'f_globals': ValS,
                             'f_locals': ValS})
    w.cls('PyTB', fields={'tb_frame': ref('PyFrame'), 'tb_lineno': IntS, 'tb_lasti': IntS, 'tb_next': opt(ref('PyTB'))})
    w.cls('_Object', fields={}, bag=True)
    w.cls('_Code', module='einfo', fields={'g_of': IntS}, bag=True)
    w.cls('_Frame', module='einfo', fields={'g_of': IntS}, bag=True)
    w.cls('_Truncated', module='einfo', fields={}, bag=True)
    w.cls('Traceback', module='einfo', bag=True, fields={
        'tb_frame': ref('_Frame'), 'tb_lineno': IntS, 'tb_lasti': IntS, 'tb_next': opt(ref('Traceback')),
        'g_chain': IntS, 'g_trunc': BoolS, 'g_src': IntS})
    w.cls('EInfo', module='einfo', pyname='ExceptionInfo', fields={
        'type': ValS, 'tb': ref('Traceback'), 'traceback': ValS, 'internal': BoolS, 'exception': ValS})
    w.cls('EWT', module='einfo', pyname='ExceptionWithTraceback', fields={'exc': ref('UserExc'), 'tb': ValS})
    w.cls('UserExc', fields={'__cause__': ValS})
    w.spec_funcs.update({'tblen': lambda ex, t: SV(IntS, _tblen(t.id)), 'is_tb': lambda ex, t: SV(BoolS, _is_tb(as_arith(t))), 'reduces_to_new': sp_reduces,
                         'remote_traceback': sp_remote_tb})
    w.externals.update({'einfo._Object': ext_object, 'sys.exc_info': ext_exc_info,
                        'traceback.format_exception': ext_format_exception, '<str>.join': ext_join, '<opaque>.join': ext_join,
                        'builtins.list': lambda ex, a, k: a[0], '<opaque>.get': lambda ex, a, k: SV(ValS, z3.Const(fresh_name('got'), Val)),
                        'sys.getrecursionlimit': lambda ex, a, k: mk_int(1000)})

    # the entries of a Python traceback: a finite chain; is_tb marks its nodes, tblen is the number of entries from a node on
    chain_wf = ('all(implies(is_tb(t), tblen(ref("PyTB", t)) >= 1 and tblen(ref("PyTB", t)) == 1 + '
                'ite(ref("PyTB", t).tb_next is None, 0, tblen(val(ref("PyTB", t).tb_next))) and '
                '(ref("PyTB", t).tb_next is None or is_tb(idof(val(ref("PyTB", t).tb_next))))) for t in ints())')
    room = 'max_frames + 2 - depth'
    code_init = Contract(
        'einfo._Code.__init__', prop=PROP, params={'self': ref('_Code'), 'code': ref('PyCode')},
        modifies=['self.g_of'],
        ghost_exit=[('self', 'g_of', 'idof(code)')],
        ensures={'stands_for_this_code_object': 'self.g_of == idof(code)'},
        local_ensures={
            'every_attribute_the_traceback_module_reads_is_set': 'assigned(self, %s)' % q(CODE_ATTRS),
            'names_the_raising_code': "attr(self, 'co_filename') == code.co_filename and attr(self, 'co_name') == code.co_name "
                                      "and attr(self, 'co_firstlineno') == code.co_firstlineno",
        },
    )
    frame_init = Contract(
        'einfo._Frame.__init__', prop=PROP, params={'self': ref('_Frame'), 'frame': ref('PyFrame')},
        requires={'frame': 'allocated(frame.f_code)'},
        modifies=['self.g_of'],
        blocks=[{'label': '__traceback_hide__ lookup', 'first': 'try:', 'last': 'try:', 'assigns': {}, 'heap_ok': True,
                 'raises': []}],
        ghost_exit=[('self', 'g_of', 'idof(frame)')],
        ensures={'stands_for_this_frame': 'self.g_of == idof(frame)'},
        local_ensures={
            'every_attribute_the_traceback_module_reads_is_set': 'assigned(self, %s)' % q(FRAME_ATTRS),
            'names_the_raising_frame': "attr(self, 'f_lineno') == frame.f_lineno and attr(self, 'f_lasti') == frame.f_lasti and "
                                       "attr(self, 'f_code').g_of == idof(frame.f_code)",
        },
    )
    trunc_init = Contract(
        'einfo._Truncated.__init__', prop=PROP, params={'self': ref('_Truncated')},
        modifies=[],
        local_ensures={
            'every_attribute_the_traceback_module_reads_is_set': 'assigned(self, %s)' % q(TB_ATTRS),
            'ends_the_chain': "attr(self, 'tb_next') is None and attr(self, 'tb_lineno') == -1 and "
                              "assigned(attr(self, 'tb_frame'), 'f_globals', 'f_code') and "
                              "assigned(attr(attr(self, 'tb_frame'), 'f_code'), 'co_filename', 'co_name')",
        },
    )
    tb_init = Contract(
        'einfo.Traceback.__init__', prop=PROP,
        params={'self': ref('Traceback'), 'tb': ref('PyTB'), 'max_frames': IntS, 'depth': IntS},
        externals={'einfo._Truncated': ext_truncated},
        requires={'chain_wf': chain_wf, 'tb': 'is_tb(idof(tb))', 'depth': '0 <= depth and depth <= max_frames + 1'},
        decreases='tblen(tb)',
        modifies=['self.tb_frame', 'self.tb_lineno', 'self.tb_lasti', 'self.tb_next', 'self.g_chain', 'self.g_src',
                  'self.g_trunc'],
        ghost_exit=[('self', 'g_chain', '1 + ite(self.tb_next is None, 0, val(self.tb_next).g_chain)'),
                    ('self', 'g_src', 'idof(tb)'), ('self', 'g_trunc', 'False')],
        local_ensures={'every_attribute_the_traceback_module_reads_is_set': 'assigned(self, %s)' % q(TB_ATTRS)},
        ensures={
            'copies_this_entry': 'self.tb_lineno == tb.tb_lineno and self.tb_lasti == tb.tb_lasti and '
                                 'self.tb_frame.g_of == idof(tb.tb_frame) and self.g_src == idof(tb) and not self.g_trunc',
            'next_entry_in_order': '(self.tb_next is None) == (tb.tb_next is None) and '
                                   'implies(self.tb_next is not None and not val(self.tb_next).g_trunc, '
                                   'val(self.tb_next).g_src == idof(val(tb.tb_next)))',
            # min(n, room) copied entries, then the marker iff the traceback is longer
            'depth_is_bounded': 'self.g_chain == ite(tblen(tb) < %s, tblen(tb), %s) + ite(tblen(tb) > %s, 1, 0)' % (room, room, room),
            'truncated_only_beyond_the_limit': 'implies(self.tb_next is not None and val(self.tb_next).g_trunc, depth > max_frames)',
        },
    )
    reduces = []
    for cls, decl in (('_Code', '_Code'), ('_Frame', '_Frame'), ('_Truncated', '_Truncated'), ('Traceback', 'Traceback')):
        reduces.append(Contract(
            'einfo.%s.__reduce__' % cls, prop=PROP, params={'self': ref(decl)}, modifies=[],
            local_ensures={'whole_dict_is_the_pickled_state': "reduces_to_new(result, '%s', self)" % cls},
        ))
    einfo_init = Contract(
        'einfo.ExceptionInfo.__init__', prop=PROP,
        params={'self': ref('EInfo'), 'exc_info': opt(ValS), 'internal': BoolS},
        requires={'chain_wf': chain_wf, 'from_the_handled_exception': 'exc_info is None and is_tb(idof(g.exc_tb))'},
        modifies=['self.type', 'self.tb', 'self.traceback', 'self.internal', 'self.exception', 'g.text_from'],
        ensures={
            'original_type': 'self.type == g.exc_type',
            'traceback_object_of_the_raising_frames': 'self.tb.g_src == idof(g.exc_tb) and not self.tb.g_trunc and '
                                                      'self.tb.g_chain <= DEFAULT_MAX_FRAMES + 3 and '
                                                      'self.tb.tb_lineno == g.exc_tb.tb_lineno',
            'internal_flag_kept': 'self.internal == internal',
            # the text names the raising frame: it is formatted from the original traceback, not from the depth-limited stand-in
            'text_formatted_from_the_original_traceback': 'g.text_from == idof(g.exc_tb)',
        },
    )
    ewt_reduce = Contract(
        'einfo.ExceptionWithTraceback.__reduce__', prop=PROP, params={'self': ref('EWT')}, modifies=[],
        ensures={'rebuilds_the_original_exception_with_the_text': 'result[0] == rebuild_exc and result[1][0] == self.exc and '
                                                                  'result[1][1] == self.tb'},
    )
    rebuild = Contract(
        'einfo.rebuild_exc', prop=PROP, params={'exc': ref('UserExc'), 'tb': ValS},
        modifies=['exc.__cause__'], returns=ref('UserExc'),
        ensures={'original_exception_with_the_remote_traceback_as_cause': 'result == exc and '
                                                                          'exc.__cause__ == remote_traceback(tb)'},
    )
    # the worker side of the last clause: a result that cannot be serialised is answered with the encoding-error record
    # on that job; the loop is only left by an exception if that record could not be sent either
    W.declare_worker(w)
    return [code_init, frame_init, trunc_init, tb_init] + reduces + [einfo_init, ewt_reduce, rebuild, W.workloop_contract(PROP), encoding_error_contract(w)]


MANIFEST_ENTRY = {
    'text': 'Proof over einfo.py: Traceback.__init__ is verified against its own contract (recursion, termination measure '
            'len(tb)): for every traceback length, frame limit and depth the chain built has min(n, limit+2-depth) copied '
            'entries, in order, each with the line number, instruction offset and a stand-in of the corresponding frame, '
            'followed by one truncation marker iff the traceback is longer -- so the depth is bounded for tracebacks of any '
            'depth; the constructors of the code / frame / truncation / traceback stand-ins assign, on every path, every '
            'attribute of a committed list of what CPython\'s traceback module reads; every __reduce__ returns '
            '(C.__new__, (C,), self.__dict__) with the whole __dict__; ExceptionInfo.__init__ records the original type, the '
            'stand-in chain of the raising frames (bounded by the default limit) and the internal flag; '
            'ExceptionWithTraceback.__reduce__ / rebuild_exc rebuild the original exception object with the remote traceback '
            'text as its cause.  Worker.workloop (shared contract with C03/C09, loop invariant over any number of jobs): when '
            'the put of a result fails with any Exception, the next thing sent is (False, encoding-error record) for that same '
            'job, and an exception leaves the loop only if that second put failed as well -- an unserialisable result alone '
            'neither kills the worker nor loses the job.  MaybeEncodingError.__init__ keeps only the two reprs -- as attributes '
            'and as the exception\'s own arguments -- so the record itself pickles whatever the serialiser raised.',
    'note': 'pickle and traceback themselves are assumed contracts (round-trip stability follows from "whole __dict__" by '
            'induction); the replayer formats and re-pickles rebuilt records at run time as a bounded cross-check.  The '
            'queue put of the worker is an assumed contract: it delivers, raises some Exception, or is interrupted by the '
            'termination signal.',
}
