"""C14 -- the shared-memory heap never hands out overlapping or misplaced memory."""
from pyvc.api import *

PROP = 'C14'
REPLAYERS = {q: 'replayers/heap_ops.py' for q in ('heap.Heap._absorb', 'heap.Heap._free', 'heap.Heap._malloc', 'heap.Heap.__init__',
                                                   'heap.Heap._free_pending_blocks', 'heap.Heap.free', 'heap.Heap.malloc')}

ASSUMPTIONS = [
    'bisect.bisect_left / bisect.insort have their documented contracts on a sorted list (assumed)',
    'Arena(length) maps a fresh arena of exactly `length` bytes (assumed); mmap.PAGESIZE is the value of the engine\'s interpreter (4096)',
    'the heap lock excludes two threads from the locked regions (threading.Lock assumed); list.append/pop are atomic under the GIL',
    'encoding: every list carries a ghost multiset view (count of each value) kept in step by the encoded list operations; '
    '"an element of a list occurs in it" and "an empty list contains nothing" are the links assumed between the two views',
]
OUT_OF_REACH = [
    'two threads both inside the locked region (excluded by the lock, whose correctness is assumed); reentrancy of free() from a '
    'GC finalizer (the try-lock / pending-list protocol; the seeded change C14-a swaps the Lock for an RLock): a property of '
    'interleavings, not of one call.  Within reach and done (variant reentrant): the flush of the pending list with a finalizer '
    'giving one more block back during each call of _free -- as a counting abstraction, one thread',
]
TRUSTED = []

BLK = tup(ref('Arena'), IntS, IntS)
KEY = tup(ref('Arena'), IntS)

S, E, A, L, LN = ('self._start_to_block', 'self._stop_to_block', 'self._allocated_blocks',
                  'self._len_to_seq', 'self._lengths')
AX = {'a': 'anyrefs("Arena")', 'x': 'ints()'}
AXY = dict(AX, y='ints()')
SB = 'get(%s, (a, x))' % S
EB = 'get(%s, (a, x))' % E


def geometry_inv():
    """Tier A: the two offset indexes describe one set F of free blocks; free
    and allocated blocks are well placed, aligned, pairwise disjoint, and no
    two free blocks touch"""
    return {
        'start_index_wf': Forall(AX,
            'implies(has(%s, (a, x)), %s[0] == a and %s[1] == x and 0 <= x and x < %s[2] and %s[2] <= a.size '
            'and x %% 8 == 0 and %s[2] %% 8 == 0 and has(%s, (a, %s[2])) and get(%s, (a, %s[2])) == %s)' % (
                S, SB, SB, SB, SB, SB, E, SB, E, SB, SB)),
        'stop_index_wf': Forall(AX,
            'implies(has(%s, (a, x)), %s[0] == a and %s[2] == x and has(%s, (a, %s[1])) and '
            'get(%s, (a, %s[1])) == %s)' % (E, EB, EB, S, EB, S, EB, EB)),
        'no_two_free_blocks_touch': Forall(AX, 'not (has(%s, (a, x)) and has(%s, (a, x)))' % (S, E)),
        'free_blocks_disjoint': Forall(AXY,
            'implies(has(%s, (a, x)) and has(%s, (a, y)) and x < y, %s[2] <= y)' % (S, S, SB)),
        'allocated_blocks_wf': Forall(AXY,
            'implies(has(%s, (a, x, y)), 0 <= x and x < y and y <= a.size and x %% 8 == 0 and y %% 8 == 0)' % A),
        'allocated_disjoint_from_free': Forall(dict(AXY, z='ints()'),
            'implies(has(%s, (a, x, y)) and has(%s, (a, z)), y <= z or get(%s, (a, z))[2] <= x)' % (A, S, S)),
        # only arenas that exist occur in the indexes (what makes a newly mapped arena free of any earlier block)
        'only_existing_arenas_are_indexed': Forall(AX, 'implies(has(%s, (a, x)), allocated(a))' % S),
        'only_existing_arenas_are_indexed_by_stop': Forall(AX, 'implies(has(%s, (a, x)), allocated(a))' % E),
        'only_existing_arenas_have_allocated_blocks': Forall(AXY, 'implies(has(%s, (a, x, y)), allocated(a))' % A),
        'allocated_blocks_disjoint': Forall(dict(AXY, z='ints()', u='ints()'),
            'implies(has(%s, (a, x, y)) and has(%s, (a, z, u)) and (x != z or y != u), y <= z or u <= x)' % (A, A)),
    }


def index_inv():
    """Tier B: the length index (buckets of blocks by length, sorted list of the
    lengths in use) lists exactly the free blocks, each once.  Stated over the
    multiset view count(list, x) of the lists (quantifier-free membership)."""
    NAXY = dict(n='ints()', **AXY)
    return {
        'every_listed_block_is_free': Forall(NAXY,
            'implies(has(%s, n) and count(get(%s, n), (a, x, y)) >= 1, y - x == n and has(%s, (a, x)) and '
            'get(%s, (a, x)) == (a, x, y))' % (L, L, S, S)),
        'no_duplicates_in_bucket': Forall(NAXY, 'implies(has(%s, n), count(get(%s, n), (a, x, y)) <= 1)' % (L, L)),
        'every_free_block_is_listed': Forall(AX,
            'implies(has(%s, (a, x)), has(%s, %s[2] - x) and count(get(%s, %s[2] - x), %s) >= 1)' % (S, L, SB, L, SB, SB)),
        'no_empty_bucket': Forall({'n': 'ints()'},
            'implies(has(%s, n), allocated(get(%s, n)) and len(get(%s, n)) >= 1)' % (L, L, L)),
        'buckets_are_distinct_lists': Forall({'n': 'ints()', 'm': 'ints()'},
            'implies(has(%s, n) and has(%s, m) and n != m, get(%s, n) != get(%s, m))' % (L, L, L, L)),
        'pending_list_is_not_a_bucket': Forall({'n': 'ints()'},
            'implies(has(%s, n), get(%s, n) != self._pending_free_blocks)' % (L, L)),
        'lengths_sorted': Forall({'i': 'ints()', 'j': 'ints()'},
            'implies(0 <= i and i < j and j < len(%s), at(%s, i) < at(%s, j))' % (LN, LN, LN)),
        'lengths_are_the_bucket_keys': Forall({'n': 'ints()'},
            'iff(has(%s, n), count(%s, n) >= 1) and count(%s, n) <= 1' % (L, LN, LN)),
    }


def sp_list_unchanged(ex, lst):
    """list_unchanged(l): the list object l has the same length, items and multiset view as in the old state
    (quantifier-free: equality of the object's slices of the field arrays)"""
    P = ex.path
    if ex.old_store is None:
        raise ContractError('list_unchanged() outside a postcondition')
    conj = []
    for f in ('len', 'items', 'cnt'):
        cur = P.read_field(lst, f)
        saved = P.store
        P.store = dict(ex.old_store)
        try:
            old = P.read_field(lst, f)
        finally:
            P.store = saved
        cs = cur.shape.unpack(cur) if not hasattr(cur, 'comps') else cur.comps
        os_ = old.shape.unpack(old) if not hasattr(old, 'comps') else old.comps
        conj += [a == b for a, b in zip(cs, os_)]
    return SV(BoolS, z3.And(conj))


def ext_arena(ex, args, kw):
    a = SRef(ref('Arena'), ex.path.new_id('Arena'))
    ex.path.write_field(a, 'size', ex.force(args[0]))
    gset(ex, 'arenas_mapped', SV(IntS, gget(ex, 'arenas_mapped').e + 1))
    return a


def lock_acquire(ex, args, kw):
    """Lock.acquire(False): succeeds iff the lock is free (ghost: held); a reentrant lock held by this
    very thread (the case of a finalizer running inside malloc/free) is acquired again"""
    me = args[0]
    held = ex.path.read_field(me, 'held')
    if ex.path.decide(held.e):
        if ex.path.decide(ex.path.read_field(me, 'reentrant').e):
            return mk_bool(True)
        return mk_bool(False)
    ex.path.write_field(me, 'held', mk_bool(True))
    return mk_bool(True)


def lock_enter(ex, args, kw):
    """`with lock:` -- blocks until the lock is free (a held non-reentrant lock is released by its holder first)"""
    ex.path.write_field(args[0], 'held', mk_bool(True))
    return SNone()


def lock_release(ex, args, kw):
    ex.path.write_field(args[0], 'held', mk_bool(False))
    return SNone()


BLOCK_KEY = {'a': 'block[0]', 'x': 'block[1]'}

_SE = ['start_index_wf', 'stop_index_wf']
_CLR0 = ['block_disjoint_from_free', 'prev_extent_clear_of_free', 'next_extent_clear_of_free']
_CLA0 = ['block_disjoint_from_allocated', 'prev_extent_clear_of_allocated', 'next_extent_clear_of_allocated']
_CLR = ['merged_extent_clear_of_free']
_CLA = ['merged_extent_clear_of_allocated']
FREE_USES = {
    'other_free_blocks_untouched': [],
    'merged_extent_clear_of_free': _SE + _CLR0 + ['no_two_free_blocks_touch'],
    'merged_extent_clear_of_allocated': _CLA0 + ['allocated_blocks_wf'],
    'allocated_blocks_wf': ['allocated_blocks_wf'],
    'only_existing_arenas_are_indexed': ['only_existing_arenas_are_indexed'],
    'only_existing_arenas_are_indexed_by_stop': ['only_existing_arenas_are_indexed_by_stop'],
    'only_existing_arenas_have_allocated_blocks': ['only_existing_arenas_have_allocated_blocks'],
    'allocated_blocks_disjoint': ['allocated_blocks_disjoint'],
    'allocated_disjoint_from_free': _SE + ['allocated_disjoint_from_free'] + _CLA,
    'start_index_wf': _SE + ['no_two_free_blocks_touch'],
    'stop_index_wf': _SE + ['no_two_free_blocks_touch'],
    'no_two_free_blocks_touch': _SE + ['no_two_free_blocks_touch'] + _CLR,
    'free_blocks_disjoint': _SE + ['free_blocks_disjoint'] + _CLR,
    'every_listed_block_is_free': _SE + ['every_listed_block_is_free', 'buckets_are_distinct_lists',
                                         'no_duplicates_in_bucket', 'no_empty_bucket', '*ext'],
    'no_duplicates_in_bucket': _SE + ['no_duplicates_in_bucket', 'every_listed_block_is_free',
                                      'buckets_are_distinct_lists', 'no_empty_bucket', '*ext'],
    'every_free_block_is_listed': _SE + ['every_free_block_is_listed', 'bucket_of_this_length_is_its_own_list',
                                         'no_empty_bucket', '*ext'],
    'bucket_of_this_length_is_its_own_list': ['buckets_are_distinct_lists'],
    'no_empty_bucket': ['no_empty_bucket', 'buckets_are_distinct_lists', '*ext'],
    'buckets_are_distinct_lists': ['buckets_are_distinct_lists', 'no_empty_bucket'],
    'lengths_sorted': ['lengths_sorted', '*ext'],
    'pending_list_is_not_a_bucket': ['pending_list_is_not_a_bucket'],
    'pending_list_untouched': ['pending_list_is_not_a_bucket', 'pending_list_untouched'],
    'lengths_are_the_bucket_keys': ['lengths_are_the_bucket_keys', 'no_empty_bucket', '*ext'],
}


VARIANTS = [None, 'reentrant']


def drain_reentrant(w, items):
    """Heap._free_pending_blocks while finalizers may run: `_free` (and everything it calls) may trigger a garbage
    collection whose finalizers call free(); the heap lock is held by this thread, so such a free() appends its block to
    the pending list (contract of free(): deferred_when_the_lock_is_taken).  The flush must not lose such a block: every
    block that was pending at entry *or was given back while the flush ran* has been handed to `_free` exactly once when
    the function returns, and nothing is left pending.  Ghost counters: g.freed (calls of _free), g.given_back (blocks
    appended by finalizers during the flush).  `_free` is used through a counting abstraction here (its effect on the
    indexes is the subject of the sequential contracts); at most one finalizer block per call of `_free`, any number over
    the flush."""
    by = {c.qualname: c for c in items}
    full = by['heap.Heap._free_pending_blocks']
    w.classes['g'].fields.update({'freed': IntS, 'given_back': IntS})
    PD = 'self._pending_free_blocks'
    from pyvc.builtins_impl import container_method

    def ext_free(ex, args, kw):
        me = args[0]
        gset(ex, 'freed', SV(IntS, gget(ex, 'freed').e + 1))
        if ex.path.choose(2) == 1:
            b = BLK.fresh('given_back')
            ex.path.assume(ex.spec_bool('has(%s, b) and count(%s, b) == 0' % (A, PD), {'self': me, 'b': b}))
            container_method(ex, ex.path.read_field(me, '_pending_free_blocks'), 'append', [b], {})
            gset(ex, 'given_back', SV(IntS, gget(ex, 'given_back').e + 1))
        return SNone()
    pending_wf = full.requires['pending_blocks_are_allocated']
    balance = 'g.freed - old(g.freed) + len(%s) == old(len(%s)) + g.given_back - old(g.given_back)' % (PD, PD)
    return Contract(
        'heap.Heap._free_pending_blocks', prop=PROP, variants=['reentrant'], params=dict(full.params),
        externals={'heap.Heap._free': ext_free},
        requires={'objects': 'allocated(%s) and allocated(%s) and len(%s) >= 0' % (PD, A, PD),
                  'pending_blocks_are_allocated': pending_wf},
        modifies=['list<tup[ref[Arena],int,int]>.*', A + '.*', 'g.freed', 'g.given_back'],
        loops={0: {'inv': {'pending_blocks_are_allocated': pending_wf, 'pending': 'len(%s) >= 0' % PD,
                           'every_block_taken_off_the_list_was_freed': balance,
                           'counters': 'g.freed >= old(g.freed) and g.given_back >= old(g.given_back)'},
                   'modifies': ['list<tup[ref[Arena],int,int]>.*', A + '.*', 'g.freed', 'g.given_back']}},
        ensures={'nothing_left_pending': 'len(%s) == 0' % PD,
                 'blocks_given_back_during_the_flush_are_freed_too':
                     'g.freed - old(g.freed) == old(len(%s)) + g.given_back - old(g.given_back)' % PD},
    )


def build(w, variant=None):
    if variant == 'reentrant':
        return [drain_reentrant(w, build(w))]
    w.cls('g', fields={'arenas_mapped': IntS, 'pid': IntS})
    w.spec_funcs['list_unchanged'] = sp_list_unchanged
    w.cls('Arena', fields={'size': IntS})
    w.cls('Lock', fields={'held': BoolS, 'reentrant': BoolS},
          methods={'acquire': lock_acquire, 'release': lock_release, 'with_enter': lock_enter, 'with_exit': lock_release})

    def mk_lock(reentrant):
        def f(ex, args, kw):
            l = SRef(ref('Lock'), ex.path.new_id('Lock'))
            ex.path.write_field(l, 'held', mk_bool(False))
            ex.path.write_field(l, 'reentrant', mk_bool(reentrant))
            return l
        return f
    w.externals.update({'threading.Lock': mk_lock(False), 'threading.RLock': mk_lock(True),
                        'os.getpid': lambda ex, a, k: gget(ex, 'pid')})
    w.cls('Heap', module='heap', fields={
        '_lastpid': IntS, '_lock': ref('Lock'), '_size': IntS,
        '_lengths': list_of(IntS), '_len_to_seq': dict_of(IntS, list_of(BLK)),
        '_start_to_block': dict_of(KEY, BLK), '_stop_to_block': dict_of(KEY, BLK),
        '_allocated_blocks': set_of(BLK), '_arenas': list_of(ref('Arena')),
        '_pending_free_blocks': list_of(BLK),
    })
    H = ref('Heap')
    wf = {'containers_allocated': ' and '.join('allocated(%s)' % x for x in (S, E, A, L, LN, 'self._pending_free_blocks')) +
          ' and %s != %s' % (S, E)}
    inv = dict(geometry_inv(), **wf)
    inv.update(index_inv())

    absorb = Contract(
        'heap.Heap._absorb', prop=PROP,
        params={'self': H, 'block': BLK},
        requires=dict(inv, block_is_free='has(%s, (block[0], block[1])) and get(%s, (block[0], block[1])) == block' % (S, S)),
        instantiate_entry={'every_free_block_is_listed': [BLOCK_KEY], 'start_index_wf': [BLOCK_KEY],
                           'no_empty_bucket': [{'n': 'block[2] - block[1]'}],
                           'lengths_are_the_bucket_keys': [{'n': 'block[2] - block[1]'}]},
        modifies=[S + '.*', E + '.*', L + '.*', LN + '.*', 'list<tup[ref[Arena],int,int]>.*'],
        returns=tup(IntS, IntS),
        ensures=dict(dict(geometry_inv(), **index_inv()),
                     pending_list_untouched='list_unchanged(self._pending_free_blocks)',
                     returns_extent='result[0] == block[1] and result[1] == block[2]',
                     removed_from_both_indexes='not has(%s, (block[0], block[1])) and not has(%s, (block[0], block[2]))' % (S, E),
                     nothing_else_removed='only_key_changed(%s, (block[0], block[1])) and only_key_changed(%s, (block[0], block[2]))' % (S, E)),
    )
    # ---- _free: register a block as free, merged with its free neighbours --------
    blk_wf = ('allocated(block[0]) and 0 <= block[1] and block[1] < block[2] and block[2] <= block[0].size '
              'and block[1] % 8 == 0 and block[2] % 8 == 0')
    free_req = dict(inv, block_wf=blk_wf,
                    block_disjoint_from_free=Forall(AX, 'implies(has(%s, (a, x)) and a == block[0], '
                                                        '%s[2] <= block[1] or block[2] <= x)' % (S, SB)),
                    block_disjoint_from_allocated=Forall(AXY, 'implies(has(%s, (a, x, y)) and a == block[0], '
                                                              'y <= block[1] or block[2] <= x)' % A))
    free_ = Contract(
        'heap.Heap._free', prop=PROP,
        params={'self': H, 'block': BLK},
        externals={'bisect.insort': ext_insort},
        # _absorb is verified on its own as well; here its body is inlined, so
        # that the proof works from the pre-state invariant and the concrete
        # updates only (assuming the callee's quantified postcondition in the
        # middle sends the solver into matching loops)
        # _absorb is used through its contract; at each call the quantified hypotheses collected so far are dropped
        # except the two about the block being freed: _absorb's postcondition re-establishes the whole invariant
        forget={'heap.Heap._absorb': ['block_disjoint_from_free', 'block_disjoint_from_allocated',
                                     'prev_extent_clear_of_free', 'prev_extent_clear_of_allocated',
                                     'next_extent_clear_of_free', 'next_extent_clear_of_allocated']},
        uses=FREE_USES,
        lemmas=[
            # the neighbour found through the stop index is a registered, listed, well-placed free block, and its
            # extent is clear of every other free block and of every allocated block (proved from the invariant as it
            # holds here, carried across the calls of _absorb, which forget it)
            {'before': 'start, _ = self._absorb(prev_block)', 'prove': {
                'prev_is_free_and_listed':
                    'prev_block[0] == arena and prev_block[2] == start and has(%s, (arena, prev_block[1])) and '
                    'get(%s, (arena, prev_block[1])) == prev_block and prev_block[1] < start and '
                    '0 <= prev_block[1] and prev_block[1] %% 8 == 0 and prev_block[2] <= arena.size and '
                    'not has(%s, (arena, prev_block[1])) and '
                    'has(%s, prev_block[2] - prev_block[1]) and '
                    'count(get(%s, prev_block[2] - prev_block[1]), prev_block) >= 1 and '
                    'allocated(get(%s, prev_block[2] - prev_block[1])) and '
                    'count(%s, prev_block[2] - prev_block[1]) >= 1' % (S, S, E, L, L, L, LN),
                'prev_extent_clear_of_free': Forall(AX,
                    'implies(has(%s, (a, x)) and a == arena and x != prev_block[1], '
                    '%s[2] <= prev_block[1] or prev_block[2] <= x)' % (S, SB)),
                'prev_extent_clear_of_allocated': Forall(AXY,
                    'implies(has(%s, (a, x, y)) and a == arena, y <= prev_block[1] or prev_block[2] <= x)' % A)}},
            {'before': '_, stop = self._absorb(next_block)', 'prove': {
                'next_is_free_and_listed':
                    'next_block[0] == arena and next_block[1] == stop and has(%s, (arena, next_block[2])) and '
                    'get(%s, (arena, next_block[2])) == next_block and stop < next_block[2] and '
                    'next_block[2] <= arena.size and next_block[2] %% 8 == 0 and '
                    'not has(%s, (arena, next_block[2])) and '
                    'has(%s, next_block[2] - next_block[1]) and '
                    'count(get(%s, next_block[2] - next_block[1]), next_block) >= 1 and '
                    'allocated(get(%s, next_block[2] - next_block[1])) and '
                    'count(%s, next_block[2] - next_block[1]) >= 1' % (E, E, S, L, L, L, LN),
                'next_extent_clear_of_free': Forall(AX,
                    'implies(has(%s, (a, x)) and a == arena and x != next_block[1], '
                    '%s[2] <= next_block[1] or next_block[2] <= x)' % (S, SB)),
                'next_extent_clear_of_allocated': Forall(AXY,
                    'implies(has(%s, (a, x, y)) and a == arena, y <= next_block[1] or next_block[2] <= x)' % A)}},
            # after the neighbours were absorbed: the merged extent [start, stop) is clear, stated over the index as it is now
            {'before': 'block = (arena, start, stop)', 'prove': {
                'merged_extent_wf': '0 <= start and start < stop and stop <= arena.size and start %% 8 == 0 and stop %% 8 == 0 '
                                    'and start <= block[1] and block[2] <= stop and allocated(arena) and arena == block[0] and '
                                    'not has(%s, (arena, start)) and not has(%s, (arena, stop)) and '
                                    'not has(%s, (arena, stop)) and not has(%s, (arena, start))' % (E, S, E, S),
                'merged_extent_clear_of_free': Forall(AX,
                    'implies(has(%s, (a, x)) and a == arena, %s[2] <= start or stop <= x)' % (S, SB)),
                'merged_extent_clear_of_allocated': Forall(AXY,
                    'implies(has(%s, (a, x, y)) and a == arena, y <= start or stop <= x)' % A)}},
            {'before': 'length = stop - start', 'prove': {
                'bucket_of_this_length_is_its_own_list': Forall({'n': 'ints()'},
                    'implies(has(%s, n) and has(%s, stop - start) and n != stop - start, '
                    'get(%s, n) != get(%s, stop - start))' % (L, L, L, L))}},
        ],
        requires=free_req,
        modifies=[S + '.*', E + '.*', L + '.*', LN + '.*', 'list<tup[ref[Arena],int,int]>.*'],
        lets={'mstart': 'ite(old(has(%s, (block[0], block[1]))), old(get(%s, (block[0], block[1])))[1], block[1])' % (E, E),
              'mstop': 'ite(old(has(%s, (block[0], block[2]))), old(get(%s, (block[0], block[2])))[2], block[2])' % (S, S)},
        # (the local variables start / stop at exit are the merged extent)
        local_ensures={'merged_with_exactly_the_adjacent_free_blocks': 'final.start == mstart and final.stop == mstop'},
        ensures=dict(dict(geometry_inv(), **index_inv()),
                     # nothing is lost and nothing else is taken: the new free extent [mstart, mstop) is exactly the freed
                     # block plus the free blocks that were adjacent to it
                     pending_list_untouched='list_unchanged(self._pending_free_blocks)',
                     merged_block_is_free='has(%s, (block[0], mstart)) and get(%s, (block[0], mstart)) == '
                                          '(block[0], mstart, mstop)' % (S, S),
                     covers_the_freed_block='mstart <= block[1] and block[2] <= mstop',
                     other_free_blocks_untouched=Forall(AX,
                         'implies(not (a == block[0] and mstart <= x and x < mstop), '
                         'has(%s, (a, x)) == old(has(%s, (a, x))) and '
                         'implies(has(%s, (a, x)), %s == old(%s)))' % (S, S, S, SB, SB)),
                     allocated_set_untouched='only_key_changed(%s)' % A),
    )

    # ---- _malloc: take a block of at least `size` bytes out of the free set -------
    malloc_ = Contract(
        'heap.Heap._malloc', prop=PROP,
        params={'self': H, 'size': IntS},
        externals={'bisect.bisect_left': ext_bisect_left, 'heap.Arena': ext_arena},
        inline=['heap.Heap._roundup'],
        uses=dict({k: v + ['only_existing_arenas_are_indexed', 'only_existing_arenas_are_indexed_by_stop',
                                'only_existing_arenas_have_allocated_blocks'] for k, v in FREE_USES.items()},
                  no_longer_free=_SE + ['only_existing_arenas_are_indexed', 'only_existing_arenas_are_indexed_by_stop'],
                  disjoint_from_free=_SE + ['free_blocks_disjoint', 'only_existing_arenas_are_indexed', 'every_listed_block_is_free'],
                  disjoint_from_allocated=['allocated_disjoint_from_free', 'only_existing_arenas_have_allocated_blocks',
                                           'every_listed_block_is_free'] + _SE,
                  no_new_arena_while_a_free_extent_is_large_enough=_SE + ['every_free_block_is_listed',
                                                                          'lengths_are_the_bucket_keys', '*ext']),
        requires=dict(inv, size='size >= 8 and size % 8 == 0 and self._size >= 1', arenas='allocated(self._arenas)'),
        modifies=[S + '.*', E + '.*', L + '.*', LN + '.*', 'list<tup[ref[Arena],int,int]>.*', 'self._size',
                  'self._arenas.*', 'g.arenas_mapped'],
        returns=BLK,
        ensures=dict(dict(geometry_inv(), **index_inv()),
                     pending_list_untouched='list_unchanged(self._pending_free_blocks)',
                     large_enough='result[2] - result[1] >= size',
                     well_placed='allocated(result[0]) and 0 <= result[1] and result[1] < result[2] and '
                                 'result[2] <= result[0].size and result[1] % 8 == 0 and result[2] % 8 == 0',
                     no_longer_free='not has(%s, (result[0], result[1])) and not has(%s, (result[0], result[2]))' % (S, E),
                     disjoint_from_free=Forall(AX, 'implies(has(%s, (a, x)) and a == result[0], '
                                                   '%s[2] <= result[1] or result[2] <= x)' % (S, SB)),
                     disjoint_from_allocated=Forall(AXY, 'implies(has(%s, (a, x, y)) and a == result[0], '
                                                         'y <= result[1] or result[2] <= x)' % A),
                     allocated_set_untouched='only_key_changed(%s)' % A,
                     no_new_arena_while_a_free_extent_is_large_enough=Forall(
                         AX, 'implies(g.arenas_mapped != old(g.arenas_mapped) and old(has(%s, (a, x))), '
                             'old(%s[2] - x) < size)' % (S, SB)),
                     at_most_one_new_arena='g.arenas_mapped <= old(g.arenas_mapped) + 1',
                     # exactly one free block leaves the free set, or a whole new arena is handed out
                     takes_one_free_block_or_a_whole_new_arena=
                         'ite(g.arenas_mapped == old(g.arenas_mapped), '
                         'old(has(%s, (result[0], result[1]))) and old(get(%s, (result[0], result[1]))) == result, '
                         'fresh(result[0]) and result[1] == 0 and result[2] == result[0].size)' % (S, S),
                     other_free_blocks_untouched=Forall(AX,
                         'implies(not (a == result[0] and x == result[1]), has(%s, (a, x)) == old(has(%s, (a, x))))' % (S, S))),
    )
    PD = 'self._pending_free_blocks'
    pending_wf = Forall(AXY, 'implies(count(%s, (a, x, y)) >= 1, has(%s, (a, x, y)) and count(%s, (a, x, y)) <= 1)' % (PD, A, PD))
    init = Contract(
        'heap.Heap.__init__', prop=PROP, params={'self': H, 'size': IntS},
        modifies=['self.*'],
        ensures=dict(dict(geometry_inv(), **index_inv()),
                     starts_empty='len(%s) == 0 and len(%s) == 0 and len(%s) == 0 and self._size == size' % (S, A, PD),
                     # (a child that finds another pid here starts over: C15, variant fork)
                     belongs_to_the_calling_process='self._lastpid == g.pid',
                     # free() tells "called from a finalizer inside malloc/free of this thread" by failing to take the lock
                     lock_is_free_and_not_reentrant='not self._lock.held and not self._lock.reentrant'),
    )
    drain = Contract(
        'heap.Heap._free_pending_blocks', prop=PROP, params={'self': H},
        requires=dict(inv, pending='allocated(%s) and len(%s) >= 0' % (PD, PD), pending_blocks_are_allocated=pending_wf),
        modifies=[S + '.*', E + '.*', L + '.*', LN + '.*', 'list<tup[ref[Arena],int,int]>.*', A + '.*'],
        loops={0: {'inv': dict(dict(geometry_inv(), **index_inv()), pending_blocks_are_allocated=pending_wf,
                               pending='len(%s) >= 0' % PD,
                               blocks_that_were_not_pending_stay_allocated=Forall(AXY, 'implies(old(has(%s, (a, x, y))) and old(count(%s, (a, x, y))) == 0, has(%s, (a, x, y)) and count(%s, (a, x, y)) == 0)' % (A, PD, A, PD))),
                   'modifies': [S + '.*', E + '.*', L + '.*', LN + '.*', 'list<tup[ref[Arena],int,int]>.*', A + '.*']}},
        ensures=dict(dict(geometry_inv(), **index_inv()), nothing_left_pending='len(%s) == 0' % PD,
                     pending_blocks_are_allocated=pending_wf,
                     blocks_that_were_not_pending_stay_allocated=Forall(AXY, 'implies(old(has(%s, (a, x, y))) and old(count(%s, (a, x, y))) == 0, has(%s, (a, x, y)) and count(%s, (a, x, y)) == 0)' % (A, PD, A, PD))),
    )
    ALLMOD = [S + '.*', E + '.*', L + '.*', LN + '.*', 'list<tup[ref[Arena],int,int]>.*', A + '.*', 'self._lock.held']
    pub_req = dict(inv, pending='allocated(%s) and len(%s) >= 0 and allocated(self._lock)' % (PD, PD),
                   pending_blocks_are_allocated=pending_wf, lock_is_not_reentrant='not self._lock.reentrant')
    full_inv = dict(dict(geometry_inv(), **index_inv()), pending_blocks_are_allocated=pending_wf)
    free_pub = Contract(
        'heap.Heap.free', prop=PROP, params={'self': H, 'block': BLK},
        uses={'pending_blocks_are_allocated': ['pending_blocks_are_allocated', 'blocks_that_were_not_pending_stay_allocated']},
        requires=dict(pub_req, block_is_live='has(%s, block) and count(%s, block) == 0' % (A, PD),
                      same_process='self._lastpid == g.pid'),
        modifies=ALLMOD,
        ensures=dict(full_inv,
                     deferred_when_the_lock_is_taken='implies(old(self._lock.held), count(%s, block) == 1 and '
                                                     'len(%s) == old(len(%s)) + 1 and only_key_changed(%s) and only_key_changed(%s) '
                                                     'and only_key_changed(%s) and self._lock.held)' % (PD, PD, PD, S, E, A),
                     freed_when_the_lock_is_free='implies(not old(self._lock.held), not has(%s, block) and len(%s) == 0 and '
                                                 'not self._lock.held)' % (A, PD)),
    )
    malloc_pub = Contract(
        'heap.Heap.malloc', prop=PROP, params={'self': H, 'size': IntS},
        inline=['heap.Heap._roundup'],
        # (over the locals at exit: the block _malloc returned is [start, stop), the part kept is [start, new_stop))
        local_ensures={'unused_tail_goes_back_to_the_free_set':
                       'implies(final.new_stop < final.stop, has(%s, (final.arena, final.new_stop)) and '
                       'get(%s, (final.arena, final.new_stop))[2] >= final.stop)' % (S, S)},
        requires=dict(pub_req, size='0 <= size', heap_size='self._size >= 1', same_process='self._lastpid == g.pid',
                      arenas='allocated(self._arenas)'),
        modifies=ALLMOD + ['self._size', 'self._arenas.*', 'g.arenas_mapped'],
        returns=BLK,
        ensures=dict(full_inv,
                     block_is_live_now='has(%s, result)' % A,
                     at_least_as_large_as_requested='result[2] - result[1] >= size and result[2] - result[1] >= 8 and '
                                                    'result[2] - result[1] < size + 8 + ite(size == 0, 1, 0)',
                     aligned_and_inside_its_arena='allocated(result[0]) and 0 <= result[1] and result[1] % 8 == 0 and '
                                                  'result[2] % 8 == 0 and result[2] <= result[0].size',
                     disjoint_from_every_other_live_block=Forall(AXY,
                         'implies(has(%s, (a, x, y)) and a == result[0] and (x != result[1] or y != result[2]), '
                         'y <= result[1] or result[2] <= x)' % A),
                     lock_released='not self._lock.held'),
        raises={'AssertionError': {'size_out_of_range': 'size >= sys.maxsize'}},
    )
    return [absorb, free_, malloc_, init, drain, free_pub, malloc_pub]


def ext_insort(ex, args, kw):
    """bisect.insort(lst, x) on a sorted list: x is inserted, the list stays
    sorted (strictly, if x was not in it)"""
    from pyvc.builtins_impl import cnt_get, cnt_add
    lst, x = args[0], ex.force(args[1])
    P = ex.path
    ln = P.read_field(lst, 'len').e
    absent = cnt_get(ex, lst, x).e == 0
    new = P.read_field(lst, 'items').shape.fresh('insort')
    i, j = z3.Int(fresh_name('i')), z3.Int(fresh_name('j'))
    at = lambda k: new.shape.select(new, SV(IntS, k)).e
    if P.decide(absent):
        P.assume(z3.ForAll([i, j], z3.Implies(z3.And(0 <= i, i < j, j < ln + 1), at(i) < at(j))))
    else:
        P.assume(z3.ForAll([i, j], z3.Implies(z3.And(0 <= i, i < j, j < ln + 1), at(i) <= at(j))))
    P.write_field(lst, 'items', new)
    P.write_field(lst, 'len', SV(IntS, ln + 1))
    cnt_add(ex, lst, x, 1)
    return SNone()


def ext_bisect_left(ex, args, kw):
    """bisect.bisect_left(lst, x) on a sorted list: the index of the first element >= x"""
    lst, x = args[0], ex.force(args[1])
    P = ex.path
    ln = P.read_field(lst, 'len').e
    items = P.read_field(lst, 'items')
    r = IntS.fresh('bisect')
    j = z3.Int(fresh_name('j'))
    at = lambda k: items.shape.select(items, SV(IntS, k)).e
    P.assume(z3.And(r.e >= 0, r.e <= ln))
    P.assume(z3.ForAll([j], z3.Implies(z3.And(0 <= j, j < r.e), at(j) < as_arith(x))))
    P.assume(z3.ForAll([j], z3.Implies(z3.And(r.e <= j, j < ln), at(j) >= as_arith(x))))
    # the same over the multiset view of the list: if no position is left, every element is smaller than x
    from pyvc.builtins_impl import cnt_get
    v = z3.Int(fresh_name('v'))
    P.assume(z3.ForAll([v], z3.Implies(z3.And(r.e == ln, cnt_get(ex, lst, SV(IntS, v)).e >= 1), v < as_arith(x))))
    return r


MANIFEST_ENTRY = {
    'text': 'Proof (unbounded: any number of arenas, free and allocated blocks, any sizes) that the three internal operations of the '
            'heap preserve its representation invariant against the abstract view "set of free extents, set of allocated '
            'extents": free extents are 8-aligned, inside their arena, pairwise disjoint, never adjacent (always merged), the '
            'start and stop indexes mirror each other, allocated extents are aligned, inside their arena, pairwise disjoint and '
            'disjoint from every free extent, only existing arenas occur, and the length index (buckets by length + the '
            'sorted list of lengths, stated over a multiset view of the lists) lists exactly the free extents, each once.  '
            '_absorb removes exactly the given free block from all indexes; _free (through _absorb\'s contract, with the '
            'facts about the neighbours carried across the calls as proved lemmas) registers the block merged with its free '
            'neighbours -- exactly the adjacent ones, so that nothing is lost -- and touches no other free block; _malloc takes '
            'exactly one free block out of the free set or hands out a whole new arena, and returns a block that is large enough, aligned, inside its arena, no longer '
            'free, disjoint from every free and every allocated block, and maps a new arena only when no free extent is large '
            'enough.  The public operations are proved over those contracts: __init__ establishes the invariant on an empty heap '
            'with a free, non-reentrant lock; _free_pending_blocks (loop invariant) frees exactly the pending blocks; free() '
            'defers the block to the pending list when the lock is taken and touches nothing else, otherwise drains the list and '
            'frees the block; malloc() returns a live block of the requested size rounded up to 8 (at least 8), aligned, inside '
            'its arena, disjoint from every other live block, frees the unused tail, and leaves the invariant and the lock '
            'released.',
    'note': 'bisect, Arena(length) and the lock are assumed contracts; one thread at a time inside the locked regions.  Reentrancy '
            'of free() from a GC finalizer inside malloc()/free() of the same thread is covered only as far as a contract can: '
            '__init__ must create a free, non-reentrant lock, and free() defers to the pending list whenever the lock is taken '
            '(the seeded change C14-a, RLock for Lock, is refuted at __init__); what a finalizer would do in the middle of an '
            'operation is an interleaving, outside sequential contracts.  The global statement "the arenas are always exactly '
            'partitioned" is carried by the exactness clauses of each operation (nothing lost, nothing taken twice); the sum over '
            'a whole history is the induction of DESIGN.md section 4.  Variant `reentrant`: _free_pending_blocks is proved a '
            'second time with `_free` replaced by a counting abstraction that lets a finalizer give one more block back to the '
            'pending list during each call (ghost counters g.freed, g.given_back): every block that was pending at entry or was '
            'given back while the flush ran has been handed to _free when the function returns, and nothing stays pending -- '
            'the clause a snapshot-then-clear or peek-free-pop rewrite of the loop breaks.',
}
