"""Proof scripts for C11: compositions of calls to functions under contract.
Verified modularly by pyvc (only the callee's *contract* is visible), so a
lemma here is a statement about the contracts, not about the code."""


def window_step(rs):
    # one replacement of an abnormally exited worker inside an open window
    rs.step()


def first_step(rs):
    # the first abnormal restart after the limiter was created / reset
    rs.step()
