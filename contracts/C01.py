"""C01 -- every submitted job resolves exactly once, with its own outcome."""
from pyvc.api import *
import pool_shared as ps
import handles as H

PROP = 'C01'


def build(w):
    ps.declare(w)
    H.declare_handles(w)
    items = H.apply_handle_contracts(PROP)
    return items
