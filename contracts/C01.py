"""C01 -- every submitted job resolves exactly once, with its own outcome."""
from pyvc.api import *
import pool_shared as ps
import handles as H

PROP = 'C01'
REPLAYERS = {'pool.TaskHandler.body': 'replayers/taskhandler_body.py', 'pool.ApplyResult._ack': 'replayers/ack_owner.py',
             'pool.TimeoutHandler.on_hard_timeout': 'replayers/hard_timeout.py',
             'pool.ResultHandler._make_methods.<locals>.on_ack': 'replayers/result_handler.py',
             'pool.ResultHandler._make_methods.<locals>.on_ready': 'replayers/result_handler.py'}

ASSUMPTIONS = [
    'A-atomic: the handlers (on_ack, on_ready, one timeout scan, one supervision tick, one send) do not interleave with '
    'each other below handler granularity (true for threads=False; for threads=True ApplyResult._set/_ack hold the job mutex)',
    'A-fifo: messages of one worker arrive in the order it put them',
    'hooks supplied by the embedding application (on_timeout_set/cancel, send_ack, on_job_ready) return normally; user '
    'callbacks may raise anything; no foreign callable touches pool state',
    'the cache invariant (every handle filed under its own id, pointing back to the cache) is established by the '
    'constructors (cache[self._job] = self) and is assumed at the key a handler looks up',
]
OUT_OF_REACH = [
    'liveness: that every job *reaches* an outcome (needs thread progress and worker liveness)',
    'statement-level races between the ready() test in on_hard_timeout/_join_exited_workers and on_ready under threads=True',
    'MapResult/IMapIterator handle kinds: their _set/_ack are not under contract in this check (apply jobs only)',
]
TRUSTED = []


def job_inv_for(expr):
    return ' and '.join('(%s)' % v.replace('self.', expr + '.') for v in H.JOB_INV.values())


def cache_wf(c, k):
    """the global cache invariant, instantiated at the one key this handler
    looks up (every handle is filed under its own id, points back to this
    cache, and is well formed): quantifier-free"""
    e = 'get(%s, %s)' % (c, k)
    return {'cache_entry_wf': 'implies(has(%s, %s), allocated(%s) and %s._job == %s and %s._cache == %s and %s)' % (
        c, k, e, e, k, e, c, job_inv_for(e))}


def ext_sem_release(ex, args, kw):
    """LaxBoundedSemaphore.release(): counted (its own contract is C10's)"""
    gset(ex, 'releases', SV(IntS, gget(ex, 'releases').e + 1))
    return SNone()


def ext_trywaitkill(ex, args, kw):
    """TimeoutHandler._trywaitkill(worker): signals the worker (C05 verifies
    its body); touches no job"""
    gset(ex, 'signals', SV(IntS, gget(ex, 'signals').e + 1))
    return SNone()


def ext_process_by_pid(ex, args, kw):
    """TimeoutHandler._process_by_pid(pid): (worker, index) of a worker with
    that pid in the pool list, or (None, None)"""
    if ex.path.choose(2) == 0:
        return STup([SNone(), SNone()])
    wk = ref('WorkerP').fresh('proc')
    ex.path._assume_wf(wk)
    return STup([wk, IntS.fresh('idx')])


SET_FRAME = ['Job._success', 'Job._value', 'Event.flag', 'cache.has', 'cache.size',
             'g.ncalls', 'g.assigned', 'g.cb_raised']

# ---- the task feeder: scripted queue / put ---------------------------------
TASK = tup(IntS, tup(IntS, opt(IntS), ValS, ValS, ValS))


def ext_taskqueue_get(ex, args, kw):
    """taskqueue.get(): the sentinel None, or (taskseq, set_length) with
    taskseq a list of well-formed TASK messages (as built by apply_async /
    _map_async / imap: (TASK, (job, i, func, args, kwds)))"""
    if ex.path.choose(2) == 0:
        return SNone()
    gset(ex, 'sending', mk_int(-1))                # nothing of this sequence has been sent yet
    seq = list_of(TASK).fresh('taskseq')
    ex.path._assume_wf(seq)
    ex.path.assume(ex.path.read_field(seq, 'len').e >= 0)
    sl = opt(ValS).fresh('set_length')
    ex.path.assume(z3.Or(sl.isnone, z3.And(H._is_hook(sl.val.e), ex.truthy(sl.val))))
    return STup([seq, sl])


def ext_put(ex, args, kw):
    """put(task): records which job is being sent (ghost g.sending); succeeds,
    or raises IOError (pipe gone) or another Exception (e.g. PicklingError)"""
    task = args[0]
    ex.path.assume(task.items[0].e == 2)          # TASK tag (well-formed message)
    gset(ex, 'sending', task.items[1].items[0])
    record(ex, 'put_job', task.items[1].items[0])
    # the global cache invariant, instantiated at the job being sent
    for clause in cache_wf('self.cache', 'g.sending').values():
        ex.path.assume(ex.spec_bool(clause))
    k = ex.path.choose(3)
    if k == 1:
        raise_exc(ex, 'OSError')
    if k == 2:
        raise_exc(ex, 'AnyException')
    return SNone()


def ext_callable_in_body(ex, args, kw):
    """foreign callables reached from TaskHandler.body: self.put is the
    scripted send above, anything else (set_length) the generic callable"""
    me = ex.root.scopes[0]['self']
    put = ex.path.read_field(me, 'put')
    if len(args) == 2 and isinstance(args[1], STup) and ex.path.decide(args[0].e == put.e):
        return ext_put(ex, args[1:], kw)
    return H.ext_callable(ex, args, kw)


def build(w):
    ps.declare(w)
    H.declare_handles(w)
    ps.declare_handlers(w)
    w.classes['g'].fields['sending'] = IntS
    w.externals['pool.LaxBoundedSemaphore.release'] = ext_sem_release
    items = H.apply_handle_contracts(PROP)

    resolved_once = {
        # the message is for a job that is still in the cache: exactly one
        # assignment, to that job, of the outcome carried by the message
        'own_job_assigned_once': 'implies(old(has(cache, job)), '
                                 'g.assigned[job] == old(g.assigned[job]) + 1)',
        'own_outcome': 'implies(old(has(cache, job)), old(get(cache, job))._event.flag and '
                       'old(get(cache, job))._success == obj[0] and old(get(cache, job))._value == obj[1])',
        'no_other_job_assigned': 'map_only_changed(g.assigned, old(g.assigned), job)',
        'other_outcomes_unchanged': 'only_changed_at("Job._success", old(get(cache, job))) and '
                                    'only_changed_at("Job._value", old(get(cache, job))) and '
                                    'only_changed_at("Event.flag", old(get(cache, job))._event)',
        # late or duplicate message: the job is no longer in the cache
        'late_or_duplicate_ignored': 'implies(not old(has(cache, job)), unchanged("Job._success") and '
                                     'unchanged("Job._value") and unchanged("Event.flag") and '
                                     'unchanged("g.assigned") and g.releases == old(g.releases))',
        'slot_returned_on_first_result': 'implies(old(has(cache, job)) and putlock is not None, '
                                         'g.releases == old(g.releases) + ite(old(get(cache, job)._event.flag), 0, 1))',
        'only_own_cache_entry_removed': 'only_key_changed(cache, job)',
    }
    on_ready = Contract(
        'pool.ResultHandler._make_methods.<locals>.on_ready', prop=PROP,
        enclosing={'self': ref('ResultHandler')},
        params={'job': IntS, 'i': opt(IntS), 'obj': tup(BoolS, ValS), 'inqW_fd': opt(IntS)},
        requires=dict(cache_wf('cache', 'job'), hook='is_hook(on_job_ready) and (on_job_ready is None or truthy(on_job_ready))',
                      counters='self.on_ready_counters is None or allocated(val(self.on_ready_counters))'),
        modifies=SET_FRAME + ['g.releases', 'Counter.value'],
        ensures=resolved_once,
        raises={'MemoryError': resolved_once, 'AnyException': resolved_once, 'AnyBaseException': resolved_once},
    )
    ack_post = {
        'owner_recorded_on_own_job': 'implies(old(has(cache, job)), old(get(cache, job))._accepted)',
        'no_outcome_changed': 'unchanged("Job._success") and unchanged("Job._value") and unchanged("Event.flag") '
                              'and unchanged("g.assigned")',
        'unknown_job_ignored': 'implies(not old(has(cache, job)), unchanged("Job._accepted") and '
                               'unchanged("Job._worker_pid") and unchanged("Job._time_accepted"))',
        'only_own_entry': 'only_key_changed(cache, job) and only_changed_at("Job._accepted", old(get(cache, job))) '
                          'and only_changed_at("Job._worker_pid", old(get(cache, job)))',
    }
    on_ack = Contract(
        'pool.ResultHandler._make_methods.<locals>.on_ack', prop=PROP,
        enclosing={'self': ref('ResultHandler')},
        params={'job': IntS, 'i': opt(IntS), 'time_accepted': RealS, 'pid': IntS, 'synqW_fd': opt(IntS)},
        requires=cache_wf('cache', 'job'),
        modifies=['restart_state.R', 'Job._accepted', 'Job._time_accepted', 'Job._worker_pid',
                  'cache.has', 'cache.size', 'g.ncalls', 'g.cb_raised'],
        ensures=ack_post,
        raises={'AnyBaseException': ack_post},
    )

    # ---- pool-made failures ------------------------------------------------
    hard_post = {
        'resolved_job_untouched': 'implies(old(job._event.flag), unchanged("Job._success") and unchanged("Job._value") '
                                  'and unchanged("Event.flag") and unchanged("g.assigned") and g.signals == old(g.signals))',
        'fails_with_TimeLimitExceeded': 'implies(not old(job._event.flag), job._event.flag and not job._success and '
                                        'job._value == einfo(TimeLimitExceeded(old(job._timeout))))',
        'assigned_once': 'implies(not old(job._event.flag), g.assigned[job._job] == old(g.assigned[job._job]) + 1)',
        'no_other_job_touched': 'only_changed_at("Job._success", job) and only_changed_at("Job._value", job) and '
                                'only_changed_at("Event.flag", job._event) and '
                                'map_only_changed(g.assigned, old(g.assigned), job._job)',
    }
    hard = Contract(
        'pool.TimeoutHandler.on_hard_timeout', prop=PROP,
        params={'self': ref('TimeoutHandler'), 'job': ref('Job')},
        externals={'pool.TimeoutHandler._trywaitkill': ext_trywaitkill,
                   'pool.TimeoutHandler._process_by_pid': ext_process_by_pid},
        inline=['pool.ApplyResult.handle_timeout'],
        requires={'job_wf': job_inv_for('job')},
        modifies=['job._success', 'job._value', 'job._event.flag', 'job._cache.has', 'job._cache.size',
                  'g.ncalls', 'g.assigned', 'g.signals', 'g.cb_raised'],
        ensures=hard_post,
        raises={'MemoryError': hard_post, 'AnyException': hard_post, 'AnyBaseException': hard_post},
    )
    lost_post = {
        'failed_observably': 'job._event.flag and not job._success',
        'only_own_cache_entry': 'only_key_changed(job._cache, job._job)',
        'assigned_once': 'g.assigned[job._job] == old(g.assigned[job._job]) + 1',
        'no_other_job_touched': 'only_changed_at("Job._success", job) and only_changed_at("Job._value", job) and '
                                'only_changed_at("Event.flag", job._event) and '
                                'map_only_changed(g.assigned, old(g.assigned), job._job)',
    }
    lost = Contract(
        'pool.Pool.mark_as_worker_lost', prop=PROP,
        params={'self': ref('Pool'), 'job': ref('Job'), 'exitcode': opt(IntS)},
        requires={'job_wf': job_inv_for('job')},
        modifies=['job._success', 'job._value', 'job._event.flag', 'job._cache.has', 'job._cache.size',
                  'g.ncalls', 'g.assigned', 'g.cb_raised'],
        ensures=lost_post,
        raises={'MemoryError': lost_post, 'AnyException': lost_post, 'AnyBaseException': lost_post},
    )

    # ---- the task feeder: "task could not be sent" resolves *that* job ------
    def sp_job_of(ex, t):
        """the job id a TASK message names (-1 for None)"""
        if isinstance(t, SNone):
            return mk_int(-1)
        if isinstance(t, SOpt):
            return SV(IntS, z3.If(t.isnone, -1, t.val.items[1].items[0].e))
        return t.items[1].items[0]
    w.spec_funcs['job_of'] = sp_job_of

    def sp_pos_of(ex, t):
        if isinstance(t, SNone):
            return SNone()
        return (t.val if isinstance(t, SOpt) else t).items[1].items[1]
    w.spec_funcs['pos_of'] = sp_pos_of
    set_for_sender = H.set_contract(PROP)
    set_for_sender.params = dict(set_for_sender.params, i=ValS)
    set_for_sender.requires = dict(set_for_sender.requires,
                                   failure_attached_to_the_job_being_sent='self._job == g.sending')
    body = Contract(
        'pool.TaskHandler.body', prop=PROP,
        params={'self': ref('TaskHandler')},
        callee_contracts={'pool.ApplyResult._set': set_for_sender},
        externals={'<opaque>.get': ext_taskqueue_get, '<callable>': ext_callable_in_body,
                   'pool.TaskHandler.tell_others': lambda ex, a, k: SNone()},
        requires={'nothing_being_sent': 'g.sending == -1', 'cache_allocated': 'allocated(self.cache)'},
        # the global cache invariant (ASSUMPTIONS), instantiated at the job a failing sequence is reported on -- as in put()
        lemmas=[{'before': 'if job in cache:', 'assume': cache_wf('self.cache', 'job')}],
        modifies=['Job._success', 'Job._value', 'Event.flag', 'self.cache.has', 'self.cache.size', 'g.ncalls', 'g.assigned', 'g.sending', 'g.cb_raised'],
        loops={
            0: {'inv': {'cache': 'cache == self.cache'},
                'modifies': ['Job._success', 'Job._value', 'Event.flag', 'self.cache.has', 'self.cache.size',
                             'g.ncalls', 'g.assigned', 'g.sending', 'g.cb_raised'],
                'locals': {'task': opt(TASK), 'i': IntS, 'taskseq': list_of(TASK), 'set_length': opt(ValS)}},
            # (the task sequence of an imap job is a generator over the caller's iterable: producing the next task may raise)
            1: {'inv': {'cache': 'cache == self.cache',
                        'the_task_in_hand_is_the_one_being_sent': 'g.sending == job_of(task)'},
                'modifies': ['Job._success', 'Job._value', 'Event.flag', 'self.cache.has', 'self.cache.size',
                             'g.ncalls', 'g.assigned', 'g.sending', 'g.cb_raised'],
                'locals': {'task': opt(TASK), 'i': IntS},
                # (only imap sequences are lazy; their tasks carry integer positions)
                'iter_raises': {'exc': 'AnyException', 'when': 'task is None or pos_of(task) is not None'}},
        },
        ensures={'t': 'True'},
        # a user callback that raised (propagated error) ends the thread by design
        raises={'MemoryError': {'cb': 'g.cb_raised'}, 'AnyBaseException': {'cb': 'g.cb_raised'},
                'AnyException': {'cb': 'g.cb_raised'},
                # observation: on that same path `ind + 1` with ind None masks the propagated error
                'TypeError': {'only_while_a_callback_error_propagates': 'g.cb_raised'}},
    )
    return items + [on_ready, on_ack, hard, lost, body]

MANIFEST_ENTRY = {
    'text': 'Proof (unbounded) of the safety core for apply jobs: ApplyResult._set/_ack/_set_terminated/discard are verified '
            'against contracts taken from the statement (event set, own outcome stored, removed from the cache iff accepted, '
            'success/error callbacks never both and each at most once, exactly one assignment counted per call); the handlers '
            'on_ready and on_ack are proved, for every message and every cache state, to assign exactly once to the job named in '
            'the message with that message\'s outcome and to ignore late/duplicate messages (job no longer cached) without touching '
            'any outcome; on_hard_timeout leaves a resolved job untouched and otherwise fails exactly that job with '
            'TimeLimitExceeded; mark_as_worker_lost fails exactly that job; TaskHandler.body attaches a send failure to the job '
            'being sent and to no other (this obligation was refuted on the pinned tree and replayed: defect D1, fixed).',
    'note': 'Handler granularity (A-atomic) and FIFO per worker are assumed; hooks are assumed not to raise; liveness ("reaches") '
            'and statement-level thread races are out of reach; map/imap handle kinds are not covered by this check.',
}
