"""C20 -- manager proxies: the server's object table and reference counts, and who may dispatch (the sequential core)."""
from pyvc.api import *

PROP = 'C20'
REPLAYERS = {q: 'replayers/manager_refs.py' for q in (
    'managers.Server.incref', 'managers.Server.decref', 'managers.Server.create', 'managers.Server.handle_request',
    'managers.Server.serve_client', 'managers.dispatch', 'managers.BaseProxy._decref', 'managers.BaseProxy._incref',
    'managers.BaseProxy._callmethod')}

ASSUMPTIONS = [
    'deliver_challenge / answer_challenge have the contracts proved in C18 (they return only for a peer that holds the key; '
    'otherwise they raise); the connection, format_exc and util.* are foreign code that does not touch the server tables',
    'the registry entry, the referent\'s constructor and public_methods() (first half of Server.create) are under a statement '
    'contract: they yield the object, its exposed methods and its id string and touch no table',
    'one request at a time inside the mutex (the handlers of concurrent clients are serialised by it: guarded-by obligations '
    'check that the tables are only touched while it is held)',
    'serve_client: the connection (recv: a request, a malformed request or end of stream; send: delivers or raises), '
    'getattr(obj, name) (the method or AttributeError), the referent\'s method (returns, raises an Exception, or raises a '
    'BaseException), `name in exposed` (an uninterpreted relation), the fallback table lookup, format_exc, repr, Token and the '
    'result-type lookup are assumed contracts; Server.create is used through its contract',
    'dispatch: the answer is a (kind, body) pair of one of the five kinds the server sends; type(body) is str or not',
]
OUT_OF_REACH = [
    'that a proxy operation returns what the same operation on a local object would (the referent is foreign code; pickling)',
    'atomicity of single operations from concurrent clients beyond "the tables are touched under the mutex"; the lifetime of '
    'a referent across processes is the induction over incref/decref calls (meta-argument); that util.Finalize runs the '
    'registered finalizer when the proxy is dropped is an assumed contract (BaseProxy._incref / _decref themselves are under '
    'contract)',
    'of BaseProxy._callmethod the branch that first connects this thread (_connect) is excluded by the precondition "this '
    'thread owns a connection"',
]

RC, OBJ = 'self.id_to_refcount', 'self.id_to_obj'


def build(w):
    w.cls('g', fields={'auth_steps': IntS, 'dispatched': IntS, 'sent': IntS, 'closed': IntS, 'received': IntS,
                       'send_fails': BoolS})
    # threading.RLock: re-entrant (create() calls incref() while it holds it); depth = how often this thread holds it
    w.cls('Mutex', fields={'depth': IntS}, methods={
        'with_enter': lambda ex, a, k: (ex.path.write_field(a[0], 'depth', SV(IntS, ex.path.read_field(a[0], 'depth').e + 1)), SNone())[1],
        'with_exit': lambda ex, a, k: (ex.path.write_field(a[0], 'depth', SV(IntS, ex.path.read_field(a[0], 'depth').e - 1)), SNone())[1]})
    w.cls('Server', module='managers', fields={
        'id_to_obj': dict_of(ValS, ValS), 'id_to_refcount': dict_of(ValS, IntS), 'mutex': ref('Mutex'),
        'registry': ValS, 'authkey': ValS, 'address': ValS})
    w.cls('ConnM', fields={})
    tables = ('allocated(%s) and allocated(%s) and %s != %s and allocated(self.mutex) and self.mutex.depth >= 0' % (OBJ, RC, OBJ, RC))
    inv = {
        'tables': tables,
        # every counted object is in the table, with at least one reference
        'counted_objects_exist': 'all(implies(has(%s, k), has(%s, k) and get(%s, k) >= 1) for k in vals())' % (RC, OBJ, RC),
    }
    post_inv = {'counted_objects_exist': inv['counted_objects_exist'], 'mutex_released': 'self.mutex.depth == old(self.mutex.depth)'}
    LOCKED = {'id_to_obj': 'self.mutex.depth > 0', 'id_to_refcount': 'self.mutex.depth > 0'}
    mod = [RC + '.*', OBJ + '.*', 'self.mutex.depth']
    others_rc = ('all(implies(k != ident, has(%s, k) == old(has(%s, k)) and get(%s, k) == old(get(%s, k)) and '
                 'has(%s, k) == old(has(%s, k))) for k in vals())' % (RC, RC, RC, RC, OBJ, OBJ))
    incref = Contract(
        'managers.Server.incref', prop=PROP, params={'self': ref('Server'), 'c': ValS, 'ident': ValS},
        # (called by create() for an entry whose count is still 0: the invariant with ">= 0" is what it needs)
        requires={'tables': tables,
                  'counted_objects_exist': 'all(implies(has(%s, k), has(%s, k) and get(%s, k) >= 0) for k in vals())' % (RC, OBJ, RC)},
        modifies=mod, guarded=LOCKED,
        ensures=dict({'mutex_released': 'self.mutex.depth == old(self.mutex.depth)',
                      'counted_objects_exist': 'all(implies(has(%s, k), has(%s, k) and get(%s, k) >= '
                                               'ite(k == ident, 1, old(get(%s, k)))) for k in vals())' % (RC, OBJ, RC, RC)},
                     one_more_reference='has(%s, ident) and get(%s, ident) == old(get(%s, ident)) + 1 and '
                                                  'has(%s, ident)' % (RC, RC, RC, OBJ),
                     other_objects_untouched=others_rc),
        raises={'KeyError': {'unknown_object': 'not old(has(%s, ident)) and self.mutex.depth == old(self.mutex.depth)' % RC}},
    )
    decref = Contract(
        'managers.Server.decref', prop=PROP, params={'self': ref('Server'), 'c': ValS, 'ident': ValS},
        requires=inv, modifies=mod, guarded=LOCKED,
        ensures=dict(post_inv,
                     stays_alive_while_a_proxy_is_left='implies(old(get(%s, ident)) > 1, has(%s, ident) and has(%s, ident) and '
                                                       'get(%s, ident) == old(get(%s, ident)) - 1)' % (RC, OBJ, RC, RC, RC),
                     disposed_of_with_the_last_proxy='implies(old(get(%s, ident)) == 1, not has(%s, ident) and '
                                                     'not has(%s, ident))' % (RC, OBJ, RC),
                     other_objects_untouched=others_rc),
        raises={'KeyError': {'unknown_object': 'not old(has(%s, ident)) and self.mutex.depth == old(self.mutex.depth)' % RC},
                'AssertionError': {'no_reference_to_give_up': 'old(get(%s, ident)) < 1' % RC}},
    )
    w.contracts['managers.Server.incref'] = incref
    create = Contract(
        'managers.Server.create', prop=PROP, params={'self': ref('Server'), 'c': ValS, 'typeid': ValS},
        requires=inv, modifies=mod, guarded=LOCKED,
        externals={'builtins.set': lambda ex, a, k: SV(ValS, z3.Const(fresh_name('exposed_set'), Val)),
                   'builtins.tuple': lambda ex, a, k: SV(ValS, z3.Const(fresh_name('exposed_tuple'), Val))},
        blocks=[{'label': 'registry lookup and construction of the referent',
                 'first': 'callable, exposed, method_to_typeid, proxytype =', 'last': "util.debug('%r callable returned object",
                 'assigns': {'callable': ValS, 'exposed': ValS, 'method_to_typeid': ValS, 'proxytype': ValS, 'obj': ValS,
                             'ident': ValS},
                 'raises': ['AnyException']}],
        ensures=dict(post_inv,
                     registered_with_the_creators_reference='has(%s, result[0]) and has(%s, result[0]) and '
                                                            'get(%s, result[0]) == ite(old(has(%s, result[0])), '
                                                            'old(get(%s, result[0])), 0) + 1' % (OBJ, RC, RC, RC, RC)),
        returns=tup(ValS, ValS),
        raises={'AnyException': {'tables_untouched': 'only_key_changed(%s) and only_key_changed(%s) and self.mutex.depth == old(self.mutex.depth)' % (OBJ, RC)}},
    )

    # ---- a new connection: both challenges before anything is dispatched ------------------------------------------
    def ext_challenge(ex, args, kw):
        if ex.path.choose(2) == 1:
            raise_exc(ex, 'AuthenticationError')
        gset(ex, 'auth_steps', SV(IntS, gget(ex, 'auth_steps').e + 1))
        return SNone()

    def conn_recv(ex, args, kw):
        gset(ex, 'received', SV(IntS, gget(ex, 'received').e + 1))
        if ex.path.choose(2) == 1:
            raise_exc(ex, 'EOFError')
        return STup([SV(ValS, z3.Const('req_ignore', Val)), SV(ValS, z3.Const('req_funcname', Val)),
                     SV(ValS, z3.Const('req_args', Val)), SV(ValS, z3.Const('req_kwds', Val))])

    def conn_send(ex, args, kw):
        if ex.path.choose(2) == 1:
            gset(ex, 'send_fails', mk_bool(True))
            raise_exc(ex, 'AnyException')
        gset(ex, 'sent', SV(IntS, gget(ex, 'sent').e + 1))
        return SNone()

    def conn_close(ex, args, kw):
        gset(ex, 'closed', SV(IntS, gget(ex, 'closed').e + 1))
        return SNone()

    def ext_dispatch(ex, args, kw):
        """func(c, *args, **kwds): one of the public methods runs"""
        gset(ex, 'dispatched', SV(IntS, gget(ex, 'dispatched').e + 1))
        if ex.path.choose(2) == 1:
            raise_exc(ex, 'AnyException')
        return SV(ValS, z3.Const(fresh_name('result'), Val))
    w.classes['ConnM'].methods.update({'recv': conn_recv, 'send': conn_send, 'close': conn_close})
    handle = Contract(
        'managers.Server.handle_request', prop=PROP, params={'self': ref('Server'), 'c': ref('ConnM')},
        externals={'connection.deliver_challenge': ext_challenge, 'connection.answer_challenge': ext_challenge,
                   'getattr<dynamic>': lambda ex, a, k: SV(ValS, z3.Const('the_public_method', Val)),
                   '<callable>': ext_dispatch, 'traceback.format_exc': lambda ex, a, k: SV(ValS, z3.Const(fresh_name('tb'), Val)),
                   'managers.format_exc': lambda ex, a, k: SV(ValS, z3.Const(fresh_name('tb'), Val)),
                   'builtins.contains<opaque>': lambda ex, a, k: BoolS.fresh('is_public')},
        requires={'fresh_connection': 'g.auth_steps == 0 and g.dispatched == 0 and g.closed == 0 and g.received == 0 and '
                                      'g.sent == 0 and not g.send_fails'},
        modifies=['g.auth_steps', 'g.dispatched', 'g.sent', 'g.closed', 'g.received', 'g.send_fails'],
        ensures={
            'talking_to_the_server_requires_the_key': 'implies(g.received > 0 or g.dispatched > 0, g.auth_steps == 2)',
            'at_most_one_method_runs_per_connection': 'g.dispatched <= 1',
            'an_answer_is_sent_unless_the_connection_fails': 'g.sent == 1 or g.send_fails',
            'connection_closed': 'g.closed == 1',
        },
    )
    w.contracts['managers.Server.create'] = create
    return [incref, decref, create, handle] + serve_contracts(w, tables, inv)


# ---- the request loop of one client connection, and the client side of one call -----------------------------------
Member = z3.Function('exposed_member', Val, Val, z3.BoolSort())      # methodname in exposed
MethodOf = z3.Function('method_of', Val, Val, Val)                    # getattr(obj, methodname)


def serve_contracts(w, tables, inv):
    G = w.classes['g'].fields
    G.update({'requests': IntS, 'answers': IntS, 'cur_ident': ValS, 'cur_method': ValS, 'ran': IntS, 'outcome': IntS,
              'outcome_val': ValS, 'send_failures': IntS, 'fallbacks': IntS, 'typeid_lookups': IntS})
    w.cls('StopEvent', fields={}, methods={'is_set': lambda ex, a, k: BoolS.fresh('stopped')})
    w.classes['Server'].fields['stop_event'] = ref('StopEvent')
    w.classes['Server'].fields['id_to_obj'] = dict_of(ValS, tup(ValS, ValS, ValS))
    w.cls('ConnS', fields={})

    def recv(ex, args, kw):
        k = ex.path.choose(3)
        if k == 1:
            raise_exc(ex, 'EOFError')
        # anything but end-of-stream is a request that gets an answer (a malformed one gets the traceback)
        gset(ex, 'requests', SV(IntS, gget(ex, 'requests').e + 1))
        req = [SV(ValS, z3.Const(fresh_name('req_' + n), Val)) for n in ('ident', 'method', 'args', 'kwds')]
        gset(ex, 'cur_ident', req[0])
        gset(ex, 'cur_method', req[1])
        for f in ('ran', 'outcome', 'send_failures', 'fallbacks', 'typeid_lookups'):
            gset(ex, f, mk_int(0))
        if k == 2:
            raise_exc(ex, 'AnyException')          # a malformed request
        return STup(req)

    def entry(ex):
        me = ex.root.scopes[0]['self']
        table = ex.path.read_field(me, 'id_to_obj')
        val = ex.path.read_field(table, 'val')
        return val.shape.select(val, gget(ex, 'cur_ident'))

    def call(ex, args, kw):
        fn = args[0]
        if z3.is_const(fn.e) and fn.e.decl().name().startswith('fallback_func'):
            # __str__ / __repr__ / #GETVALUE of a referent that does not expose them: served by the server itself
            prove(ex, 'dispatch.fallback_only_when_the_method_was_not_found', gget(ex, 'ran').e == 0)
            gset(ex, 'fallbacks', SV(IntS, gget(ex, 'fallbacks').e + 1))
            if ex.path.choose(2) == 1:
                raise_exc(ex, 'AnyException')
            return SV(ValS, z3.Const(fresh_name('fallback_result'), Val))
        e = entry(ex)
        prove(ex, 'dispatch.only_exposed_methods_of_the_addressed_object_run',
              z3.And(Member(gget(ex, 'cur_method').e, e.items[1].e),
                     fn.e == MethodOf(e.items[0].e, gget(ex, 'cur_method').e)))
        prove(ex, 'dispatch.one_method_call_per_request', gget(ex, 'ran').e == 0)
        gset(ex, 'ran', mk_int(1))
        k = ex.path.choose(3)
        if k == 0:
            r = SV(ValS, z3.Const(fresh_name('method_result'), Val))
            gset(ex, 'outcome', mk_int(1))
            gset(ex, 'outcome_val', r)
            return r
        v = SV(ValS, z3.Const(fresh_name('raised_value'), Val))
        gset(ex, 'outcome_val', v)
        if k == 1:
            gset(ex, 'outcome', mk_int(2))
            raise_exc(ex, 'AnyException', v)
        gset(ex, 'outcome', mk_int(3))
        raise_exc(ex, 'AnyBaseException', v)          # KeyboardInterrupt / SystemExit in the referent: ends this thread

    def send(ex, args, kw):
        from pyvc.core import VExc, SStr
        msg = args[1] if len(args) > 1 else args[0]
        tag = msg.items[0].s if isinstance(msg.items[0], SStr) else None
        body = msg.items[1]
        retry = gget(ex, 'send_failures').e > 0
        prove(ex, 'answer.one_answer_per_request', gget(ex, 'answers').e == gget(ex, 'requests').e - 1)
        prove(ex, 'answer.at_most_one_retry', gget(ex, 'send_failures').e <= 1)
        oc = gget(ex, 'outcome').e
        ov = gget(ex, 'outcome_val').e
        if tag == '#UNSERIALIZABLE':
            prove(ex, 'answer.unserializable_only_after_a_failed_send', retry)
        else:
            prove(ex, 'answer.retry_says_unserializable', z3.Not(retry))
            if tag == '#RETURN':
                is_val = isinstance(body, SV) and body.shape is ValS
                prove(ex, 'answer.the_method_result_is_returned_unchanged',
                      z3.Or(z3.And(oc == 1, body.e == ov) if is_val else z3.BoolVal(False),
                            z3.And(oc == 0, gget(ex, 'fallbacks').e == 1)))
            elif tag == '#ERROR':
                same = isinstance(body, VExc) and len(body.args) == 1 and isinstance(body.args[0], SV)
                prove(ex, 'answer.the_exception_of_the_referent_is_passed_on',
                      z3.And(oc == 2, body.args[0].e == ov) if same else z3.BoolVal(False))
            elif tag == '#PROXY':
                prove(ex, 'answer.proxy_only_for_a_returned_object', oc == 1)
            elif tag == '#TRACEBACK':
                # (a result for which a proxy was asked for but could not be created is answered with the traceback too)
                prove(ex, 'answer.traceback_only_when_no_method_result_exists',
                      z3.Or(oc == 0, z3.And(oc == 1, gget(ex, 'typeid_lookups').e == 1)))
            else:
                prove(ex, 'answer.known_kind', z3.BoolVal(False))
        if ex.path.choose(2) == 1:
            gset(ex, 'send_failures', SV(IntS, gget(ex, 'send_failures').e + 1))
            raise_exc(ex, 'AnyException')
        gset(ex, 'answers', SV(IntS, gget(ex, 'answers').e + 1))
        return SNone()

    def close(ex, args, kw):
        gset(ex, 'closed', SV(IntS, gget(ex, 'closed').e + 1))
        return SNone()
    w.classes['ConnS'].methods.update({'recv': recv, 'send': send, 'close': close})

    def dyn_getattr(ex, args, kw):
        if ex.path.choose(2) == 1:
            raise_exc(ex, 'AttributeError')
        return SV(ValS, MethodOf(args[0].e, args[1].e))

    def fallback_lookup(ex):
        """self.fallback_mapping: a class-level dict of three server methods"""
        return SV(ValS, z3.Const('fallback_mapping', Val))

    def opaque_getitem(ex, args, kw):
        if ex.path.choose(2) == 1:
            raise_exc(ex, 'KeyError')
        return SV(ValS, z3.Const(fresh_name('fallback_func'), Val))
    def typeid_lookup(ex, args, kw):
        """gettypeid.get(methodname, None): the type a proxy is to be made of for this method's result, if any"""
        gset(ex, 'typeid_lookups', SV(IntS, gget(ex, 'typeid_lookups').e + 1))
        return SV(ValS, z3.Const(fresh_name('typeid'), Val))
    w.global_overrides['managers.Server.fallback_mapping'] = fallback_lookup
    cnt = 'g.answers == g.requests'
    serve = Contract(
        'managers.Server.serve_client', prop=PROP, params={'self': ref('Server'), 'conn': ref('ConnS')},
        externals={'getattr<dynamic>': dyn_getattr, '<callable>': call,
                   'contains<opaque>': lambda ex, a, k: SV(BoolS, Member(a[0].e, a[1].e)),
                   'managers.format_exc': lambda ex, a, k: SV(ValS, z3.Const(fresh_name('tb'), Val)),
                   'traceback.format_exc': lambda ex, a, k: SV(ValS, z3.Const(fresh_name('tb'), Val)),
                   'getitem<opaque>': opaque_getitem,
                   'sys.exit': lambda ex, a, k: raise_exc(ex, 'SystemExit', *a),
                   '<opaque>.get': typeid_lookup,
                   'truth<opaque>': lambda ex, a, k: BoolS.fresh('truthy'),
                   'managers.Token': lambda ex, a, k: SV(ValS, z3.Const(fresh_name('token'), Val)),
                   'builtins.repr': lambda ex, a, k: SV(ValS, z3.Const(fresh_name('repr'), Val)),
                   'builtins.type': lambda ex, a, k: SV(ValS, z3.Const(fresh_name('type'), Val))},
        requires=dict(inv, stop='allocated(self.stop_event)', fresh='g.requests == 0 and g.answers == 0 and g.closed == 0'),
        modifies=['g.*', RC + '.*', OBJ + '.*', 'self.mutex.depth'],
        loops={('managers.Server.serve_client', 0): {
            'inv': dict(inv, every_request_so_far_was_answered_once=cnt, still_open='g.closed == 0',
                        stop='allocated(self.stop_event)'),
            'modifies': ['g.*', RC + '.*', OBJ + '.*', 'self.mutex.depth'],
            'locals': {'methodname': opt(ValS), 'obj': opt(ValS), 'request': tup(ValS, ValS, ValS, ValS), 'ident': ValS,
                       'args': ValS, 'kwds': ValS, 'exposed': ValS, 'gettypeid': ValS, 'function': ValS, 'res': ValS,
                       'typeid': ValS, 'rident': ValS, 'rexposed': ValS, 'token': ValS, 'fallback_func': ValS,
                       'result': ValS}}},
        ensures={'every_request_was_answered_exactly_once': cnt},
        raises={'SystemExit': {'left_at_end_of_stream_or_after_a_failed_answer':
                               '(g.answers == g.requests and g.closed == 0) or '
                               '(g.answers == g.requests - 1 and g.send_failures == 2 and g.closed == 1)'},
                'AnyBaseException': {'only_from_the_referent': 'g.outcome == 3 and g.answers == g.requests - 1'}},
    )

    # the client side of one call: what the proxy hands back to its caller
    w.cls('ConnC', fields={})

    def c_send(ex, args, kw):
        gset(ex, 'sent', SV(IntS, gget(ex, 'sent').e + 1))
        return SNone()

    def c_recv(ex, args, kw):
        from pyvc.core import SStr
        k = ex.path.choose(5)
        body = SV(ValS, z3.Const(fresh_name('answer_body'), Val))
        gset(ex, 'outcome', mk_int(k))
        gset(ex, 'outcome_val', body)
        return STup([SStr(['#RETURN', '#ERROR', '#TRACEBACK', '#UNSERIALIZABLE', '#OTHER'][k]), body])
    w.classes['ConnC'].methods.update({'send': c_send, 'recv': c_recv})

    def type_of(ex, args, kw):
        from pyvc.core import VExternal
        if ex.path.choose(2) == 1:
            return VExternal('builtins.bytes')
        return VExternal('builtins.str')
    disp = Contract(
        'managers.dispatch', prop=PROP, params={'c': ref('ConnC'), 'id': ValS, 'methodname': ValS, 'args': ValS, 'kwds': ValS},
        inline=['managers.convert_to_error'],
        externals={'builtins.type': type_of},
        requires={'fresh': 'g.sent == 0'},
        modifies=['g.sent', 'g.outcome', 'g.outcome_val'],
        ensures={'the_value_the_server_returned': 'g.outcome == 0 and result == g.outcome_val and g.sent == 1'},
        # '<opaque>': `raise <the object received>` -- the referent's own exception, re-raised in the caller
        raises={'<opaque>': {'the_exception_the_referent_raised': 'g.outcome == 1'},
                'RemoteError': {'server_side_failure': 'g.outcome == 2 or g.outcome == 3'},
                'AssertionError': {'server_side_failure_with_a_malformed_text': 'g.outcome == 2 or g.outcome == 3'},
                'ValueError': {'unknown_kind': 'g.outcome == 4'}},
    )
    import c20_proxy
    return [serve, disp] + c20_proxy.proxy_contracts(w, PROP)


MANIFEST_ENTRY = {
    'text': 'PARTIAL (the server\'s tables and the dispatch gate; proxy semantics and concurrent clients are out of reach).  '
            'Proof of the sequential core of the manager server: with the invariant "every counted object is in the object table '
            'and has at least one reference", incref adds exactly one reference to exactly that object; decref gives one up, the '
            'object stays in the table while a reference is left and is disposed of (both tables) with the last one, and '
            'refuses to go below zero; create registers the new referent with exactly the creator\'s reference; none of them '
            'touches another object\'s entries, and the tables are only touched while the server mutex is held (guarded-by '
            'obligations).  handle_request runs both challenges before it reads a request, dispatches at most one public '
            'method and only after both challenges returned, always answers (the error text if the method raised) and always '
            'closes the connection.  serve_client (loop invariant over any number of requests): every request that is not the '
            'end of the stream gets exactly one answer (one retry saying #UNSERIALIZABLE if the answer cannot be sent); the only '
            'callable run for a request is getattr(obj, methodname) of the object the request addresses, once, and only if '
            'methodname is in that object\'s exposed set (the three server-side fallbacks run only when no method ran); a '
            'returned value goes back unchanged as #RETURN, an Exception raised by the referent goes back as #ERROR carrying '
            'that very exception and is never replaced by a traceback; the loop is left only at end of stream, after a failed '
            'answer (connection closed, status 1) or by a BaseException of the referent.  managers.dispatch (client side): '
            'returns the body of a #RETURN answer unchanged, re-raises the body of an #ERROR answer, raises RemoteError for '
            '#TRACEBACK / #UNSERIALIZABLE and ValueError otherwise, after sending exactly one request.  The proxy\'s own '
            'reference (BaseProxy._incref / _decref): _incref sends exactly one incref for its object on a new connection made '
            'with the proxy\'s key, remembers the id, and registers exactly one finalizer -- _decref with this proxy\'s token, '
            'key, manager state, thread-local store and id set; _decref forgets the id and sends exactly one decref for that '
            'object unless the manager is known to be shut down -- in particular also for a proxy without a manager object (a '
            'pickled copy, a forked child) -- and closes the thread\'s connection exactly with the last proxy of the process.  '
            'BaseProxy._callmethod sends one request naming its own object, the method and the arguments; hands a plain value '
            'on unchanged; for a result that comes back as an object of its own it builds one proxy for *that* object and gives '
            'the reference the server took for the transit back -- a decref for the returned object, not for the one the '
            'method was called on; the referent\'s exception is re-raised, server-side failures raise RemoteError.',
    'note': 'Sequential core only: atomicity under concurrent clients is reduced to the mutex discipline; that proxy operations '
            'return what local ones would is covered as far as "the server hands back the referent\'s own result / exception '
            'unchanged and the client hands that on" (pickling and the referent are foreign code); that the finalizers run when '
            'a proxy is dropped is an assumed contract of util.Finalize.  The challenge functions are used through C18\'s '
            'contracts (here: return or raise).',
}
