"""C20 -- manager proxies: the server's object table and reference counts, and who may dispatch (the sequential core)."""
from pyvc.api import *

PROP = 'C20'
REPLAYERS = {q: 'replayers/manager_refs.py' for q in (
    'managers.Server.incref', 'managers.Server.decref', 'managers.Server.create', 'managers.Server.handle_request')}

ASSUMPTIONS = [
    'deliver_challenge / answer_challenge have the contracts proved in C18 (they return only for a peer that holds the key; '
    'otherwise they raise); the connection, format_exc and util.* are foreign code that does not touch the server tables',
    'the registry entry, the referent\'s constructor and public_methods() (first half of Server.create) are under a statement '
    'contract: they yield the object, its exposed methods and its id string and touch no table',
    'one request at a time inside the mutex (the handlers of concurrent clients are serialised by it: guarded-by obligations '
    'check that the tables are only touched while it is held)',
]
OUT_OF_REACH = [
    'that a proxy operation returns what the same operation on a local object would (the referent is foreign code; pickling)',
    'atomicity of single operations from concurrent clients beyond "the tables are touched under the mutex"; the lifetime of '
    'a referent across processes is the induction over incref/decref calls (meta-argument) plus the finalizers that issue '
    'them (BaseProxy._incref/_decref, util.Finalize: not under contract)',
    'Server.serve_client (dispatch restricted to exposed methods) is not under contract',
]

RC, OBJ = 'self.id_to_refcount', 'self.id_to_obj'


def build(w):
    w.cls('g', fields={'auth_steps': IntS, 'dispatched': IntS, 'sent': IntS, 'closed': IntS, 'received': IntS,
                       'send_fails': BoolS})
    # threading.RLock: re-entrant (create() calls incref() while it holds it); depth = how often this thread holds it
    w.cls('Mutex', fields={'depth': IntS}, methods={
        'with_enter': lambda ex, a, k: (ex.path.write_field(a[0], 'depth', SV(IntS, ex.path.read_field(a[0], 'depth').e + 1)), SNone())[1],
        'with_exit': lambda ex, a, k: (ex.path.write_field(a[0], 'depth', SV(IntS, ex.path.read_field(a[0], 'depth').e - 1)), SNone())[1]})
    w.cls('Server', module='managers', fields={
        'id_to_obj': dict_of(ValS, ValS), 'id_to_refcount': dict_of(ValS, IntS), 'mutex': ref('Mutex'),
        'registry': ValS, 'authkey': ValS, 'address': ValS})
    w.cls('ConnM', fields={})
    tables = ('allocated(%s) and allocated(%s) and %s != %s and allocated(self.mutex) and self.mutex.depth >= 0' % (OBJ, RC, OBJ, RC))
    inv = {
        'tables': tables,
        # every counted object is in the table, with at least one reference
        'counted_objects_exist': 'all(implies(has(%s, k), has(%s, k) and get(%s, k) >= 1) for k in vals())' % (RC, OBJ, RC),
    }
    post_inv = {'counted_objects_exist': inv['counted_objects_exist'], 'mutex_released': 'self.mutex.depth == old(self.mutex.depth)'}
    LOCKED = {'id_to_obj': 'self.mutex.depth > 0', 'id_to_refcount': 'self.mutex.depth > 0'}
    mod = [RC + '.*', OBJ + '.*', 'self.mutex.depth']
    others_rc = ('all(implies(k != ident, has(%s, k) == old(has(%s, k)) and get(%s, k) == old(get(%s, k)) and '
                 'has(%s, k) == old(has(%s, k))) for k in vals())' % (RC, RC, RC, RC, OBJ, OBJ))
    incref = Contract(
        'managers.Server.incref', prop=PROP, params={'self': ref('Server'), 'c': ValS, 'ident': ValS},
        # (called by create() for an entry whose count is still 0: the invariant with ">= 0" is what it needs)
        requires={'tables': tables,
                  'counted_objects_exist': 'all(implies(has(%s, k), has(%s, k) and get(%s, k) >= 0) for k in vals())' % (RC, OBJ, RC)},
        modifies=mod, guarded=LOCKED,
        ensures=dict({'mutex_released': 'self.mutex.depth == old(self.mutex.depth)',
                      'counted_objects_exist': 'all(implies(has(%s, k), has(%s, k) and get(%s, k) >= '
                                               'ite(k == ident, 1, old(get(%s, k)))) for k in vals())' % (RC, OBJ, RC, RC)},
                     one_more_reference='has(%s, ident) and get(%s, ident) == old(get(%s, ident)) + 1 and '
                                                  'has(%s, ident)' % (RC, RC, RC, OBJ),
                     other_objects_untouched=others_rc),
        raises={'KeyError': {'unknown_object': 'not old(has(%s, ident)) and self.mutex.depth == old(self.mutex.depth)' % RC}},
    )
    decref = Contract(
        'managers.Server.decref', prop=PROP, params={'self': ref('Server'), 'c': ValS, 'ident': ValS},
        requires=inv, modifies=mod, guarded=LOCKED,
        ensures=dict(post_inv,
                     stays_alive_while_a_proxy_is_left='implies(old(get(%s, ident)) > 1, has(%s, ident) and has(%s, ident) and '
                                                       'get(%s, ident) == old(get(%s, ident)) - 1)' % (RC, OBJ, RC, RC, RC),
                     disposed_of_with_the_last_proxy='implies(old(get(%s, ident)) == 1, not has(%s, ident) and '
                                                     'not has(%s, ident))' % (RC, OBJ, RC),
                     other_objects_untouched=others_rc),
        raises={'KeyError': {'unknown_object': 'not old(has(%s, ident)) and self.mutex.depth == old(self.mutex.depth)' % RC},
                'AssertionError': {'no_reference_to_give_up': 'old(get(%s, ident)) < 1' % RC}},
    )
    w.contracts['managers.Server.incref'] = incref
    create = Contract(
        'managers.Server.create', prop=PROP, params={'self': ref('Server'), 'c': ValS, 'typeid': ValS},
        requires=inv, modifies=mod, guarded=LOCKED,
        externals={'builtins.set': lambda ex, a, k: SV(ValS, z3.Const(fresh_name('exposed_set'), Val)),
                   'builtins.tuple': lambda ex, a, k: SV(ValS, z3.Const(fresh_name('exposed_tuple'), Val))},
        blocks=[{'label': 'registry lookup and construction of the referent',
                 'first': 'callable, exposed, method_to_typeid, proxytype =', 'last': "util.debug('%r callable returned object",
                 'assigns': {'callable': ValS, 'exposed': ValS, 'method_to_typeid': ValS, 'proxytype': ValS, 'obj': ValS,
                             'ident': ValS},
                 'raises': ['AnyException']}],
        ensures=dict(post_inv,
                     registered_with_the_creators_reference='has(%s, final.ident) and has(%s, final.ident) and '
                                                            'get(%s, final.ident) == ite(old(has(%s, final.ident)), '
                                                            'old(get(%s, final.ident)), 0) + 1' % (OBJ, RC, RC, RC, RC)),
        raises={'AnyException': {'tables_untouched': 'only_key_changed(%s) and only_key_changed(%s) and self.mutex.depth == old(self.mutex.depth)' % (OBJ, RC)}},
    )

    # ---- a new connection: both challenges before anything is dispatched ------------------------------------------
    def ext_challenge(ex, args, kw):
        if ex.path.choose(2) == 1:
            raise_exc(ex, 'AuthenticationError')
        gset(ex, 'auth_steps', SV(IntS, gget(ex, 'auth_steps').e + 1))
        return SNone()

    def conn_recv(ex, args, kw):
        gset(ex, 'received', SV(IntS, gget(ex, 'received').e + 1))
        if ex.path.choose(2) == 1:
            raise_exc(ex, 'EOFError')
        return STup([SV(ValS, z3.Const('req_ignore', Val)), SV(ValS, z3.Const('req_funcname', Val)),
                     SV(ValS, z3.Const('req_args', Val)), SV(ValS, z3.Const('req_kwds', Val))])

    def conn_send(ex, args, kw):
        if ex.path.choose(2) == 1:
            gset(ex, 'send_fails', mk_bool(True))
            raise_exc(ex, 'AnyException')
        gset(ex, 'sent', SV(IntS, gget(ex, 'sent').e + 1))
        return SNone()

    def conn_close(ex, args, kw):
        gset(ex, 'closed', SV(IntS, gget(ex, 'closed').e + 1))
        return SNone()

    def ext_dispatch(ex, args, kw):
        """func(c, *args, **kwds): one of the public methods runs"""
        gset(ex, 'dispatched', SV(IntS, gget(ex, 'dispatched').e + 1))
        if ex.path.choose(2) == 1:
            raise_exc(ex, 'AnyException')
        return SV(ValS, z3.Const(fresh_name('result'), Val))
    w.classes['ConnM'].methods.update({'recv': conn_recv, 'send': conn_send, 'close': conn_close})
    handle = Contract(
        'managers.Server.handle_request', prop=PROP, params={'self': ref('Server'), 'c': ref('ConnM')},
        externals={'connection.deliver_challenge': ext_challenge, 'connection.answer_challenge': ext_challenge,
                   'getattr<dynamic>': lambda ex, a, k: SV(ValS, z3.Const('the_public_method', Val)),
                   '<callable>': ext_dispatch, 'traceback.format_exc': lambda ex, a, k: SV(ValS, z3.Const(fresh_name('tb'), Val)),
                   'managers.format_exc': lambda ex, a, k: SV(ValS, z3.Const(fresh_name('tb'), Val)),
                   'builtins.contains<opaque>': lambda ex, a, k: BoolS.fresh('is_public')},
        requires={'fresh_connection': 'g.auth_steps == 0 and g.dispatched == 0 and g.closed == 0 and g.received == 0 and '
                                      'g.sent == 0 and not g.send_fails'},
        modifies=['g.auth_steps', 'g.dispatched', 'g.sent', 'g.closed', 'g.received', 'g.send_fails'],
        ensures={
            'talking_to_the_server_requires_the_key': 'implies(g.received > 0 or g.dispatched > 0, g.auth_steps == 2)',
            'at_most_one_method_runs_per_connection': 'g.dispatched <= 1',
            'an_answer_is_sent_unless_the_connection_fails': 'g.sent == 1 or g.send_fails',
            'connection_closed': 'g.closed == 1',
        },
    )
    return [incref, decref, create, handle]


MANIFEST_ENTRY = {
    'text': 'PARTIAL (the server\'s tables and the dispatch gate; proxy semantics and concurrent clients are out of reach).  '
            'Proof of the sequential core of the manager server: with the invariant "every counted object is in the object table '
            'and has at least one reference", incref adds exactly one reference to exactly that object; decref gives one up, the '
            'object stays in the table while a reference is left and is disposed of (both tables) with the last one, and '
            'refuses to go below zero; create registers the new referent with exactly the creator\'s reference; none of them '
            'touches another object\'s entries, and the tables are only touched while the server mutex is held (guarded-by '
            'obligations).  handle_request runs both challenges before it reads a request, dispatches at most one public '
            'method and only after both challenges returned, always answers (the error text if the method raised) and always '
            'closes the connection.',
    'note': 'Sequential core only: atomicity under concurrent clients is reduced to the mutex discipline; that proxy operations '
            'return what local ones would, serve_client\'s exposed-method gate, and the proxies\' own incref/decref calls '
            '(finalizers) are not under contract.  The challenge functions are used through C18\'s contracts (here: return or '
            'raise).',
}
