"""C11 -- worker restarts are rate limited and the budget is restored."""
from pyvc.api import *

PROP = 'C11'


def ext_monotonic(ex, args, kw):
    """time.monotonic(): positive, non-decreasing (ghost clock g.now)"""
    now = gget(ex, 'now')
    r = RealS.fresh('monotonic')
    ex.path.assume(z3.And(r.e > 0, r.e >= now.e))
    gset(ex, 'now', r)
    return r


def build(w):
    w.cls('g', fields={'now': RealS})
    w.cls('restart_state', module='common',
          fields={'maxR': opt(IntS), 'maxT': RealS, 'R': IntS, 'T': opt(RealS)})
    w.externals['time.monotonic'] = ext_monotonic

    step = Contract(
        'common.restart_state.step', prop=PROP,
        params={'self': ref('restart_state'), 'now': opt(RealS)},
        requires={
            'R_nonneg': 'self.R >= 0',
            'maxT_pos': 'self.maxT > 0',
            'now_pos': 'now is None or now > 0',
            'clock_pos': 'g.now > 0',
            'T_past': 'self.T is None or (0 < self.T and (self.T <= now if now is not None else self.T <= g.now))',
            'maxR_nonneg': 'self.maxR is None or self.maxR >= 0',
        },
        modifies=['self.R', 'self.T', 'g.now'],
        lets={
            't': 'now if now is not None else g.now',
            'expired': 'old(self.T) is not None and t - val(old(self.T)) >= self.maxT',
            'exhausted': 'not expired and self.maxR is not None and self.maxR != 0 and old(self.R) >= self.maxR',
        },
        ensures={
            'expired_restarts_count': 'implies(expired, self.T == t and self.R == 1)',
            'admitted_counts': 'implies(not expired, self.R == old(self.R) + 1 and '
                               '(self.T == old(self.T) if old(self.T) is not None else self.T == t))',
            'never_admits_beyond_budget': 'not exhausted',
            'clock_monotone': 'g.now >= old(g.now)',
        },
        raises={'RestartFreqExceeded': {
            'only_when_exhausted': 'exhausted',
            'count_reset': 'self.R == 0',
            'window_kept': 'self.T == old(self.T)',
        }},
    )
    init = Contract(
        'common.restart_state.__init__', prop=PROP,
        params={'self': ref('restart_state'), 'maxR': opt(IntS), 'maxT': RealS},
        modifies=['self.maxR', 'self.maxT', 'self.R', 'self.T'],
        ensures={'budget': 'self.maxR == maxR and self.maxT == maxT',
                 'fresh_window': 'self.R == 0 and self.T is None'},
    )
    return [step, init]
