"""C11 -- worker restarts are rate limited and the budget is restored."""
from pyvc.api import *
import pool_shared as ps

PROP = 'C11'
REPLAYERS = {'common.restart_state.step': 'replayers/restart_state.py',
             'common.restart_state.__init__': 'replayers/restart_state.py',
             'pool.ResultHandler._make_methods.<locals>.on_ack': 'replayers/result_handler.py',
             'pool.Supervisor.body': 'replayers/supervisor_body.py'}

ASSUMPTIONS = [
    'A-float: clock arithmetic is exact (SMT reals); IEEE rounding of monotonic() differences is not modelled',
    'time.monotonic() is positive and non-decreasing (assumed contract); step() is only called with now=None by billiard (call sites checked: _repopulate_pool)',
    'process creation (_create_worker_process) is an assumed contract: one fork, appends one worker, does not touch the limiter',
    'A-atomic: handlers (supervision tick, on_ack) do not interleave below handler granularity',
]
OUT_OF_REACH = []
TRUSTED = ['lemmas_C11.window_step / first_step are proof scripts over the step contract (induction step and base of the per-window budget argument); the induction principle itself (R counts admitted steps) is the usual meta-argument']


def ext_create_worker(ex, args, kw):
    """Pool._create_worker_process(i): assumed -- forks once, appends one
    worker handle with index i to the pool list; touches nothing else"""
    self = args[0]
    gset(ex, 'forks', SV(IntS, gget(ex, 'forks').e + 1))
    pool = ex.path.read_field(self, '_pool')
    wk = SRef(ref('WorkerP'), ex.path.new_id())
    ex.path.write_field(wk, 'index', args[1])
    from pyvc.builtins_impl import container_method
    container_method(ex, pool, 'append', [wk], {})
    return wk


def ext_avail_index(ex, args, kw):
    r = IntS.fresh('avail')
    return r


BAD = '(at(exitcodes, k) is None or (at(exitcodes, k) != 0 and at(exitcodes, k) != 155))'


def build(w):
    ps.declare(w)
    step = ps.step_contract(PROP)
    init = ps.init_rs_contract(PROP)

    repopulate = Contract(
        'pool.Pool._repopulate_pool', prop=PROP,
        params={'self': ref('Pool'), 'exitcodes': list_of(opt(IntS))},
        externals={'pool.Pool._create_worker_process': ext_create_worker,
                   'pool.Pool._avail_index': ext_avail_index},
        requires={
            'limiter_wf': 'self.restart_state.R >= 0 and self.restart_state.maxT > 0 and g.now > 0 and '
                          '(self.restart_state.maxR is None or self.restart_state.maxR >= 0) and '
                          '(self.restart_state.T is None or (0 < self.restart_state.T and self.restart_state.T <= g.now))',
            'lens': 'len(self._pool) >= 0 and len(exitcodes) >= 0',
        },
        modifies=['self.restart_state.R', 'self.restart_state.T', 'g.now', 'g.steps', 'g.forks',
                  'self._pool.*', 'WorkerP.index'],
        lets={'missing': 'self._processes - old(len(self._pool))'},
        # spec function nbad(k) = number of abnormal / unknown exit statuses
        # among the first k missing workers, defined by recursion on k
        defs={'nbad': ('k', 'implies(k >= 0, g.nbad[0] == 0 and g.nbad[k + 1] == g.nbad[k] + '
                            'ite((k >= len(exitcodes) and len(exitcodes) > 0) or '
                            '(k < len(exitcodes) and %s), 1, 0))' % BAD)},
        instantiate={'nbad': ['0']},
        loops={0: {
            'instantiate': {'nbad': ['_i']},
            'inv': {
                'forks_count': 'g.forks == old(g.forks) + _i',
                'steps_exactly_for_abnormal_exits': 'g.steps == old(g.steps) + g.nbad[_i]',
                'limiter_wf': 'self.restart_state.R >= 0 and g.now > 0 and (self.restart_state.T is None or '
                              '(0 < self.restart_state.T and self.restart_state.T <= g.now))',
                'pool_grows': 'len(self._pool) == old(len(self._pool)) + _i',
                'nbad_nonneg': 'g.nbad[_i] >= 0',
            },
            'modifies': ['self.restart_state.R', 'self.restart_state.T', 'g.now', 'g.steps', 'g.forks',
                         'self._pool.*', 'WorkerP.index'],
        }},
        ensures={
            'forks_bounded_by_missing': 'g.forks - old(g.forks) <= ite(missing > 0, missing, 0)',
            'clean_exits_consume_no_budget':
                'implies(g.forks - old(g.forks) == missing and missing > 0, g.steps == old(g.steps) + g.nbad[missing])',
            'restored_when_running': 'implies(self._state == 0 and missing > 0, len(self._pool) == self._processes)',
        },
        raises={'RestartFreqExceeded': {
            'raised_instead_of_forking': 'g.forks - old(g.forks) < missing',
            'only_after_an_abnormal_exit': 'g.steps > old(g.steps)',
        }},
    )

    on_ack = Contract(
        'pool.ResultHandler._make_methods.<locals>.on_ack', prop=PROP,
        params={'job': IntS, 'i': opt(IntS), 'time_accepted': RealS, 'pid': IntS, 'synqW_fd': opt(IntS)},
        free={'restart_state': ref('restart_state'), 'cache': dict_of(IntS, ref('Job'))},
        externals={'pool.ApplyResult._ack': lambda ex, a, k: SNone()},
        modifies=['restart_state.R', 'Job.*', 'cache.*'],
        ensures={'budget_restored_on_acceptance': 'restart_state.R == 0'},
    )

    body = Contract(
        'pool.Supervisor.body', prop=PROP,
        params={'self': ref('Supervisor')},
        externals={'pool.Pool._maintain_pool': ext_maintain_probe,
                   'pool.Pool.close': lambda ex, a, k: SNone(),
                   'pool.Pool.join': lambda ex, a, k: SNone()},
        requires={'procs': 'self.pool._processes >= 1'},
        modifies=['self.pool.restart_state', 'g.now', 'g.sleeps', 'g.burst_ticks', 'g.normal_ticks',
                  'restart_state.*', 'g.steps', 'g.forks'],
        loops={
            0: {'inv': {'burst_limiter_in_force':
                        'fresh(self.pool.restart_state) and self.pool.restart_state.maxR == 10 * self.pool._processes '
                        'and self.pool.restart_state.maxT == 1',
                        'no_normal_tick_yet': 'g.normal_ticks == old(g.normal_ticks)',
                        'prev': 'prev_state == old(self.pool.restart_state) and pool == self.pool'},
                'modifies': ['g.now', 'g.sleeps', 'g.burst_ticks', 'restart_state.R', 'restart_state.T', 'g.steps', 'g.forks']},
            1: {'inv': {'configured_limiter_restored': 'self.pool.restart_state == old(self.pool.restart_state)',
                        'pool': 'pool == self.pool'},
                'modifies': ['g.now', 'g.sleeps', 'g.normal_ticks', 'restart_state.R', 'restart_state.T', 'g.steps', 'g.forks']},
        },
        ensures={'configured_limiter_restored': 'self.pool.restart_state == old(self.pool.restart_state)'},
        raises={'RestartFreqExceeded': {'t': 'True'}},
    )
    w.classes['g'].fields.update({'burst_ticks': IntS, 'normal_ticks': IntS})

    common = {'wf': 'rs.R >= 0 and rs.maxT > 0 and g.now > 0 and rs.maxR is not None and rs.maxR >= 1'}
    # induction step of "at most max_restarts replacements are admitted within
    # one window and the next one raises": with R == number admitted so far in
    # this window (R is incremented by exactly one per admitted step and reset
    # only by expiry, on_ack or the raise), a step inside the window is admitted
    # iff R < maxR and otherwise raises without counting.
    window = Contract(
        'lemmas_C11.window_step', prop=PROP,
        params={'rs': ref('restart_state')},
        requires=dict(common, window_open='rs.T is not None and 0 < rs.T and rs.T <= g.now'),
        modifies=['rs.R', 'rs.T', 'g.now', 'g.steps'],
        lets={'inside': 'g.now - val(old(rs.T)) < rs.maxT'},
        ensures={
            'admitted_only_below_budget': 'implies(inside, old(rs.R) < rs.maxR)',
            'admitted_is_counted': 'implies(inside, rs.R == old(rs.R) + 1 and rs.T == old(rs.T))',
            'expiry_starts_afresh': 'implies(not inside, rs.R == 1 and rs.T == g.now)',
        },
        raises={'RestartFreqExceeded': {
            'only_at_budget': 'inside and old(rs.R) >= rs.maxR',
            'not_counted': 'rs.R == 0 and rs.T == old(rs.T)',
        }},
    )
    first = Contract(
        'lemmas_C11.first_step', prop=PROP,
        params={'rs': ref('restart_state')},
        requires=dict(common, no_window='rs.T is None and rs.R == 0'),
        modifies=['rs.R', 'rs.T', 'g.now', 'g.steps'],
        ensures={'window_opened_by_first_restart': 'rs.T == g.now and rs.R == 1'},
    )
    return [step, init, repopulate, on_ack, body, window, first]


def ext_maintain_probe(ex, args, kw):
    """Pool._maintain_pool() as seen from Supervisor.body: counts the tick
    under the limiter that is installed at that moment (ghost), may raise
    RestartFreqExceeded, may change the limiter's counters"""
    pool = args[0]
    rs = ex.path.read_field(pool, 'restart_state')
    is_burst = rs.id >= ex.path.alloc0
    if ex.path.decide(is_burst):
        gset(ex, 'burst_ticks', SV(IntS, gget(ex, 'burst_ticks').e + 1))
    else:
        gset(ex, 'normal_ticks', SV(IntS, gget(ex, 'normal_ticks').e + 1))
    ex.path.havoc_field_at(rs, 'R')
    ex.path.havoc_field_at(rs, 'T')
    if ex.path.choose(2) == 1:
        raise_exc(ex, 'RestartFreqExceeded')
    return SNone()

MANIFEST_ENTRY = {
    'text': 'Proof (unbounded, all inputs): restart_state.step is verified against a three-case postcondition taken from the '
            'statement (expiry restarts the count; at most max_restarts admitted per window, the next raises and is not counted; '
            'first restart opens the window) for all R, T, maxR, maxT, now; _repopulate_pool is proved (loop invariant, all pool '
            'sizes and exit-code lists) to call step exactly once per missing worker with an abnormal or unknown status, before '
            'forking, and to fork nothing in the iteration that raises; on_ack resets the count; Supervisor.body installs the '
            '10-per-slot-per-second burst limiter for the start-up rounds and restores the configured one. The per-window budget '
            'argument is closed by two proof scripts over the step contract (induction base and step).',
    'note': 'Assumes: clock arithmetic exact (reals), monotonic() positive and non-decreasing, _create_worker_process forks once '
            'and does not touch the limiter (assumed contract), handlers atomic w.r.t. each other. Nothing of C11 is out of reach.',
}
