"""Worker.after_fork and soft_timeout_sighandler (shared by C06 and C08): what the child sets up before it takes jobs --
the exit flag cleared, the termination handlers installed after that, the soft-time-limit handler installed for the
soft-timeout signal, the initializer run once."""
from pyvc.api import *

SIGUSR1, SIGINT = 10, 2


def fork_contracts(w, PROP):
    g = w.classes['g']
    g.fields.update({'af_ev': IntS, 'af_flag_cleared_at': IntS, 'af_reset_at': IntS, 'af_reset_full': BoolS,
                     'af_handler': MapS(IntS, ValS), 'af_set_at': MapS(IntS, IntS), 'af_init_calls': IntS,
                     'af_init_args_ok': BoolS, 'af_closed': IntS, 'af_exit_flag': list_of(BoolS)})
    HANDLER = z3.Const('soft_timeout_sighandler', Val)
    from pyvc.core import box
    IGN = box(mk_int(1))            # signal.SIG_IGN (the engine reads the constants of the signal module: SIGINT 2, SIG_IGN 1)

    def tick(ex):
        n = gget(ex, 'af_ev').e + 1
        gset(ex, 'af_ev', SV(IntS, n))
        return n

    def flag(ex):
        return gget(ex, 'af_exit_flag')
    w.cls('PipeEndW', fields={}, methods={'close': lambda ex, a, k: (
        gset(ex, 'af_closed', SV(IntS, gget(ex, 'af_closed').e + 1)), SNone())[1]})
    w.cls('QW', fields={'_writer': ref('PipeEndW'), '_reader': ref('PipeEndW')})
    w.cls('WorkerAF', module='pool', pyname='Worker', fields={
        'inq': ref('QW'), 'outq': ref('QW'), 'initializer': opt(ValS), 'initargs': ValS, 'sigprotection': BoolS})

    def ext_signal(ex, args, kw):
        """signal.signal(num, handler)"""
        num = coerce(ex.path, args[0], IntS)
        h = args[1]
        from pyvc.core import VFunc
        if isinstance(h, VFunc):
            hv = HANDLER if h.qualname.endswith('soft_timeout_sighandler') else z3.Const('handler:' + h.qualname, Val)
        else:
            hv = coerce(ex.path, h, ValS).e
        m = gget(ex, 'af_handler')
        gset(ex, 'af_handler', m.shape.store(m, num, SV(ValS, hv)))
        at = gget(ex, 'af_set_at')
        gset(ex, 'af_set_at', at.shape.store(at, num, SV(IntS, tick(ex))))
        return SV(ValS, z3.Const(fresh_name('previous_handler'), Val))

    def ext_reset(ex, args, kw):
        """common.reset_signals(full=...): installs the termination handler (_shutdown_cleanup, C08) -- assumed here"""
        fl = flag(ex)
        items = ex.path.read_field(fl, 'items')
        # (a termination signal that arrives right after the handlers are in place must not look like a second one)
        prove(ex, 'termination.handlers_installed_with_the_exit_flag_already_cleared',
              z3.Not(items.shape.select(items, mk_int(0)).e))
        gset(ex, 'af_reset_at', SV(IntS, tick(ex)))
        gset(ex, 'af_reset_full', coerce(ex.path, kw.get('full', mk_bool(False)), BoolS))
        return SNone()

    def ext_init(ex, args, kw):
        """self.initializer(*self.initargs)"""
        me = ex.root.scopes[0]['self']
        gset(ex, 'af_init_calls', SV(IntS, gget(ex, 'af_init_calls').e + 1))
        tick(ex)
        if ex.path.choose(2) == 1:
            raise_exc(ex, 'AnyException')
        return SNone()
    w.spec_funcs['the_soft_handler'] = lambda ex: SV(ValS, HANDLER)
    w.spec_funcs['sig_ign'] = lambda ex: SV(ValS, IGN)
    w.global_overrides['pool._should_have_exited'] = flag
    w.global_overrides['common._should_have_exited'] = flag
    w.global_overrides['pool.SIG_SOFT_TIMEOUT'] = lambda ex: mk_int(SIGUSR1)
    after_fork = Contract(
        'pool.Worker.after_fork', prop=PROP, params={'self': ref('WorkerAF')},
        externals={'signal.signal': ext_signal, 'pool.reset_signals': ext_reset, 'common.reset_signals': ext_reset,
                   '<callable>': ext_init, 'builtins.hasattr': lambda ex, a, k: mk_bool(True),
                   'signal.SIGINT': lambda ex, a=None, k=None: mk_int(SIGINT),
                   'signal.SIG_IGN': lambda ex, a=None, k=None: SV(ValS, IGN)},
        requires={'objects': 'allocated(self.inq) and allocated(self.outq) and allocated(self.inq._writer) and '
                             'allocated(self.outq._reader) and allocated(g.af_exit_flag) and len(g.af_exit_flag) == 1',
                  'fresh': 'g.af_ev == 0 and g.af_init_calls == 0 and g.af_closed == 0 and g.af_reset_at == 0 and '
                           'g.af_set_at[%d] == 0 and g.af_set_at[%d] == 0' % (SIGUSR1, SIGINT)},
        modifies=['g.af_ev', 'g.af_flag_cleared_at', 'g.af_reset_at', 'g.af_reset_full', 'g.af_handler', 'g.af_set_at',
                  'g.af_init_calls', 'g.af_init_args_ok', 'g.af_closed', 'g.af_exit_flag.*'],
        ensures={
            # C06: the soft time limit reaches the task as an exception raised by this handler, in the worker
            'soft_timeout_handler_installed_for_the_soft_timeout_signal': 'g.af_handler[%d] == the_soft_handler()' % SIGUSR1,
            # C08: the exit flag may have been inherited set from the parent; it is cleared, and the termination handlers are
            # installed (with the worker's protection level) only after that
            'exit_flag_cleared': 'not at(g.af_exit_flag, 0)',
            'termination_handlers_installed_once': 'g.af_reset_at > 0 and g.af_reset_full == self.sigprotection',
            'soft_timeout_handler_installed_after_the_termination_handlers': 'g.af_set_at[%d] > g.af_reset_at' % SIGUSR1,
            'interrupts_from_the_terminal_are_ignored': 'g.af_handler[%d] == sig_ign()' % SIGINT,
            'initializer_runs_once_before_the_handlers': 'g.af_init_calls == ite(self.initializer is None, 0, 1)',
            'unused_pipe_ends_closed': 'g.af_closed == 2',
        },
        raises={'AnyException': {'only_from_the_initializer': 'g.af_init_calls == 1 and g.af_reset_at == 0'}},
    )
    handler = Contract(
        'pool.soft_timeout_sighandler', prop=PROP, params={'signum': IntS, 'frame': ValS},
        ensures={'never_returns': 'False'},
        raises={'SoftTimeLimitExceeded': {'always': 'True'}},
    )
    return [after_fork, handler]
