"""C16, second part -- SimpleQueue (the queues the pool itself talks to its workers through): one whole message per
lock-protected pipe operation."""
from pyvc.api import *


def simple_queue_contracts(w, PROP, pickled):
    g = w.classes['g']
    g.fields.update({'sq_sent': IntS, 'sq_received': IntS, 'sq_last_sent': ValS, 'sq_payload': ValS})

    def enter(ex, a, k):
        ex.path.write_field(a[0], 'depth', SV(IntS, ex.path.read_field(a[0], 'depth').e + 1))
        return SNone()

    def leave(ex, a, k):
        ex.path.write_field(a[0], 'depth', SV(IntS, ex.path.read_field(a[0], 'depth').e - 1))
        return SNone()
    w.cls('PLock', fields={'depth': IntS}, methods={'with_enter': enter, 'with_exit': leave})

    def recv_bytes(ex, args, kw):
        me = ex.root.scopes[0]['self']
        lock = ex.path.read_field(me, '_rlock')
        prove(ex, 'lock.a_whole_message_is_read_under_the_reader_lock',
              z3.And(z3.Not(lock.isnone), ex.path.read_field(lock.val, 'depth').e > 0))
        if ex.path.choose(2) == 1:
            raise_exc(ex, 'EOFError' if ex.path.choose(2) == 0 else 'OSError')
        gset(ex, 'sq_received', SV(IntS, gget(ex, 'sq_received').e + 1))
        return gget(ex, 'sq_payload')

    def send_bytes(ex, args, kw):
        me = ex.root.scopes[0]['self']
        lock = ex.path.read_field(me, '_wlock')
        prove(ex, 'lock.a_whole_message_is_written_under_the_writer_lock',
              z3.Or(lock.isnone, ex.path.read_field(lock.val, 'depth').e > 0))
        if ex.path.choose(2) == 1:
            raise_exc(ex, 'OSError')
        gset(ex, 'sq_sent', SV(IntS, gget(ex, 'sq_sent').e + 1))
        gset(ex, 'sq_last_sent', args[1])
        return SNone()
    w.cls('PipeEnd', fields={}, methods={'recv_bytes': recv_bytes, 'send_bytes': send_bytes})
    w.cls('SQ', module='queues', pyname='SimpleQueue', fields={
        '_reader': ref('PipeEnd'), '_writer': ref('PipeEnd'), '_rlock': opt(ref('PLock')), '_wlock': opt(ref('PLock'))})
    wf = ('allocated(self._reader) and allocated(self._writer) and self._reader != self._writer and self._rlock is not None and '
          'allocated(val(self._rlock)) and val(self._rlock).depth == 0 and '
          '(self._wlock is None or (allocated(val(self._wlock)) and val(self._wlock).depth == 0 and val(self._wlock) != val(self._rlock)))')
    locks_free = ('val(self._rlock).depth == 0 and (self._wlock is None or val(self._wlock).depth == 0)')
    mod = ['PLock.depth', 'g.sq_sent', 'g.sq_received', 'g.sq_last_sent']
    get_payload = Contract(
        'queues.SimpleQueue.get_payload', prop=PROP, params={'self': ref('SQ')},
        requires={'wf': wf}, modifies=mod, returns=ValS,
        ensures={'one_whole_message': 'g.sq_received == old(g.sq_received) + 1 and result == g.sq_payload and '
                                      'g.sq_sent == old(g.sq_sent)', 'locks_released': locks_free},
        raises={'EOFError': {'locks_released': locks_free, 'nothing_consumed': 'g.sq_received == old(g.sq_received)'},
                'OSError': {'locks_released': locks_free, 'nothing_consumed': 'g.sq_received == old(g.sq_received)'}},
    )
    send_payload = Contract(
        'queues.SimpleQueue.send_payload', prop=PROP, params={'self': ref('SQ'), 'value': ValS},
        requires={'wf': wf}, modifies=mod,
        ensures={'one_whole_message': 'g.sq_sent == old(g.sq_sent) + 1 and g.sq_last_sent == value and '
                                      'g.sq_received == old(g.sq_received)', 'locks_released': locks_free},
        raises={'OSError': {'locks_released': locks_free, 'nothing_sent': 'g.sq_sent == old(g.sq_sent)'}},
    )
    w.contracts['queues.SimpleQueue.get_payload'] = get_payload
    w.contracts['queues.SimpleQueue.send_payload'] = send_payload
    Unpickled = z3.Function('unpickled', Val, Val)
    w.spec_funcs['unpickled'] = lambda ex, v: SV(ValS, Unpickled(v.e))
    ext_loads = lambda ex, a, k: SV(ValS, Unpickled(a[-1].e))
    ext_dumps = lambda ex, a, k: SV(ValS, pickled(a[-1].e))
    pk = {'reduction.ForkingPickler.loads': ext_loads, 'reduction.ForkingPickler.dumps': ext_dumps,
          '_pickle.loads': ext_loads, 'pickle.loads': ext_loads, '_pickle.dumps': ext_dumps, 'pickle.dumps': ext_dumps,
          'queues.ForkingPickler.loads': ext_loads, 'queues.ForkingPickler.dumps': ext_dumps}
    get = Contract(
        'queues._SimpleQueue.get', prop=PROP, params={'self': ref('SQ')}, externals=pk,
        requires={'wf': wf}, modifies=mod, returns=ValS,
        ensures={'the_message_read_unpickled_after_the_lock_was_released':
                 'result == unpickled(g.sq_payload) and g.sq_received == old(g.sq_received) + 1', 'locks_released': locks_free},
        raises={'EOFError': {'locks_released': locks_free}, 'OSError': {'locks_released': locks_free}},
    )
    put = Contract(
        'queues._SimpleQueue.put', prop=PROP, params={'self': ref('SQ'), 'obj': ValS}, externals=pk,
        requires={'wf': wf}, modifies=mod,
        ensures={'the_object_pickled_and_sent_once_as_one_message':
                 'g.sq_sent == old(g.sq_sent) + 1 and g.sq_last_sent == pickled(obj)', 'locks_released': locks_free},
        raises={'OSError': {'locks_released': locks_free, 'nothing_sent': 'g.sq_sent == old(g.sq_sent)'}},
    )
    return [get_payload, send_payload, get, put]
