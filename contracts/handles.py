"""Contracts of the job handles (ApplyResult and friends) and the assumed
contracts of what they call.  Used by C01, C03, C04, C05, C06, C07, C10."""
from pyvc.api import *
from pyvc.executor import PyDict

_is_hook = z3.Function('is_hook', Val, z3.BoolSort())
_einfo = z3.Function('einfo', Val, Val)


def spec_is_hook(ex, v):
    """is_hook(x): x is None or an internal hook (supplied by the embedding
    application, assumed not to raise) rather than a user callback"""
    if isinstance(v, SNone):
        return mk_bool(True)
    if isinstance(v, SOpt):
        return SV(BoolS, z3.Or(v.isnone, _is_hook(v.val.e)))
    return SV(BoolS, _is_hook(v.e))


def spec_einfo(ex, v):
    return SV(ValS, _einfo(box(v)))


def spec_exc(name, nargs):
    def f(ex, *args):
        return SV(ValS, box(VExc(name, list(args))))
    return f


def ext_callable(ex, args, kw):
    """a foreign callable (user callback / hook / task function): assumed not
    to touch pool state.  Counts the call (ghost g.ncalls[fn]).  A hook returns
    normally; a user callback may also raise Exception, MemoryError or a
    non-Exception BaseException."""
    fn = args[0]
    nc = gget(ex, 'ncalls')
    cur = nc.shape.select(nc, fn)
    gset(ex, 'ncalls', nc.shape.store(nc, fn, SV(IntS, cur.e + 1)))
    if ex.path.decide(_is_hook(fn.e)):
        return SV(ValS, z3.Const(fresh_name('hookret'), Val))
    k = ex.path.choose(4)
    if k == 0:
        return SV(ValS, z3.Const(fresh_name('cbret'), Val))
    gset(ex, 'cb_raised', mk_bool(True))
    raise_exc(ex, ['AnyException', 'MemoryError', 'AnyBaseException'][k - 1])


def ext_einfo(ex, args, kw):
    """ExceptionInfo(): a record of the exception being handled"""
    if not ex.handling:
        return SV(ValS, z3.Const(fresh_name('einfo_noexc'), Val))
    return SV(ValS, _einfo(box(ex.handling[-1])))


def ev_is_set(ex, args, kw):
    return ex.path.read_field(args[0], 'flag')


def ev_set(ex, args, kw):
    ex.path.write_field(args[0], 'flag', mk_bool(True))
    return SNone()


def ev_wait(ex, args, kw):
    return ex.path.read_field(args[0], 'flag')


def ext_human_status(ex, args, kw):
    fn = z3.Function('human_status', Val, Val)
    return SV(ValS, fn(box(args[0])))


def ext_format(ex, args, kw):
    """str.format(*args): a function of its arguments"""
    es = [box(a) for a in args[1:]]
    fn = z3.Function('format%d' % len(es), *([Val] * len(es) + [Val]))
    return SV(ValS, fn(*es))


def declare_handles(w, kind='apply'):
    w.cls('Event', fields={'flag': BoolS},
          methods={'is_set': ev_is_set, 'set': ev_set, 'wait': ev_wait})
    g = w.classes['g']
    g.fields.update({
        'ncalls': MapS(ValS, IntS),         # calls per foreign callable
        'assigned': MapS(IntS, IntS),       # _set invocations per job id
        'releases': IntS,                   # LaxBoundedSemaphore.release() calls
        'acks_sent': IntS,
        'cb_raised': BoolS,                 # some user callback has raised
        'next_job': IntS,                   # next value of job_counter
    })
    J = w.classes['Job']
    if J.fields.pop('_event_flag', None) is not None:
        J.fields['_event'] = ref('Event')
    w.externals['<callable>'] = ext_callable
    w.externals['einfo.ExceptionInfo'] = ext_einfo
    w.externals['common.human_status'] = ext_human_status
    w.externals['<opaque>.format'] = ext_format
    w.spec_funcs['is_hook'] = spec_is_hook
    w.spec_funcs['einfo'] = spec_einfo
    w.spec_funcs['TimeLimitExceeded'] = spec_exc('TimeLimitExceeded', 1)
    w.spec_funcs['Terminated'] = spec_exc('Terminated', 1)
    w.inline |= {'pool.ApplyResult.ready', 'pool.ApplyResult.safe_apply_callback',
                 'pool.ApplyResult.worker_pids', 'pool.ApplyResult.accepted'}


JOB_INV = {
    'hooks_do_not_raise': 'is_hook(self._on_timeout_cancel) and is_hook(self._on_timeout_set) and is_hook(self._send_ack)',
    'cache_allocated': 'allocated(self._cache) and allocated(self._event)',
    # callables are truthy objects (functions, bound methods, partials)
    'callables_truthy': ' and '.join('(self.%s is None or truthy(self.%s))' % (f, f) for f in (
        '_callback', '_error_callback', '_accept_callback', '_timeout_callback',
        '_on_timeout_set', '_on_timeout_cancel', '_send_ack')),
}


def ghost_assigned(ex):
    self = ex.lookup('self')
    a = gget(ex, 'assigned')
    j = ex.path.read_field(self, '_job')
    gset(ex, 'assigned', a.shape.store(a, j, SV(IntS, a.shape.select(a, j).e + 1)))


SET_STATE = {
    'event_set': 'self._event.flag',
    'own_outcome': 'self._success == obj[0] and self._value == obj[1]',
    'removed_iff_accepted': 'has(self._cache, self._job) == (old(has(self._cache, self._job)) and not self._accepted)',
    'other_jobs_stay_in_cache': 'only_key_changed(self._cache, self._job)',
    'counted': 'g.assigned[self._job] == old(g.assigned[self._job]) + 1',
    'only_own_count': 'map_only_changed(g.assigned, old(g.assigned), self._job)',
}
SET_CALLBACKS = {
    'success_callback_at_most_once': 'implies(self._callback is not None, '
        'g.ncalls[val(self._callback)] <= old(g.ncalls[val(self._callback)]) + 1 + '
        'ite(self._on_timeout_cancel is not None and self._on_timeout_cancel == self._callback, 1, 0))',
    'never_both_callbacks': 'implies(self._callback is not None and self._error_callback is not None '
        'and self._callback != self._error_callback and self._on_timeout_cancel != self._callback '
        'and self._on_timeout_cancel != self._error_callback, '
        'g.ncalls[val(self._callback)] == old(g.ncalls[val(self._callback)]) or '
        'g.ncalls[val(self._error_callback)] == old(g.ncalls[val(self._error_callback)]))',
    'success_callback_only_on_success': 'implies(self._callback is not None and not obj[0] '
        'and self._on_timeout_cancel != self._callback and self._error_callback != self._callback, '
        'g.ncalls[val(self._callback)] == old(g.ncalls[val(self._callback)]))',
    'error_callback_only_on_failure': 'implies(self._error_callback is not None and obj[0] '
        'and self._on_timeout_cancel != self._error_callback and self._error_callback != self._callback, '
        'g.ncalls[val(self._error_callback)] == old(g.ncalls[val(self._error_callback)]))',
}


def set_contract(prop):
    st = dict(SET_STATE)
    return Contract(
        'pool.ApplyResult._set', prop=prop,
        params={'self': ref('Job'), 'i': opt(IntS), 'obj': tup(BoolS, ValS)},
        requires=JOB_INV,
        modifies=['self._success', 'self._value', 'self._event.flag', 'self._cache.has',
                  'self._cache.size', 'g.ncalls', 'g.assigned', 'g.cb_raised'],
        ghost_entry=ghost_assigned,
        ensures=dict(st, **SET_CALLBACKS),
        raises={'MemoryError': dict(st, cb='g.cb_raised'), 'AnyException': dict(st, cb='g.cb_raised'),
                'AnyBaseException': dict(st, cb='g.cb_raised')},
    )


ACK_STATE = {
    'accepted': 'self._accepted',
    'removed_iff_ready': 'has(self._cache, self._job) == (old(has(self._cache, self._job)) and '
                         '(not self._event.flag or refused))',
    'other_jobs_stay_in_cache': 'only_key_changed(self._cache, self._job)',
    'outcome_untouched': 'self._success == old(self._success) and self._value == old(self._value) '
                         'and self._event.flag == old(self._event.flag)',
}
ACK_OWNER = {
    'owner_recorded': 'implies(not refused, '
                      'self._worker_pid == pid and self._time_accepted == time_accepted)',
    'refused_when_cancelled': 'implies(refused, '
                              'self._worker_pid == old(self._worker_pid) and self._time_accepted == old(self._time_accepted))',
}


def ack_contract(prop):
    st = dict(ACK_STATE, **ACK_OWNER)
    return Contract(
        'pool.ApplyResult._ack', prop=prop,
        params={'self': ref('Job'), 'i': opt(IntS), 'time_accepted': RealS, 'pid': IntS,
                'synqW_fd': opt(IntS)},
        requires=JOB_INV,
        modifies=['self._accepted', 'self._time_accepted', 'self._worker_pid', 'self._cache.has',
                  'self._cache.size', 'g.ncalls', 'g.cb_raised'],
        returns=ValS,
        # same test as the code: a cancelled job is refused when the handshake is in use
        lets={'refused': 'old(self._cancelled) and self._send_ack'},
        ensures=dict(st, accept_callback_once='implies(self._accept_callback is not None and '
                     'not refused and '
                     'self._accept_callback != self._on_timeout_set and self._accept_callback != self._send_ack, '
                     'g.ncalls[val(self._accept_callback)] == old(g.ncalls[val(self._accept_callback)]) + 1)'),
        # the accept callback raised a non-Exception BaseException, or the
        # (unset) attribute named by the except clause was evaluated
        raises={'AnyBaseException': st, 'AttributeError': st},
    )


TERM_FRAME = {
    'only_own_cache_entry': 'only_key_changed(self._cache, self._job)',
    'only_own_count': 'map_only_changed(g.assigned, old(g.assigned), self._job)',
}


def set_terminated_contract(prop):
    return Contract(
        'pool.ApplyResult._set_terminated', prop=prop,
        params={'self': ref('Job'), 'signum': opt(IntS)},
        requires=JOB_INV,
        modifies=['self._success', 'self._value', 'self._event.flag', 'self._cache.has',
                  'self._cache.size', 'g.ncalls', 'g.assigned', 'g.cb_raised'],
        lets={'code': '-(val(signum) if signum is not None and signum != 0 else 0)'},
        ensures=dict(TERM_FRAME, failed_with_terminated='self._event.flag and not self._success and '
                                                        'self._value == einfo(Terminated(code))',
                     counted='g.assigned[self._job] == old(g.assigned[self._job]) + 1'),
        raises={'MemoryError': dict(TERM_FRAME, t='self._event.flag and not self._success'),
                'AnyException': dict(TERM_FRAME, t='self._event.flag and not self._success'),
                'AnyBaseException': dict(TERM_FRAME, t='self._event.flag and not self._success')},
    )


def discard_contract(prop):
    return Contract(
        'pool.ApplyResult.discard', prop=prop,
        params={'self': ref('Job')},
        modifies=['self._cache.has', 'self._cache.size'],
        ensures={'removed': 'not has(self._cache, self._job)',
                 'others_stay': 'only_key_changed(self._cache, self._job)'},
    )


def apply_handle_contracts(prop):
    return [set_contract(prop), ack_contract(prop), set_terminated_contract(prop), discard_contract(prop),
            init_contract(prop)]


# ---- construction ------------------------------------------------------------

def ext_next_job(ex, args, kw):
    """next(job_counter): itertools.count never repeats -- a fresh id, larger
    than every id handed out before (ghost g.next_job)"""
    from pyvc import builtins_impl
    from pyvc.core import VIter
    if args and isinstance(args[0], (VIter, PyList)):
        return builtins_impl.b_next(ex, args, kw)
    n = gget(ex, 'next_job')
    gset(ex, 'next_job', SV(IntS, n.e + 1))
    return n


def ext_event_new(ex, args, kw):
    e = SRef(ref('Event'), ex.path.new_id())
    ex.path.write_field(e, 'flag', mk_bool(False))
    return e


def ext_lock_new(ex, args, kw):
    return SV(ValS, z3.Const(fresh_name('lock'), Val))


def ext_count_new(ex, args, kw):
    return SV(ValS, z3.Const('job_counter', Val))


INIT_PARAMS = {
    'self': ref('Job'), 'cache': dict_of(IntS, ref('Job')), 'callback': opt(ValS),
    'accept_callback': opt(ValS), 'timeout_callback': opt(ValS), 'error_callback': opt(ValS),
    'soft_timeout': opt(RealS), 'timeout': opt(RealS), 'lost_worker_timeout': RealS,
    'on_timeout_set': opt(ValS), 'on_timeout_cancel': opt(ValS), 'callbacks_propagate': ValS,
    'send_ack': opt(ValS), 'correlation_id': ValS,
}


def init_contract(prop):
    """ApplyResult.__init__: every field the handlers rely on is initialised,
    the handle is filed under a fresh id"""
    return Contract(
        'pool.ApplyResult.__init__', prop=prop, params=INIT_PARAMS,
        externals={'builtins.next': ext_next_job, 'threading.Event': ext_event_new,
                   'threading.Lock': ext_lock_new, 'itertools.count': ext_count_new},
        requires={'fresh_ids': 'not has(cache, g.next_job)', 'cache': 'allocated(cache)'},
        modifies=['self.*', 'cache.has', 'cache.val', 'cache.size', 'g.next_job', 'Event.flag'],
        ensures={
            'fresh_id': 'self._job == old(g.next_job) and g.next_job == old(g.next_job) + 1',
            'filed_under_own_id': 'has(cache, self._job) and get(cache, self._job) == self and self._cache == cache',
            'other_entries_kept': 'only_key_changed(cache, self._job)',
            'unresolved_unaccepted': 'not self._event.flag and fresh(self._event) and not self._accepted and not self._cancelled '
                                     'and self._worker_pid is None and self._time_accepted is None and self._terminated is None',
            'limits_stored': 'self._timeout == timeout and self._soft_timeout == soft_timeout and '
                             'self._lost_worker_timeout == lost_worker_timeout',
            'callbacks_stored': 'self._callback == callback and self._error_callback == error_callback and '
                                'self._accept_callback == accept_callback and self._timeout_callback == timeout_callback and '
                                'self._on_timeout_set == on_timeout_set and self._on_timeout_cancel == on_timeout_cancel '
                                'and self._send_ack == send_ack',
        },
    )
