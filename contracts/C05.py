"""C05 -- hard time limit: job fails, its worker is really gone, pool stays usable."""
from pyvc.api import *
import pool_shared as ps
import handles as H
import timeouts as T
import worker as W
import C01 as c01

PROP = 'C05'
VARIANTS = ['apply', 'map', 'imap']
REPLAYERS = {'pool.TimeoutHandler.handle_timeouts': 'replayers/timeout_scan.py',
             'pool.Worker.workloop': 'replayers/workloop.py',
             'pool.TimeoutHandler.on_hard_timeout': 'replayers/hard_timeout.py',
             'pool.Pool.apply_async': 'replayers/apply_limits.py',
             'pool.TimeoutHandler._trywaitkill': 'replayers/hard_timeout.py'}

ASSUMPTIONS = [
    'A-clock: the worker\'s monotonic() that stamps the acceptance and the parent\'s are the same system-wide clock; clock arithmetic exact',
    'A-env: signals are delivered, SIGKILL terminates its target, waitpid reports the true status; os.getpgid/killpg/kill '
    'either act or raise OSError',
    'A-atomic: one scan does not interleave with the result handler below handler granularity',
    'the termination signal is modelled as arriving inside wait_for_job / wait_for_syn / the task / put (where the worker '
    'blocks or runs foreign code), acting as common._shutdown_cleanup does (sets the exit flag, raises SystemExit)',
]
OUT_OF_REACH = ['wall-clock bounds ("about one scan period", "shortly afterwards")',
                'a TERM/KILL landing while the worker holds the result-queue write lock',
                'replacement of the killed worker is the supervision tick (C09/C11)']


def build(w, variant='apply'):
    T.declare(w, variant)
    scan = T.scan_contract(PROP, variant)
    items = [scan]
    if variant == 'apply':
        ps.declare_submission(w)
        T.declare_kill(w)
        for c in H.apply_handle_contracts(PROP):
            w.contracts.setdefault(c.qualname, c)
        kill = T.trywaitkill_contract(PROP)
        w.contracts[kill.qualname] = kill
        # on_hard_timeout: C01's contract, now with _trywaitkill under its own
        # contract and the real _process_by_pid inlined
        hard0 = [c for c in c01.build(w) if c.qualname == 'pool.TimeoutHandler.on_hard_timeout'][0]
        T.declare(w, variant)
        ps.declare_submission(w)
        T.declare_kill(w)
        H.declare_handles(w, variant)
        hard = Contract(
            hard0.qualname, prop=PROP, params=hard0.params,
            inline=['pool.ApplyResult.handle_timeout', 'pool.TimeoutHandler._process_by_pid'],
            requires=dict(hard0.requires, nothing_sent_yet=kill.requires['nothing_sent_yet'],
                          procs='allocated(self.processes)',
                          workers_started='all(implies(0 <= k and k < len(self.processes), '
                                          'at(self.processes, k).pid is not None and at(self.processes, k)._popen is not None '
                                          'and allocated(val(at(self.processes, k)._popen))) for k in ints())'),
            modifies=hard0.modifies + kill.modifies,
            ensures=dict(hard0.ensures,
                         failed_before_the_worker_is_signalled='implies(g.term_sent or g.kill_sent, job._event.flag)',
                         # a job that already has its result when the scan reaches it is left alone, and so is its worker
                         a_resolved_job_costs_its_worker_nothing='implies(old(job._event.flag), not g.term_sent and not g.kill_sent)',
                         termination_signal_first='not g.kill_before_term or g.no_such_process'),
            raises=hard0.raises,
        )
        W.declare_worker(w)
        items += [kill, hard, ps.apply_async_contract(PROP), W.workloop_contract(PROP)]
    return items


MANIFEST_ENTRY = {
    'text': 'Proof (unbounded): one scan of TimeoutHandler.handle_timeouts is verified with loop invariants for every handle kind '
            '(apply / map / imap): on_hard_timeout is called only for a job whose effective hard limit (per-job value, else pool '
            'default) has expired; every job past its limit when the scan starts is failed in that scan; map and imap handles are '
            'never touched and never make the scan raise (refuted on the pinned tree and replayed: defect D6, fixed); '
            'on_hard_timeout fails exactly that job with TimeLimitExceeded before signalling and leaves a resolved job alone; '
            '_trywaitkill attempts TERM before any KILL and returns only with the worker gone or killed; apply_async stores the '
            'per-job limit in preference to the pool default; the worker loop leaves by the termination signal instead of taking '
            'further jobs (refuted on the pinned tree and replayed: defect D2, fixed).',
    'note': 'Signals/kernel behaviour and the common clock are assumed; wall-clock latencies and signals landing between arbitrary '
            'statements of the worker are out of reach.  If only a loop-invariant obligation of the scan fails, a bounded search '
            '(limits from {None,2,5} per job and pool, 8 scan instants) looks for a failing input on the real code.',
}
