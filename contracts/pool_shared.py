"""Declarations shared by the pool properties (C01-C11): object shapes
(DESIGN.md appendix D), ghost state, assumed contracts of externals."""
from pyvc.api import *

EX_OK, EX_FAILURE, EX_RECYCLE = 0, 1, 0x9B
RUN, CLOSE, TERMINATE = 0, 1, 2

KINDS = ['apply', 'map', 'imap', 'imapu']


def declare(w, kind='apply'):
    """kind selects the class of the handles in the cache for this world"""
    g = w.cls('g', fields={
        'now': RealS,                       # monotone clock
        'forks': IntS,                      # worker processes created
        'steps': IntS,                      # restart_state.step() invocations
        'nbad': MapS(IntS, IntS),           # prefix count of abnormal exit codes (spec function)
        'signals': IntS,                    # number of signals sent
        'sleeps': IntS,
    })
    w.cls('restart_state', module='common',
          fields={'maxR': opt(IntS), 'maxT': RealS, 'R': IntS, 'T': opt(RealS)})
    w.cls('Sem', module='pool', pyname='LaxBoundedSemaphore',
          fields={'_value': IntS, '_initial_value': IntS, '_cond': ValS})
    w.cls('Counter', fields={'value': IntS})
    w.cls('Popen', fields={'returncode': opt(IntS)})
    w.cls('WorkerP', fields={
        'pid': opt(IntS), 'index': IntS, 'exitcode': opt(IntS),
        '_popen': opt(ref('Popen')), '_controlled_termination': BoolS,
        '_job_terminated': BoolS, 'name': ValS, '_name': ValS, 'daemon': BoolS,
    })
    job_fields_apply = {
        '_job': IntS, '_cache': dict_of(IntS, ref('Job')), '_mutex': ValS,
        '_event_flag': BoolS, '_success': BoolS, '_value': ValS,
        '_accepted': BoolS, '_cancelled': BoolS, '_worker_pid': opt(IntS),
        '_time_accepted': opt(RealS), '_terminated': opt(IntS),
        '_timeout': opt(RealS), '_soft_timeout': opt(RealS),
        '_lost_worker_timeout': RealS,
        '_worker_lost': opt(tup(RealS, opt(IntS))),
        '_write_to': opt(ref('WorkerP')), '_scheduled_for': opt(ref('WorkerP')),
        '_callback': opt(ValS), '_error_callback': opt(ValS),
        '_accept_callback': opt(ValS), '_timeout_callback': opt(ValS),
        '_on_timeout_set': opt(ValS), '_on_timeout_cancel': opt(ValS),
        '_send_ack': opt(ValS), '_callbacks_propagate': ValS,
        'correlation_id': ValS,
    }
    if kind == 'apply':
        w.cls('Job', module='pool', pyname='ApplyResult', fields=job_fields_apply)
    elif kind == 'map':
        # MapResult(ApplyResult): per-item lists where ApplyResult has scalars
        f = dict(job_fields_apply)
        f.update({'_accepted': list_of(BoolS), '_worker_pid': list_of(opt(IntS)),
                  '_time_accepted': list_of(opt(RealS)), '_length': IntS, '_chunksize': IntS,
                  '_number_left': IntS})
        w.cls('Job', module='pool', pyname='MapResult', fields=f)
    elif kind in ('imap', 'imapu'):
        # IMapIterator: no acceptance time, no limits, no scalar owner
        w.cls('Job', module='pool', pyname='IMapIterator' if kind == 'imap' else 'IMapUnorderedIterator', fields={
            '_job': IntS, '_cache': dict_of(IntS, ref('Job')), '_cond': ValS,
            '_items': list_of(tup(BoolS, ValS)), '_index': IntS, '_length': opt(IntS), '_ready': BoolS,
            '_unsorted': dict_of(opt(IntS), tup(BoolS, ValS)), '_worker_pids': list_of(IntS),
            '_lost_worker_timeout': RealS, '_worker_lost': opt(tup(RealS, opt(IntS))),
        })
    w.cls('Pool', module='pool', fields={
        '_cache': dict_of(IntS, ref('Job')) if 'Job' in w.classes else ValS,
        '_pool': list_of(ref('WorkerP')),
        '_poolctrl': dict_of(IntS, opt(ValS)),
        '_on_ready_counters': dict_of(IntS, ref('Counter')),
        '_processes': IntS, '_state': IntS,
        '_putlock': opt(ref('Sem')),
        'putlocks': BoolS, 'threads': BoolS, 'synack': BoolS, 'allow_restart': BoolS,
        'timeout': opt(RealS), 'soft_timeout': opt(RealS),
        'lost_worker_timeout': RealS,
        'restart_state': ref('restart_state'),
        '_maxtasksperchild': opt(IntS),
        'on_process_up': opt(ValS), 'on_process_down': opt(ValS),
    })
    w.cls('Supervisor', module='pool', fields={'pool': ref('Pool'), '_state': IntS})
    w.externals['time.monotonic'] = ext_monotonic
    w.externals['time.sleep'] = ext_sleep
    return g


def ext_monotonic(ex, args, kw):
    """time.monotonic(): positive, non-decreasing (ghost clock g.now)"""
    now = gget(ex, 'now')
    r = RealS.fresh('monotonic')
    ex.path.assume(z3.And(r.e > 0, r.e >= now.e))
    gset(ex, 'now', r)
    return record(ex, 'monotonic', r)


def ext_sleep(ex, args, kw):
    """time.sleep(t): the clock advances by at least t; anything the other
    threads/processes may change is havocked by the caller's spec where it
    matters (A-atomic: handlers do not interleave below handler granularity)"""
    now = gget(ex, 'now')
    r = RealS.fresh('after_sleep')
    t = coerce(ex.path, ex.force(args[0]), RealS)
    ex.path.assume(r.e >= now.e + t.e)
    gset(ex, 'now', r)
    gset(ex, 'sleeps', SV(IntS, gget(ex, 'sleeps').e + 1))
    return SNone()


STEP_REQUIRES = {
    'R_nonneg': 'self.R >= 0',
    'maxT_pos': 'self.maxT > 0',
    'now_pos': 'now is None or now > 0',
    'clock_pos': 'g.now > 0',
    'T_past': 'self.T is None or (0 < self.T and (self.T <= now if now is not None else self.T <= g.now))',
    'maxR_nonneg': 'self.maxR is None or self.maxR >= 0',
}


def ghost_count_step(ex):
    gset(ex, 'steps', SV(IntS, gget(ex, 'steps').e + 1))


def step_contract(prop):
    return Contract(
        'common.restart_state.step', prop=prop,
        params={'self': ref('restart_state'), 'now': opt(RealS)},
        requires=STEP_REQUIRES,
        modifies=['self.R', 'self.T', 'g.now', 'g.steps'],
        ghost_entry=ghost_count_step,
        lets={
            't': 'now if now is not None else g.now',
            'expired': 'old(self.T) is not None and t - val(old(self.T)) >= self.maxT',
            'exhausted': 'not expired and self.maxR is not None and self.maxR != 0 and old(self.R) >= self.maxR',
        },
        ensures={
            'expired_restarts_count': 'implies(expired, self.T == t and self.R == 1)',
            'admitted_counts': 'implies(not expired, self.R == old(self.R) + 1 and '
                               '(self.T == old(self.T) if old(self.T) is not None else self.T == t))',
            'never_admits_beyond_budget': 'not exhausted',
            'clock_monotone': 'g.now >= old(g.now)',
            'window_valid': 'self.T is not None and 0 < self.T and self.T <= t',
            'counted': 'g.steps == old(g.steps) + 1',
        },
        raises={'RestartFreqExceeded': {
            'only_when_exhausted': 'exhausted',
            'count_reset': 'self.R == 0',
            'window_kept': 'self.T == old(self.T)',
            'clock_monotone': 'g.now >= old(g.now)',
            'counted': 'g.steps == old(g.steps) + 1',
        }},
    )


def init_rs_contract(prop):
    return Contract(
        'common.restart_state.__init__', prop=prop,
        params={'self': ref('restart_state'), 'maxR': opt(IntS), 'maxT': RealS},
        modifies=['self.maxR', 'self.maxT', 'self.R', 'self.T'],
        ensures={'budget': 'self.maxR == maxR and self.maxT == maxT',
                 'fresh_window': 'self.R == 0 and self.T is None'},
    )


def declare_handlers(w):
    """the pool's service objects (threads) as heap classes"""
    J = ref('Job')
    w.cls('ResultHandler', module='pool', fields={
        'outqueue': ValS, 'get': ValS, 'cache': dict_of(IntS, J), 'poll': ValS,
        'join_exited_workers': ValS, 'putlock': opt(ref('Sem')),
        'restart_state': ref('restart_state'), '_it': opt(ValS),
        '_shutdown_complete': BoolS, 'check_timeouts': opt(ValS),
        'on_job_ready': opt(ValS), 'on_ready_counters': opt(dict_of(IntS, ref('Counter'))),
        'state_handlers': ValS, 'on_state_change': ValS, '_state': IntS,
    })
    w.cls('TimeoutHandler', module='pool', fields={
        'processes': list_of(ref('WorkerP')), 'cache': dict_of(IntS, J),
        't_soft': opt(RealS), 't_hard': opt(RealS), '_it': opt(ValS), '_state': IntS,
    })
    w.cls('TaskHandler', module='pool', fields={
        'taskqueue': ValS, 'put': ValS, 'outqueue': ValS, 'pool': list_of(ref('WorkerP')),
        'cache': dict_of(IntS, J), '_state': IntS,
    })
    w.classes['Counter'].methods['get_lock'] = lambda ex, a, k: SV(ValS, z3.Const('counter_lock', Val))


# every handle in the cache is filed under its own id and points back to
# this cache (established by the constructors: `cache[self._job] = self`)
def cache_inv(c):
    return ('all(implies(has(%s, k), allocated(get(%s, k)) and get(%s, k)._job == k and get(%s, k)._cache == %s '
            'and allocated(get(%s, k)._event)) for k in ints())' % (c, c, c, c, c, c))


def ids_unique(c):
    """job ids are pairwise distinct (itertools.count): two handles with the
    same id are the same object"""
    return ('all(implies(a._job == b._job and a._cache == %s and b._cache == %s, a == b) '
            'for a in refs("Job") for b in refs("Job"))' % (c, c))


# ---- submission ----------------------------------------------------------------

def ext_taskqueue_put(ex, args, kw):
    """self._taskqueue.put(item): an unbounded queue.Queue -- never blocks, never raises"""
    gset(ex, 'submitted', SV(IntS, gget(ex, 'submitted').e + 1))
    return SNone()


def ext_quick_put(ex, args, kw):
    """self._quick_put(msg) (threads=False): the message is written to the
    task pipe, or the send raises (unpicklable task, broken pipe)"""
    me = ex.root.scopes[0].get('self')
    fn = args[0]
    qp = ex.path.read_field(me, '_quick_put') if me is not None else None
    if qp is None or not ex.path.decide(fn.e == qp.e):
        import handles
        return handles.ext_callable(ex, args, kw)
    if ex.path.choose(2) == 1:
        raise_exc(ex, 'AnyException')
    gset(ex, 'submitted', SV(IntS, gget(ex, 'submitted').e + 1))
    return SNone()


def ext_sem_acquire(ex, args, kw):
    """threading.Semaphore.acquire(self) (blocking): while it waits other
    threads may release/acquire (keeping 0 <= _value <= max(_value, _initial_value));
    returns True after decrementing a positive _value"""
    self = args[0]
    v = ex.path.read_field(self, '_value')
    iv = ex.path.read_field(self, '_initial_value')
    nv = IntS.fresh('value_when_woken')
    hi = z3.If(v.e > iv.e, v.e, iv.e)
    ex.path.assume(z3.And(nv.e >= 1, nv.e <= hi, z3.Or(v.e < 1, nv.e == v.e)))
    ex.path.write_field(self, '_value', SV(IntS, nv.e - 1))
    gset(ex, 'acquires', SV(IntS, gget(ex, 'acquires').e + 1))
    return mk_bool(True)


def declare_submission(w):
    w.classes['Sem'].methods['acquire'] = ext_sem_acquire
    P = w.classes['Pool']
    P.fields.update({'_taskqueue': ValS, '_quick_put': ValS, 'on_timeout_set': opt(ValS),
                     'on_timeout_cancel': opt(ValS), '_timeout_handler': opt(ValS)})
    w.classes['g'].fields.update({'submitted': IntS, 'acquires': IntS})


def apply_async_contract(prop):
    import handles as H
    eff = '(self.putlocks if waitforslot is None else waitforslot)'
    c = _apply_async_contract(prop, eff)
    # each property's check keeps the clauses that belong to it (all of them are
    # proved by ./check C10, C05, C06, C07 together)
    mine = {'C05': ['per_job_hard_limit_takes_precedence', 'accepted_when_running'],
            'C06': ['per_job_soft_limit_takes_precedence', 'accepted_when_running'],
            'C07': ['not_accepted_unless_running', 'accepted_when_running'],
            'C04': ['lost_timeout_defaulted', 'accepted_when_running'],
            'C10': ['one_slot_per_job', 'not_accepted_unless_running', 'accepted_when_running']}.get(prop)
    if mine is not None:
        c.ensures = {k: v for k, v in c.ensures.items() if k in mine}
        if prop != 'C10':
            c.raises = {'AnyException': {'send_failed': 'True'}}
    return c


def _apply_async_contract(prop, eff):
    return Contract(
        'pool.Pool.apply_async', prop=prop,
        params={'self': ref('Pool'), 'func': ValS, 'args': ValS, 'kwds': ValS, 'callback': opt(ValS),
                'error_callback': opt(ValS), 'accept_callback': opt(ValS), 'timeout_callback': opt(ValS),
                'waitforslot': opt(BoolS), 'soft_timeout': opt(RealS), 'timeout': opt(RealS),
                'lost_worker_timeout': opt(RealS), 'callbacks_propagate': ValS, 'correlation_id': ValS},
        externals={'<opaque>.put': ext_taskqueue_put, '<callable>': ext_quick_put,
                   'pool.Pool._start_timeout_handler': lambda ex, a, k: SNone()},
        returns=opt(ref('Job')),
        requires={'fresh_ids': 'not has(self._cache, g.next_job)', 'cache': 'allocated(self._cache)',
                  'sem': 'self._putlock is None or (allocated(val(self._putlock)) and val(self._putlock)._value >= 0 '
                         'and val(self._putlock)._value <= val(self._putlock)._initial_value)',
                  'limits_positive': '(timeout is None or timeout >= 0) and (soft_timeout is None or soft_timeout >= 0)'},
        modifies=['Job.*', 'self._cache.has', 'self._cache.val', 'self._cache.size', 'g.next_job', 'Event.flag',
                  'Sem._value', 'g.acquires', 'g.submitted', 'g.ncalls', 'g.cb_raised'],
        lets={'running': 'old(self._state) == 0',
              'takes_slot': 'old(self._state) == 0 and %s and self._putlock is not None' % eff},
        ensures={
            # C07: jobs offered after close() are not accepted
            'not_accepted_unless_running': 'implies(not running, result is None and only_key_changed(self._cache) '
                                           'and g.submitted == old(g.submitted) and g.acquires == old(g.acquires))',
            'accepted_when_running': 'implies(running, result is not None and fresh(val(result)) and '
                                     'has(self._cache, val(result)._job) and g.submitted == old(g.submitted) + 1)',
            # C10: the slot is taken before the job exists, exactly one per job
            'one_slot_per_job': 'g.acquires == old(g.acquires) + ite(takes_slot, 1, 0)',
            # C05 / C06: a per-job limit takes precedence over the pool default
            'per_job_hard_limit_takes_precedence': 'implies(running, val(result)._timeout == '
                                                   '(timeout if (timeout is not None and timeout != 0) else self.timeout))',
            'per_job_soft_limit_takes_precedence': 'implies(running, val(result)._soft_timeout == '
                                                   '(soft_timeout if (soft_timeout is not None and soft_timeout != 0) else self.soft_timeout))',
            'lost_timeout_defaulted': 'implies(running, val(result)._lost_worker_timeout == '
                                      '(val(lost_worker_timeout) if (lost_worker_timeout is not None and lost_worker_timeout != 0) '
                                      'else self.lost_worker_timeout))',
        },
        raises={'AnyException': {
            # the send failed (threads=False): the slot taken for this job must not stay taken
            'slot_given_back_when_send_fails': 'g.acquires == old(g.acquires)',
        }},
    )
