"""Proof script for C18 (verified modularly over the contracts of
deliver_challenge / answer_challenge): the lock-step handshake of
Listener.accept (deliver, then answer) against Client (answer, then deliver)
over the two channels of one connection.  Each side stops at its first
failure, as accept()/Client() do by propagating the exception; `broken` records
a transport failure (peer closed, oversized message), which the channel model
cannot exclude."""
from .connection import deliver_challenge, answer_challenge, AuthenticationError


def A_hmac(k1, k2):
    """assumed (cryptographic idealisation, C18.ASSUMPTIONS): over any message,
    the digests under k1 and k2 are equal only if k1 == k2"""


def handshake(cL, cC, kL, kC):
    okL = True
    okC = True
    broken = False
    A_hmac(kL, kC)
    # round 1: the listener challenges the client
    try:
        deliver_challenge(cL, kL)
    except AuthenticationError:
        okL = False
    except (OSError, EOFError, AssertionError):
        okL = False
        broken = True
    try:
        answer_challenge(cC, kC)
    except AuthenticationError:
        okC = False
    except (OSError, EOFError, AssertionError):
        okC = False
        broken = True
    # round 2: the client challenges the listener (only sides still going)
    both = okL and okC
    if okC:
        try:
            deliver_challenge(cC, kC)
        except AuthenticationError:
            okC = False
        except (OSError, EOFError, AssertionError):
            okC = False
            broken = True
    if okL:
        try:
            answer_challenge(cL, kL)
        except AuthenticationError:
            okL = False
        except (OSError, EOFError, AssertionError):
            okL = False
            broken = True
    return okL, okC, broken
