"""C13 -- connections deliver every message intact, in order, within bounds."""
from pyvc.api import *

PROP = 'C13'
REPLAYERS = {'connection.Connection._send': 'replayers/connection.py',
             'connection.Connection._recv': 'replayers/connection.py',
             'connection.Connection._send_bytes': 'replayers/connection.py',
             'connection.Connection._recv_bytes': 'replayers/connection.py',
             'connection._ConnectionBase.send': 'replayers/connection.py',
             'connection._ConnectionBase.recv': 'replayers/connection.py',
             'connection._ConnectionBase.recv_bytes_into': 'replayers/connection.py',
             'connection._ConnectionBase.send_bytes': 'replayers/connection.py'}

ASSUMPTIONS = [
    'os.write(h, buf): raises OSError(errno arbitrary) having written nothing, or writes a prefix of length n with '
    '1 <= n <= len(buf) (0 for an empty buffer) -- every way the kernel may split or interrupt writes',
    'os.read(h, k): raises OSError(errno arbitrary) having consumed nothing, or returns the next n bytes of the stream, '
    '1 <= n <= k, or b"" exactly when the peer has closed and everything was consumed',
    'struct.pack("!i", n): 4 bytes for -2**31 <= n < 2**31 (struct.error otherwise); struct.unpack inverts it',
    'the kernel delivers the bytes written on one end, in order, as the stream read on the other end (A-env)',
    'memoryview(buf) of a bytes-like object with itemsize 1 is the byte sequence of buf',
]
OUT_OF_REACH = ['readiness (wait/_poll); Windows pipe classes (dead on this platform); pickling in send()/recv()']
TRUSTED = []

_pack = z3.Function('packbyte', z3.IntSort(), z3.IntSort(), z3.IntSort())
_unpack = z3.Function('unpack4', z3.IntSort(), z3.IntSort(), z3.IntSort(), z3.IntSort(), z3.IntSort())
EINTR = 4


# ---- spec functions -----------------------------------------------------------

def sp_wire_has(ex, w0, b):
    """wire_has(w0, b): the bytes of b are on the wire from position w0"""
    k = z3.Int(fresh_name('k'))
    wire = gget(ex, 'wire')
    w = as_arith(w0)
    return SV(BoolS, z3.ForAll([k], z3.Implies(z3.And(k >= w, k < w + b.len),
                                               z3.Select(wire.comps[0], k) == b.at(k - w))))


def sp_wire_keeps(ex, old_wire, w0):
    """wire_keeps(old_wire, w0): positions below w0 are as in old_wire"""
    k = z3.Int(fresh_name('k'))
    wire = gget(ex, 'wire')
    return SV(BoolS, z3.ForAll([k], z3.Implies(z3.And(k >= 0, k < as_arith(w0)),
                                               z3.Select(wire.comps[0], k) == z3.Select(old_wire.comps[0], k))))


def sp_stream_is(ex, r0, b):
    """stream_is(r0, b): b equals the incoming stream from position r0"""
    k = z3.Int(fresh_name('k'))
    st = gget(ex, 'stream')
    r = as_arith(r0)
    return SV(BoolS, z3.ForAll([k], z3.Implies(z3.And(k >= r, k < r + b.len),
                                               z3.Select(st.comps[0], k) == b.at(k - r))))


def sp_window_of(ex, b, orig, k):
    """window_of(b, orig, k): b is orig[k:] (same storage)"""
    return SV(BoolS, z3.And(b.arr == orig.arr, b.off == orig.off + as_arith(k), b.len == orig.len - as_arith(k)))


def sp_hdr(ex, n):
    """hdr(n): the 4-byte big-endian header struct.pack('!i', n)"""
    arr = z3.K(z3.IntSort(), z3.IntVal(0))
    for i in range(4):
        arr = z3.Store(arr, i, _pack(as_arith(n), z3.IntVal(i)))
    return SBytes(arr, z3.IntVal(0), z3.IntVal(4))


def sp_value(ex, bio):
    """value(bytesio): its contents"""
    return SBytes(ex.path.read_field(bio, 'arr').comps[0], z3.IntVal(0), ex.path.read_field(bio, 'len').e)


def sp_stream_hdr(ex, r0):
    """the integer whose header is at stream position r0"""
    st = gget(ex, 'stream').comps[0]
    r = as_arith(r0)
    return SV(IntS, _unpack(z3.Select(st, r), z3.Select(st, r + 1), z3.Select(st, r + 2), z3.Select(st, r + 3)))


# ---- externals ------------------------------------------------------------------

def ext_os_write(ex, args, kw):
    buf = args[1]
    P = ex.path
    if P.choose(2) == 1:
        e = IntS.fresh('errno')
        record(ex, 'write_errno', e)
        raise PyExc(VExc('OSError', [e], {'errno': e}))
    n = IntS.fresh('nwritten')
    P.assume(z3.If(buf.len > 0, z3.And(n.e >= 1, n.e <= buf.len), n.e == 0))
    record(ex, 'write_n', n)
    wire, wlen = gget(ex, 'wire'), gget(ex, 'wlen')
    nw = wire.shape.fresh('wire')
    k = z3.Int(fresh_name('k'))
    P.assume(z3.ForAll([k], z3.Implies(z3.And(k >= wlen.e, k < wlen.e + n.e),
                                       z3.Select(nw.comps[0], k) == buf.at(k - wlen.e))))
    P.assume(z3.ForAll([k], z3.Implies(z3.And(k >= 0, k < wlen.e),
                                       z3.Select(nw.comps[0], k) == z3.Select(wire.comps[0], k))))
    gset(ex, 'wire', nw)
    gset(ex, 'wlen', SV(IntS, wlen.e + n.e))
    return n


def ext_os_read(ex, args, kw):
    k_req = ex.force(args[1])
    P = ex.path
    if P.choose(2) == 1:
        e = IntS.fresh('errno')
        record(ex, 'read_errno', e)
        raise PyExc(VExc('OSError', [e], {'errno': e}))
    rpos, send, st = gget(ex, 'rpos'), gget(ex, 'send'), gget(ex, 'stream')
    n = IntS.fresh('nread')
    record(ex, 'read_n', n)
    P.assume(z3.If(rpos.e >= send.e, n.e == 0,
                   z3.And(n.e >= 1, n.e <= as_arith(k_req), n.e <= send.e - rpos.e)))
    chunk = SBytes(st.comps[0], rpos.e, n.e)
    gset(ex, 'rpos', SV(IntS, rpos.e + n.e))
    return chunk


def ext_pack(ex, args, kw):
    n = ex.force(args[1])
    if ex.path.decide(z3.Or(as_arith(n) < -2 ** 31, as_arith(n) >= 2 ** 31)):
        raise_exc(ex, 'StructError')
    h = sp_hdr(ex, n)
    # struct contract: unpack inverts pack (instance at n)
    ex.path.assume(_unpack(*[h.at(i) for i in range(4)]) == as_arith(n))
    return h


def ext_unpack(ex, args, kw):
    b = args[1]
    if ex.path.decide(b.len != 4):
        raise_exc(ex, 'StructError')
    return STup([SV(IntS, _unpack(*[b.at(i) for i in range(4)]))])


def ext_bytesio(ex, args, kw):
    o = SRef(ref('BytesIO'), ex.path.new_id())
    ex.path.write_field(o, 'len', mk_int(0))
    ex.path.write_field(o, 'pos', mk_int(0))
    return o


def bio_write(ex, args, kw):
    """BytesIO.write(chunk) at the end: contents' == contents ++ chunk"""
    o, chunk = args
    P = ex.path
    ln = P.read_field(o, 'len').e
    arr = P.read_field(o, 'arr')
    na = arr.shape.fresh('bio')
    k = z3.Int(fresh_name('k'))
    P.assume(z3.ForAll([k], z3.Implies(z3.And(k >= 0, k < ln), z3.Select(na.comps[0], k) == z3.Select(arr.comps[0], k))))
    P.assume(z3.ForAll([k], z3.Implies(z3.And(k >= ln, k < ln + chunk.len), z3.Select(na.comps[0], k) == chunk.at(k - ln))))
    P.write_field(o, 'arr', na)
    P.write_field(o, 'len', SV(IntS, ln + chunk.len))
    P.write_field(o, 'pos', SV(IntS, ln + chunk.len))
    return SV(IntS, chunk.len)


def bio_getvalue(ex, args, kw):
    return sp_value(ex, args[0])


def bio_tell(ex, args, kw):
    return ex.path.read_field(args[0], 'pos')


def bytes_tobytes(ex, args, kw):
    return args[0]


def ext_memoryview(ex, args, kw):
    return args[0]


def object_contracts(w, C, PROP, by):
    """send(obj) / recv(): the object level -- one pickle, one framed message"""
    from pyvc.shapes import SBytes
    g = w.classes['g']
    g.fields.update({'pk_arr': MapS(IntS, IntS), 'pk_len': IntS, 'ld_arr': MapS(IntS, IntS), 'ld_len': IntS, 'loads': IntS,
                     'dumps': IntS})

    def ext_dumps(ex, args, kw):
        arr = MapS(IntS, IntS).fresh('pickle')
        n = IntS.fresh('pickle_len')
        ex.path.assume(n.e >= 0)
        gset(ex, 'pk_arr', arr)
        gset(ex, 'pk_len', n)
        gset(ex, 'dumps', SV(IntS, gget(ex, 'dumps').e + 1))
        return SBytes(arr.comps[0], z3.IntVal(0), n.e)

    def ext_loadbuf(ex, args, kw):
        bio = ex.force(args[-1], 'buffer')           # (_recv_bytes without a size limit never returns None)
        gset(ex, 'ld_arr', ex.path.read_field(bio, 'arr'))
        gset(ex, 'ld_len', ex.path.read_field(bio, 'len'))
        gset(ex, 'loads', SV(IntS, gget(ex, 'loads').e + 1))
        return SV(ValS, z3.Const(fresh_name('object'), Val))
    w.spec_funcs['pickle_sent'] = lambda ex: SBytes(gget(ex, 'pk_arr').comps[0], z3.IntVal(0), gget(ex, 'pk_len').e)
    w.spec_funcs['bytes_loaded'] = lambda ex: SBytes(gget(ex, 'ld_arr').comps[0], z3.IntVal(0), gget(ex, 'ld_len').e)
    for q in ('connection.Connection._send_bytes', 'connection.Connection._recv_bytes'):
        w.contracts[q] = by[q]
    pk = {'reduction.ForkingPickler.dumps': ext_dumps, 'connection.ForkingPickler.dumps': ext_dumps,
          'reduction.ForkingPickler.loadbuf': ext_loadbuf, 'connection.ForkingPickler.loadbuf': ext_loadbuf}
    send_obj = Contract(
        'connection._ConnectionBase.send', prop=PROP, params={'self': C, 'obj': ValS}, externals=pk,
        requires={'wf': 'g.wlen >= 0 and g.dumps == 0'},
        modifies=['g.wire', 'g.wlen', 'g.pk_arr', 'g.pk_len', 'g.dumps'],
        ensures={
            'one_pickle_sent_as_one_framed_message': 'g.dumps == 1 and g.wlen == old(g.wlen) + 4 + g.pk_len and '
                                                     'wire_has(old(g.wlen), hdr(g.pk_len)) and '
                                                     'wire_has(old(g.wlen) + 4, pickle_sent())',
            'only_on_an_open_writable_connection': 'old(self._handle) is not None and old(self._writable)',
            'earlier_messages_untouched': 'wire_keeps(old(g.wire), old(g.wlen))',
        },
        raises={'OSError': {'closed_or_read_only_rejected_before_any_io':
                            'implies(old(self._handle) is None or not old(self._writable), g.wlen == old(g.wlen) and g.dumps == 0)',
                            'earlier_messages_untouched': 'wire_keeps(old(g.wire), old(g.wlen))'},
                'StructError': {'beyond_framing_limit_nothing_sent': 'g.wlen == old(g.wlen)'}},
    )
    recv_obj = Contract(
        'connection._ConnectionBase.recv', prop=PROP, params={'self': C}, externals=pk,
        requires={'wf': 'g.rpos >= 0 and g.send >= g.rpos and g.loads == 0'},
        modifies=['g.rpos', 'self._readable', 'self._handle', 'g.ld_arr', 'g.ld_len', 'g.loads'],
        returns=ValS, lets={'n': 'stream_hdr(old(g.rpos))'},
        ensures={
            'exactly_the_next_message_is_unpickled_once': 'g.loads == 1 and g.ld_len == ite(n > 0, n, 0) and '
                                                          'stream_is(old(g.rpos) + 4, bytes_loaded()) and '
                                                          'g.rpos == old(g.rpos) + 4 + ite(n > 0, n, 0)',
            'only_on_an_open_readable_connection': 'old(self._handle) is not None and old(self._readable)',
        },
        raises={'OSError': {'nothing_unpickled': 'g.loads == 0'}, 'EOFError': {'nothing_unpickled': 'g.loads == 0'}},
    )
    return [send_obj, recv_obj]


def into_contract(w, C, PROP, by):
    """recv_bytes_into(buf, offset): the message lands in the caller's buffer at the offset, or is refused whole"""
    g = w.classes['g']
    g.fields.update({'into_lo': IntS, 'into_n': IntS, 'into_calls': IntS, 'into_ok': BoolS})
    w.cls('Buf', fields={'arr': MapS(IntS, IntS), 'nbytes': IntS})          # a bytes-like, writable buffer (item size 1)

    def mv_slice(ex, args, kw):
        v, lo, hi = args
        P = ex.path
        n = P.read_field(v, 'hi').e - P.read_field(v, 'lo').e
        a = ex.clamp(lo, n, z3.IntVal(0))
        b = ex.clamp(hi, n, n)
        o = SRef(ref('MV'), P.new_id('MV'))
        P.write_field(o, 'of', P.read_field(v, 'of'))
        P.write_field(o, 'itemsize', P.read_field(v, 'itemsize'))
        base = P.read_field(v, 'lo').e
        P.write_field(o, 'lo', SV(IntS, base + a))
        P.write_field(o, 'hi', SV(IntS, base + z3.If(b < a, a, b)))
        return o
    w.cls('MV', fields={'of': ref('Buf'), 'itemsize': IntS, 'lo': IntS, 'hi': IntS}, methods={
        'with_enter': lambda ex, a, k: SNone(), 'with_exit': lambda ex, a, k: SNone(),
        '__len__': lambda ex, a, k: SV(IntS, ex.path.read_field(a[0], 'hi').e - ex.path.read_field(a[0], 'lo').e),
        '__getslice__': mv_slice})

    def ext_mv(ex, args, kw):
        b = args[0]
        if not (isinstance(b, SRef) and b.shape.cls == 'Buf'):
            return b
        P = ex.path
        o = SRef(ref('MV'), P.new_id('MV'))
        P.write_field(o, 'of', b)
        P.write_field(o, 'itemsize', mk_int(1))
        P.write_field(o, 'lo', mk_int(0))
        P.write_field(o, 'hi', P.read_field(b, 'nbytes'))
        return o

    def bio_seek(ex, args, kw):
        ex.path.write_field(args[0], 'pos', coerce(ex.path, args[1], IntS))
        return args[1]

    def bio_readinto(ex, args, kw):
        """BytesIO.readinto(view): copies min(remaining, len(view)) bytes from the current position into the view"""
        bio, view = args
        P = ex.path
        pos, ln = P.read_field(bio, 'pos').e, P.read_field(bio, 'len').e
        lo, hi = P.read_field(view, 'lo').e, P.read_field(view, 'hi').e
        room = hi - lo
        n = z3.If(ln - pos < room, ln - pos, room)
        n = z3.If(n < 0, 0, n)
        buf = P.read_field(view, 'of')
        arr = P.read_field(buf, 'arr')
        src = P.read_field(bio, 'arr')
        na = arr.shape.fresh('filled')
        k = z3.Int(fresh_name('k'))
        P.assume(z3.ForAll([k], z3.Select(na.comps[0], k) == z3.If(z3.And(k >= lo, k < lo + n),
                                                                      z3.Select(src.comps[0], pos + (k - lo)),
                                                                      z3.Select(arr.comps[0], k))))
        P.write_field(buf, 'arr', na)
        P.write_field(bio, 'pos', SV(IntS, pos + n))
        gset(ex, 'into_lo', SV(IntS, lo))
        gset(ex, 'into_n', SV(IntS, n))
        gset(ex, 'into_calls', SV(IntS, gget(ex, 'into_calls').e + 1))
        gset(ex, 'into_ok', SV(BoolS, z3.And(pos == 0, P.read_field(view, 'itemsize').e == 1)))
        return SV(IntS, n)
    w.classes['BytesIO'].methods.update({'seek': bio_seek, 'readinto': bio_readinto})
    w.contracts['connection.Connection._recv_bytes'] = by['connection.Connection._recv_bytes']
    n = 'ite(stream_hdr(old(g.rpos)) > 0, stream_hdr(old(g.rpos)), 0)'
    return Contract(
        'connection._ConnectionBase.recv_bytes_into', prop=PROP, params={'self': C, 'buf': ref('Buf'), 'offset': IntS},
        externals={'builtins.memoryview': ext_mv},
        requires={'wf': 'g.rpos >= 0 and g.send >= g.rpos and allocated(buf) and buf.nbytes >= 0 and g.into_calls == 0'},
        modifies=['g.rpos', 'self._readable', 'self._handle', 'buf.arr', 'g.into_lo', 'g.into_n', 'g.into_calls', 'g.into_ok',
                  'BytesIO.pos'],
        returns=IntS,
        ensures={
            'whole_message_lands_at_the_offset': 'result == %s and g.into_calls == 1 and g.into_ok and g.into_lo == offset '
                                                 'and g.into_n == result and g.rpos == old(g.rpos) + 4 + result' % n,
            'only_if_it_fits_behind_the_offset': '0 <= offset and offset + result <= buf.nbytes',
            'only_on_an_open_readable_connection': 'old(self._handle) is not None and old(self._readable)',
        },
        raises={'ValueError': {'bad_offset_rejected_before_any_io': '(offset < 0 or offset > buf.nbytes) and g.rpos == old(g.rpos) '
                                                                    'and g.into_calls == 0'},
                'BufferTooShort': {'only_when_the_message_does_not_fit_behind_the_offset':
                                   'buf.nbytes < offset + %s and g.into_calls == 0' % n},
                'OSError': {'nothing_stored': 'g.into_calls == 0'}, 'EOFError': {'nothing_stored': 'g.into_calls == 0'}},
    )


VARIANTS = [None, 'wide']


def wide_send(w, items):
    """send_bytes of a bytes-like object whose items are wider than one byte (array.array('i'), ctypes arrays, cast
    memoryviews): offset and size count *bytes* of the object's content; len() of its memoryview counts items, which is
    why the function re-wraps it before measuring.  Model: WArr (nitems, item size > 1, nbytes > nitems, byte content);
    memoryview(WArr) has its item size and len() = nitems, bytes() of it is the content."""
    from pyvc.shapes import SBytes
    by = {c.qualname: c for c in items if isinstance(c, Contract)}
    pub = by['connection._ConnectionBase.send_bytes']
    w.cls('WArr', fields={'arr': MapS(IntS, IntS), 'nbytes': IntS, 'nitems': IntS, 'itemsize': IntS})

    def no_item_slices(ex, args, kw):
        raise Unsupported('item-wise slice of a wide memoryview')
    w.cls('WMV', fields={'of': ref('WArr'), 'itemsize': IntS}, methods={
        '__len__': lambda ex, a, k: ex.path.read_field(ex.path.read_field(a[0], 'of'), 'nitems'),
        '__getslice__': no_item_slices})

    def content(ex, b):
        return SBytes(ex.path.read_field(b, 'arr').comps[0], z3.IntVal(0), ex.path.read_field(b, 'nbytes').e)
    w.spec_funcs['content'] = content

    def ext_mv(ex, args, kw):
        b = args[0]
        if isinstance(b, SRef) and b.shape.cls == 'WArr':
            o = SRef(ref('WMV'), ex.path.new_id('WMV'))
            ex.path.write_field(o, 'of', b)
            ex.path.write_field(o, 'itemsize', ex.path.read_field(b, 'itemsize'))
            return o
        return b

    def ext_bytes(ex, args, kw):
        b = args[0]
        if isinstance(b, SRef) and b.shape.cls == 'WMV':
            return content(ex, ex.path.read_field(b, 'of'))
        return b
    sub = lambda t: t.replace('buf[offset:', 'content(buf)[offset:').replace('len(buf)', 'buf.nbytes')
    return Contract(
        pub.qualname, prop=PROP, variants=['wide'],
        params={'self': pub.params['self'], 'buf': ref('WArr'), 'offset': IntS, 'size': opt(IntS)},
        externals={'builtins.memoryview': ext_mv, 'builtins.bytes': ext_bytes},
        requires={'wf': 'buf.nbytes >= 0 and g.wlen >= 0 and buf.itemsize > 1 and buf.nitems >= 0 and '
                        '(buf.nitems < buf.nbytes or buf.nbytes == 0) and buf.nitems <= buf.nbytes'},
        modifies=list(pub.modifies),
        ensures={k: sub(v) for k, v in pub.ensures.items()},
        raises={e: {k: sub(v) for k, v in d.items()} for e, d in pub.raises.items()},
    )


def build(w, variant=None):
    if variant == 'wide':
        return [wide_send(w, build(w))]
    w.cls('g', fields={'wire': MapS(IntS, IntS), 'wlen': IntS, 'stream': MapS(IntS, IntS),
                       'rpos': IntS, 'send': IntS})
    w.cls('BytesIO', fields={'arr': MapS(IntS, IntS), 'len': IntS, 'pos': IntS},
          methods={'write': bio_write, 'getvalue': bio_getvalue, 'tell': bio_tell})
    w.cls('Conn', module='connection', pyname='Connection',
          fields={'_handle': opt(IntS), '_readable': BoolS, '_writable': BoolS})
    w.externals.update({'os.write': ext_os_write, 'os.read': ext_os_read, 'struct.pack': ext_pack,
                        'struct.unpack': ext_unpack, 'io.BytesIO': ext_bytesio,
                        '<bytes>.tobytes': bytes_tobytes, 'builtins.memoryview': ext_memoryview})
    w.spec_funcs.update({'wire_has': sp_wire_has, 'wire_keeps': sp_wire_keeps, 'stream_is': sp_stream_is,
                         'window_of': sp_window_of, 'hdr': sp_hdr, 'value': sp_value, 'stream_hdr': sp_stream_hdr})
    C = ref('Conn')
    send = Contract(
        'connection.Connection._send', prop=PROP,
        params={'self': C, 'buf': BytesS},
        requires={'wf': 'len(buf) >= 0 and g.wlen >= 0'},
        modifies=['g.wire', 'g.wlen'],
        loops={0: {'inv': {
            'remaining': '0 <= remaining and remaining <= len(old(buf)) and remaining == len(buf)',
            'window': 'window_of(buf, old(buf), len(old(buf)) - remaining)',
            'written_count': 'g.wlen == old(g.wlen) + len(old(buf)) - remaining',
            'written_bytes': 'wire_has(old(g.wlen), old(buf)[:len(old(buf)) - remaining])',
            'earlier_kept': 'wire_keeps(old(g.wire), old(g.wlen))',
        }, 'modifies': ['g.wire', 'g.wlen']}},
        ensures={
            'every_byte_written_once_in_order': 'g.wlen == old(g.wlen) + len(buf) and wire_has(old(g.wlen), buf)',
            'earlier_messages_untouched': 'wire_keeps(old(g.wire), old(g.wlen))',
        },
        raises={'OSError': {'never_for_EINTR': 'exc.errno != 4',
                            'earlier_messages_untouched': 'wire_keeps(old(g.wire), old(g.wlen))'}},
    )
    recv = Contract(
        'connection.Connection._recv', prop=PROP,
        params={'self': C, 'size': IntS},
        requires={'wf': 'g.rpos >= 0 and g.send >= g.rpos'},
        returns=ref('BytesIO'),
        modifies=['g.rpos'],
        loops={0: {'inv': {
            'remaining': '(size >= 0 and 0 <= remaining and remaining <= size) or (size < 0 and remaining == size)',
            'consumed': 'g.rpos == old(g.rpos) + size - remaining and g.rpos <= g.send',
            'collected': 'fresh(buf) and buf.len == size - remaining and buf.pos == buf.len and stream_is(old(g.rpos), value(buf))',
            'handle': 'handle == self._handle',
        }, 'modifies': ['g.rpos', 'buf.arr', 'buf.len', 'buf.pos']}},
        ensures={
            'exactly_size_bytes_consumed': 'g.rpos == old(g.rpos) + ite(size > 0, size, 0) and g.rpos <= g.send',
            'returned_bytes_are_the_stream': 'fresh(result) and result.len == ite(size > 0, size, 0) and stream_is(old(g.rpos), value(result))',
            # (tell() after the call is the number of bytes received: recv_bytes_into relies on it)
            'position_at_the_end': 'result.pos == result.len',
        },
        raises={
            'EOFError': {'clean_end_of_stream': 'g.rpos == old(g.rpos) and g.rpos == g.send and size > 0'},
            'OSError': {'never_for_EINTR': 'exc.errno is None or exc.errno != 4',
                        'short_message_is_an_error_not_a_result':
                            'implies(exc.errno is None, g.rpos == g.send and g.rpos > old(g.rpos) and g.rpos < old(g.rpos) + size)'},
        },
    )
    send_bytes_ = Contract(
        'connection.Connection._send_bytes', prop=PROP,
        params={'self': C, 'buf': BytesS},
        requires={'wf': 'len(buf) >= 0 and g.wlen >= 0'},
        modifies=['g.wire', 'g.wlen'],
        ensures={
            'header_then_payload': 'g.wlen == old(g.wlen) + 4 + len(buf) and wire_has(old(g.wlen), hdr(len(buf))) '
                                   'and wire_has(old(g.wlen) + 4, buf)',
            'earlier_messages_untouched': 'wire_keeps(old(g.wire), old(g.wlen))',
            'within_framing_limit': 'len(buf) < 2147483648',
        },
        raises={'OSError': {'earlier_messages_untouched': 'wire_keeps(old(g.wire), old(g.wlen))'},
                'StructError': {'beyond_framing_limit_nothing_sent': 'len(buf) >= 2147483648 and g.wlen == old(g.wlen)'}},
    )
    recv_bytes_ = Contract(
        'connection.Connection._recv_bytes', prop=PROP,
        params={'self': C, 'maxsize': opt(IntS)},
        requires={'wf': 'g.rpos >= 0 and g.send >= g.rpos'},
        returns=opt(ref('BytesIO')),
        modifies=['g.rpos'],
        lets={'n': 'stream_hdr(old(g.rpos))'},
        ensures={
            'oversized_message_refused_after_header': 'implies(result is None, maxsize is not None and n > maxsize '
                                                      'and g.rpos == old(g.rpos) + 4)',
            'within_stream': 'g.rpos <= g.send',
            'whole_message_returned': 'implies(result is not None, fresh(val(result)) and (maxsize is None or n <= maxsize) and '
                                      'val(result).len == ite(n > 0, n, 0) and val(result).pos == val(result).len and '
                                      'g.rpos == old(g.rpos) + 4 + ite(n > 0, n, 0) '
                                      'and stream_is(old(g.rpos) + 4, value(val(result))))',
        },
        raises={'EOFError': {'t': 'g.rpos == g.send'},
                # an I/O error, or end of stream inside the message: never the oversize case
                'OSError': {'not_the_oversize_case': 'not (exc.errno is None and maxsize is not None and '
                                                     'g.rpos == old(g.rpos) + 4 and n > maxsize)'}},
    )
    # ---- public operations ------------------------------------------------------
    w.externals['os.close'] = lambda ex, a, k: SNone()
    w.inline |= {'connection._ConnectionBase._check_closed', 'connection._ConnectionBase._check_readable',
                 'connection._ConnectionBase._check_writable', 'connection._ConnectionBase._bad_message_length',
                 'connection._ConnectionBase.close', 'connection.Connection._close'}
    invalid = ('(offset < 0 or len(buf) < offset or (size is not None and (size < 0 or offset + size > len(buf))))')
    k_eff = '(len(buf) - offset if size is None else val(size))'
    pub_send = Contract(
        'connection._ConnectionBase.send_bytes', prop=PROP,
        params={'self': C, 'buf': BytesS, 'offset': IntS, 'size': opt(IntS)},
        requires={'wf': 'len(buf) >= 0 and g.wlen >= 0'},
        modifies=['g.wire', 'g.wlen'],
        ensures={
            'only_valid_windows_are_sent': 'not %s and old(self._handle) is not None and old(self._writable)' % invalid,
            'exactly_the_window_is_sent': 'g.wlen == old(g.wlen) + 4 + %s and wire_has(old(g.wlen), hdr(%s)) and '
                                          'wire_has(old(g.wlen) + 4, buf[offset:offset + %s])' % (k_eff, k_eff, k_eff),
            'earlier_messages_untouched': 'wire_keeps(old(g.wire), old(g.wlen))',
        },
        raises={
            'ValueError': {'rejected_before_any_io': 'g.wlen == old(g.wlen) and unchanged("g.wire")',
                           'only_for_invalid_window': invalid},
            'OSError': {'closed_or_read_only_rejected_before_any_io':
                        'implies(old(self._handle) is None or not old(self._writable), g.wlen == old(g.wlen))',
                        'earlier_messages_untouched': 'wire_keeps(old(g.wire), old(g.wlen))'},
            'StructError': {'beyond_framing_limit_nothing_sent': 'g.wlen == old(g.wlen)'},
        },
    )
    pub_recv = Contract(
        'connection._ConnectionBase.recv_bytes', prop=PROP,
        params={'self': C, 'maxlength': opt(IntS)},
        requires={'wf': 'g.rpos >= 0 and g.send >= g.rpos'},
        returns=BytesS,
        modifies=['g.rpos', 'self._readable', 'self._handle'],
        lets={'n': 'stream_hdr(old(g.rpos))'},
        ensures={
            'whole_message_exact_bytes': 'len(result) == ite(n > 0, n, 0) and stream_is(old(g.rpos) + 4, result) and '
                                         'g.rpos == old(g.rpos) + 4 + ite(n > 0, n, 0)',
            'size_limit_never_exceeded': 'maxlength is None or n <= maxlength',
            'only_on_open_readable': 'old(self._handle) is not None and old(self._readable)',
        },
        raises={
            'ValueError': {'negative_limit_rejected_before_io': 'maxlength is not None and maxlength < 0 and g.rpos == old(g.rpos)'},
            'EOFError': {'clean_end': 'g.rpos == g.send'},
            'OSError': {
                'closed_or_write_only_rejected_before_io':
                    'implies(old(self._handle) is None or not old(self._readable), g.rpos == old(g.rpos))',
                'oversized_message_stops_reading':
                    'implies(exc.errno is None and old(self._handle) is not None and old(self._readable) and '
                    'g.rpos == old(g.rpos) + 4 and maxlength is not None and n > maxlength, '
                    'not self._readable or self._handle is None)'},
        },
    )
    # ---- order and boundaries: induction step over two consecutive messages ------
    w.spec_funcs['unhdr'] = lambda ex, b: SV(IntS, _unpack(*[b.at(i) for i in range(4)]))
    lem_send = Contract(
        'lemmas_C13.send_two', prop=PROP,
        params={'c': C, 'p1': BytesS, 'p2': BytesS},
        requires={'wf': 'len(p1) >= 0 and len(p2) >= 0 and g.wlen >= 0'},
        modifies=['g.wire', 'g.wlen'],
        lets={'w1': 'old(g.wlen) + 4 + len(p1)'},
        ensures={'in_order_with_boundaries':
                 'g.wlen == w1 + 4 + len(p2) and wire_has(old(g.wlen), hdr(len(p1))) and wire_has(old(g.wlen) + 4, p1) '
                 'and wire_has(w1, hdr(len(p2))) and wire_has(w1 + 4, p2)'},
        raises={'OSError': {'t': 'True'}, 'StructError': {'t': 'True'}},
    )
    lem_recv = Contract(
        'lemmas_C13.recv_two', prop=PROP,
        params={'c': C}, free={'n1': IntS, 'n2': IntS},
        requires={'wf': 'g.rpos >= 0 and g.send >= g.rpos and n1 >= 0 and n2 >= 0',
                  # the stream carries two framed messages (what send_two puts on the wire; A-env)
                  'framed': 'stream_is(g.rpos, hdr(n1)) and stream_is(g.rpos + 4 + n1, hdr(n2))',
                  'struct_inverse': 'unhdr(hdr(n1)) == n1 and unhdr(hdr(n2)) == n2'},
        returns=tup(opt(ref('BytesIO')), opt(ref('BytesIO'))),
        modifies=['g.rpos'],
        ensures={'first_then_second_with_boundaries':
                 'result[0] is not None and result[1] is not None and val(result[0]).len == n1 and val(result[1]).len == n2 '
                 'and g.rpos == old(g.rpos) + 8 + n1 + n2'},
        raises={'OSError': {'t': 'True'}, 'EOFError': {'t': 'True'}},
    )
    by = {c.qualname: c for c in (send_bytes_, recv_bytes_)}
    return [send, recv, send_bytes_, recv_bytes_, pub_send, pub_recv, lem_send, lem_recv] + object_contracts(w, C, PROP, by) + [into_contract(w, C, PROP, by)]

MANIFEST_ENTRY = {
    'text': 'Proof (unbounded, loop invariants): Connection._send writes every byte of the buffer exactly once, in order, after '
            'what was already on the wire, for every schedule of short writes and EINTRs (os.write is an assumed contract that '
            'may write any non-empty prefix or fail with any errno); _recv returns exactly the next `size` bytes of the stream '
            'for every schedule of short reads/EINTRs, raises EOFError only for a clean end with nothing consumed and OSError '
            'when the stream ends inside the request; _send_bytes puts header+payload on the wire on both sides of the 16 KiB '
            'threshold and refuses lengths beyond the framing limit before any I/O; _recv_bytes returns the framed message or '
            'refuses an oversized one after the header; send_bytes/recv_bytes reject invalid windows, negative limits, closed or '
            'wrong-direction handles before any I/O and an oversized message leaves the connection unreadable.  Order and '
            'message boundaries for consecutive messages are two proof scripts over those contracts (induction step).  The object '
            'level: send(obj) pickles once and puts exactly that pickle on the wire as one framed message, only on an open '
            'writable connection; recv() hands exactly the bytes of the next message to the unpickler, once, and consumes '
            'exactly that message.  recv_bytes_into(buf, offset), for byte buffers: the whole next message lands in the '
            'buffer exactly at the offset (nothing else is written) and its length is returned, only if it fits behind the '
            'offset; otherwise BufferTooShort is raised with nothing stored; a bad offset is rejected before any I/O.',
    'note': 'Kernel FIFO delivery, struct.pack/unpack inverse and memoryview byte semantics are assumed; poll/wait and '
            'the Windows classes are not under contract; recv_bytes_into is proved for buffers of item size 1; pickle itself is an assumed contract.  When only a loop-invariant '
            'obligation fails, a bounded search (messages of 0..5 bytes, <= 4 short operations) looks for a failing input on the real code.',
}
