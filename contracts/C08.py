"""C08 -- terminate() and termination signals always end workers promptly."""
from pyvc.api import *
import pool_shared as ps
import handles as H
import worker as W
import timeouts as T

PROP = 'C08'
VARIANTS = ['main', 'reap', 'fork']
REPLAYERS = {'pool.Worker.workloop': 'replayers/workloop.py', 'pool.Pool._terminate_pool': 'replayers/terminate_pool.py',
             'pool.Pool._join_exited_workers': 'replayers/join_exited.py', 'pool.Worker._do_exit': 'replayers/worker_exit.py', 'pool.Worker.__call__': 'replayers/worker_exit.py',
             'pool.Worker.after_fork': 'replayers/after_fork.py', 'pool.soft_timeout_sighandler': 'replayers/after_fork.py'}

ASSUMPTIONS = [
    'the termination signal is modelled as arriving inside wait_for_job / wait_for_syn / the task / put (the points where the '
    'worker blocks or runs foreign code) and acting as common._shutdown_cleanup does, which is itself under contract here',
    'os._exit never returns; sys.exit(code) raises SystemExit(code); os.kill either delivers or raises OSError(errno)',
    'A-env: a delivered SIGTERM runs the installed handler; SIGKILL kills',
]
OUT_OF_REACH = [
    'that terminate() returns within a bounded time and that no pool thread is running afterwards (liveness; needs thread progress)',
    'signals arriving between two arbitrary statements of the worker loop other than at the modelled points '
    '(e.g. inside put while the result-queue write lock is held)',
    'of Pool._terminate_pool the order of the calls is proved, not that each of them returns',
]


def terminate_pool_contract(w):
    """Pool._terminate_pool (the finalizer behind terminate() and garbage collection): who is told what, in which order"""
    g = w.classes['g']
    g.fields.update({'ev': IntS, 'told_at': MapS(IntS, IntS), 'stop_at': MapS(IntS, IntS), 'sig_at': MapS(IntS, IntS),
                     'join_at': MapS(IntS, IntS), 'alive1': MapS(IntS, BoolS), 'alive2': MapS(IntS, BoolS),
                     'feeder_sentinels': IntS, 'result_sentinels': IntS, 'helped_at': IntS, 'closed_in': BoolS,
                     'closed_out': BoolS})

    def tick(ex):
        n = gget(ex, 'ev').e + 1
        gset(ex, 'ev', SV(IntS, n))
        return SV(IntS, n)

    def mark(field):
        def f(ex, args, kw):
            m = gget(ex, field)
            prove(ex, 'order.%s_once' % field, m.shape.select(m, SV(IntS, args[0].id)).e <= 0)
            gset(ex, field, m.shape.store(m, SV(IntS, args[0].id), tick(ex)))
            return SNone()
        return f

    def th_terminate(ex, args, kw):
        ex.path.write_field(args[0], '_state', mk_int(2))
        return mark('told_at')(ex, args, kw)

    def alive(field):
        def f(ex, args, kw):
            b = BoolS.fresh('alive')
            m = gget(ex, field)
            gset(ex, field, m.shape.store(m, SV(IntS, args[0].id), b))
            return b
        return f
    w.cls('ThreadT', module='pool', pyname='PoolThread', fields={'_state': IntS},
          methods={'terminate': th_terminate, 'stop': mark('stop_at')})
    w.cls('WorkerT', fields={'pid': IntS, '_popen': opt(ValS)},
          methods={'_is_alive': alive('alive1'), 'is_alive': alive('alive2'), 'terminate': mark('sig_at'), 'join': mark('join_at')})

    def q_put(ex, args, kw):
        q = args[0]
        scope = ex.root.scopes[0]
        if ex.path.decide(q.e == scope['taskqueue'].e):
            prove(ex, 'order.feeder_told_before_its_sentinel', ex.path.read_field(scope['task_handler'], '_state').e == 2)
            gset(ex, 'feeder_sentinels', SV(IntS, gget(ex, 'feeder_sentinels').e + 1))
        else:
            ex.path.assume(q.e == scope['outqueue'].e)
            gset(ex, 'result_sentinels', SV(IntS, gget(ex, 'result_sentinels').e + 1))
        tick(ex)
        return SNone()

    def result_sentinel(ex, args, kw):
        gset(ex, 'result_sentinels', SV(IntS, gget(ex, 'result_sentinels').e + 1))
        tick(ex)
        return SNone()

    def q_close(ex, args, kw):
        scope = ex.root.scopes[0]
        if ex.path.decide(args[0].e == scope['inqueue'].e):
            gset(ex, 'closed_in', mk_bool(True))
        else:
            gset(ex, 'closed_out', mk_bool(True))
        return SNone()

    def help_finish(ex, args, kw):
        gset(ex, 'helped_at', tick(ex))
        return SNone()
    TH = 'told_at[idof(%s)]'
    every_worker = ('all(implies(0 <= j and j < len(pool), %s) for j in ints())')
    signalled = every_worker % ('(g.sig_at[idof(at(pool, j))] > 0) == g.alive1[idof(at(pool, j))] and '
                                'implies(g.sig_at[idof(at(pool, j))] > 0, g.sig_at[idof(at(pool, j))] > g.told_at[idof(worker_handler)] '
                                'and g.sig_at[idof(at(pool, j))] > g.told_at[idof(task_handler)])')
    joined = every_worker % ('(g.join_at[idof(at(pool, j))] > 0) == (g.alive2[idof(at(pool, j))] and at(pool, j)._popen is not None) and '
                             'implies(g.join_at[idof(at(pool, j))] > 0, g.join_at[idof(at(pool, j))] > g.stop_at[idof(result_handler)])')
    zero = ('all(g.told_at[k] == 0 and g.stop_at[k] == 0 and g.sig_at[k] == 0 and g.join_at[k] == 0 and not g.alive1[k] '
            'and not g.alive2[k] for k in ints())')
    return Contract(
        'pool.Pool._terminate_pool', prop=PROP,
        params={'cls': ValS, 'taskqueue': ValS, 'inqueue': ValS, 'outqueue': ValS, 'pool': list_of(ref('WorkerT')),
                'worker_handler': ref('ThreadT'), 'task_handler': ref('ThreadT'), 'result_handler': ref('ThreadT'),
                'cache': ValS, 'timeout_handler': opt(ref('ThreadT')), 'help_stuff_finish_args': ValS},
        externals={'<opaque>.put': q_put, '<opaque>.close': q_close, 'pool.debug': lambda ex, a, k: SNone(),
                   # cls may be a subclass (Celery overrides all three): assumed to do what the methods of Pool do -- help the
                   # feeder finish, put one sentinel on the outqueue, join the feeder
                   '<opaque>._help_stuff_finish': help_finish, '<opaque>._set_result_sentinel': result_sentinel,
                   '<opaque>._stop_task_handler': lambda ex, a, k: mark('stop_at')(ex, a[1:], k),
                   },
        requires={
            'fresh': 'g.ev == 0 and g.feeder_sentinels == 0 and g.result_sentinels == 0 and g.helped_at == 0 and '
                     'not g.closed_in and not g.closed_out and ' + zero,
            'objects': 'allocated(pool) and len(pool) >= 0 and allocated(worker_handler) and allocated(task_handler) and '
                       'allocated(result_handler) and (timeout_handler is None or allocated(val(timeout_handler))) and '
                       'worker_handler != task_handler and worker_handler != result_handler and task_handler != result_handler '
                       'and (timeout_handler is None or (val(timeout_handler) != worker_handler and val(timeout_handler) != '
                       'task_handler and val(timeout_handler) != result_handler)) and taskqueue != outqueue and inqueue != outqueue',
            'workers': 'all(implies(0 <= i and i < j and j < len(pool), at(pool, i) != at(pool, j)) for i in ints() for j in ints()) '
                       'and all(implies(0 <= j and j < len(pool), allocated(at(pool, j))) for j in ints())',
        },
        modifies=['g.*', 'ThreadT._state'],
        loops={0: {'inv': {'signalled_so_far': 'all(implies(0 <= j and j < len(pool), '
                                               '(g.sig_at[idof(at(pool, j))] > 0) == (j < _i and g.alive1[idof(at(pool, j))]) and '
                                               'implies(g.sig_at[idof(at(pool, j))] > 0, g.sig_at[idof(at(pool, j))] > g.told_at[idof(worker_handler)] '
                                               'and g.sig_at[idof(at(pool, j))] > g.told_at[idof(task_handler)])) for j in ints())',
                           'clock': 'g.ev > g.told_at[idof(worker_handler)] and g.ev > g.told_at[idof(task_handler)] and '
                                    'g.told_at[idof(worker_handler)] == 1 and g.told_at[idof(task_handler)] == 2',
                           'rest': 'g.feeder_sentinels == 1 and g.result_sentinels == 1 and g.helped_at > 0 and '
                                   'g.stop_at[idof(result_handler)] == 0 and g.stop_at[idof(task_handler)] == 0 and '
                                   'all(g.join_at[k] == 0 for k in ints())'},
                   'modifies': ['g.ev', 'g.sig_at', 'g.alive1']},
               1: {'inv': {'signalled': signalled,
                           'joined_so_far': 'all(implies(0 <= j and j < len(pool), '
                                            '(g.join_at[idof(at(pool, j))] > 0) == (j < _i and g.alive2[idof(at(pool, j))] and at(pool, j)._popen is not None) and '
                                            'implies(g.join_at[idof(at(pool, j))] > 0, g.join_at[idof(at(pool, j))] > g.stop_at[idof(result_handler)])) for j in ints())',
                           'clock': 'g.ev >= g.stop_at[idof(result_handler)] and g.stop_at[idof(result_handler)] > 0 and '
                                    'g.stop_at[idof(task_handler)] > 0 and g.stop_at[idof(task_handler)] < g.stop_at[idof(result_handler)]',
                           'rest': 'g.feeder_sentinels == 1 and g.result_sentinels == 1 and g.helped_at > 0 and '
                                   'g.told_at[idof(worker_handler)] == 1 and g.told_at[idof(task_handler)] == 2 and '
                                   'g.told_at[idof(result_handler)] == 0 and '
                                   '(timeout_handler is None or (g.told_at[idof(val(timeout_handler))] > 0 and '
                                   'g.stop_at[idof(val(timeout_handler))] > g.stop_at[idof(result_handler)]))'},
                   'modifies': ['g.ev', 'g.join_at', 'g.alive2']}},
        ensures={
            # no replacement is forked for a worker we are about to kill: the supervisor is told first, the feeder next
            'supervisor_then_feeder_are_told_first': 'g.told_at[idof(worker_handler)] == 1 and g.told_at[idof(task_handler)] == 2 '
                                                    'and worker_handler._state == 2 and task_handler._state == 2',
            'one_sentinel_each_for_feeder_and_result_thread': 'g.feeder_sentinels == 1 and g.result_sentinels == 1 and g.helped_at > 0',
            # results delivered before the call stay intact: the result thread is not terminated, it drains and is joined
            'result_thread_is_joined_not_terminated': 'g.told_at[idof(result_handler)] == 0 and '
                                                      'result_handler._state == old(result_handler._state) and '
                                                      'g.stop_at[idof(result_handler)] > g.stop_at[idof(task_handler)] and '
                                                      'g.stop_at[idof(task_handler)] > 0',
            'time_limit_thread_told_and_joined': 'implies(timeout_handler is not None, g.told_at[idof(val(timeout_handler))] > 0 '
                                                 'and g.stop_at[idof(val(timeout_handler))] > 0)',
            'every_worker_alive_is_signalled_after_the_supervisor_was_told': 'implies(len(pool) > 0, %s)' % signalled,
            'every_worker_still_alive_is_joined_after_the_helper_threads': 'implies(len(pool) > 0, %s)' % joined,
            'queues_closed_at_the_end': 'g.closed_in == truthy(inqueue) and g.closed_out == truthy(outqueue)',
            'no_worker_is_touched_in_an_empty_pool': 'implies(len(pool) == 0, all(g.sig_at[k] == 0 and g.join_at[k] == 0 for k in ints()))',
        },
    )


def worker_call_contract(w):
    """Worker.__call__: whatever happens in the loop, the child ends in _do_exit with the status the loop (or the signal
    handler, through sys.exit) named"""
    g = w.classes['g']
    g.fields.update({'wc_outcome': IntS, 'wc_code': opt(IntS), 'wc_exits': IntS, 'wc_exit_code': opt(IntS), 'wc_exit_exc': BoolS,
                     'wc_setup': IntS})
    w.cls('WorkerCall', module='pool', pyname='Worker', fields={})

    def ext_workloop(ex, args, kw):
        k = ex.path.choose(4)
        gset(ex, 'wc_outcome', mk_int(k))
        if k == 0:                                   # the loop returns a status (EX_OK / EX_RECYCLE / EX_FAILURE)
            c = IntS.fresh('loop_status')
            gset(ex, 'wc_code', coerce(ex.path, c, opt(IntS)))
            return c
        if k == 1:                                   # the termination handler ran: sys.exit(status) inside the loop
            c = IntS.fresh('signal_status')
            gset(ex, 'wc_code', coerce(ex.path, c, opt(IntS)))
            # (common._shutdown_cleanup calls sys.exit: by now that is the wrapper __call__ installed)
            wrapper = ex.path.__dict__.get('module_overrides', {}).get('sys.exit')
            prove(ex, 'exit.sys_exit_is_wrapped_before_the_loop_runs', z3.BoolVal(wrapper is not None))
            if wrapper is None:
                raise_exc(ex, 'SystemExit', c)
            return ex.call_value(wrapper, [c], {})
        if k == 2:
            raise_exc(ex, 'AnyException')
        raise_exc(ex, 'AnyBaseException')

    def ext_do_exit(ex, args, kw):
        if ex.path.decide(gget(ex, 'wc_exits').e >= 1):
            # (the process ended in the first _do_exit: os._exit runs no finally block; the model's ProcessExit exception
            # does, so what it reaches afterwards is not executed by anybody)
            raise PyExc(VExc('ProcessExit', [args[2]]))
        gset(ex, 'wc_exits', SV(IntS, gget(ex, 'wc_exits').e + 1))
        gset(ex, 'wc_exit_code', coerce(ex.path, args[2], opt(IntS)))
        gset(ex, 'wc_exit_exc', mk_bool(not isinstance(args[3] if len(args) > 3 else SNone(), SNone)))
        raise PyExc(VExc('ProcessExit', [args[2]]))

    def setup(ex, args, kw):
        gset(ex, 'wc_setup', SV(IntS, gget(ex, 'wc_setup').e + 1))
        return SNone()
    return Contract(
        'pool.Worker.__call__', prop=PROP, variants=['main'], params={'self': ref('WorkerCall')},
        externals={'pool.Worker.workloop': ext_workloop, 'pool.Worker._do_exit': ext_do_exit, 'pool.Worker.after_fork': setup,
                   'pool.Worker._make_child_methods': setup, 'pool.Worker.on_loop_start': setup,
                   'os.getpid': lambda ex, a, k: IntS.fresh('pid'), 'pool.error': lambda ex, a, k: SNone()},
        requires={'fresh': 'g.wc_exits == 0 and g.wc_setup == 0'},
        modifies=['g.wc_outcome', 'g.wc_code', 'g.wc_exits', 'g.wc_exit_code', 'g.wc_exit_exc', 'g.wc_setup'],
        ensures={'never_returns': 'False'},
        raises={'ProcessExit': {
            'ends_in_one_exit_with_the_status_the_loop_named':
                'g.wc_exits == 1 and g.wc_setup == 3 and '
                'implies(g.wc_outcome == 0 or g.wc_outcome == 1, g.wc_exit_code == g.wc_code and not g.wc_exit_exc) and '
                'implies(g.wc_outcome == 2, g.wc_exit_code is None and g.wc_exit_exc) and '
                'implies(g.wc_outcome == 3, g.wc_exit_code is None and not g.wc_exit_exc)'}},
    )


class _Exit(Exception):
    pass


def ext_os_exit(ex, args, kw):
    """os._exit(code): the process ends here (recorded); never returns"""
    gset(ex, 'exited', mk_bool(True))
    gset(ex, 'exit_code', coerce(ex.path, args[0], opt(IntS)))
    raise PyExc(VExc('ProcessExit', [args[0]]))


def ext_sys_exit(ex, args, kw):
    code = args[0] if args else SNone()
    raise PyExc(VExc('SystemExit', [code], {'code': code}))


def ext_setsignal(ex, args, kw):
    """maybe_setsignal(signum, handler): records the disposition"""
    h = gget(ex, 'handler')
    gset(ex, 'handler', h.shape.store(h, coerce(ex.path, args[0], IntS), coerce(ex.path, args[1], ValS)))
    return SNone()


def ext_kill(ex, args, kw):
    """os.kill(pid, sig): delivered (recorded), OSError(ESRCH) if the process is gone, or another OSError"""
    gset(ex, 'sig_target', coerce(ex.path, args[0], opt(IntS)))
    gset(ex, 'sig_num', coerce(ex.path, args[1], opt(IntS)))
    k = ex.path.choose(3)
    if k == 1:
        raise PyExc(VExc('OSError', [mk_int(3)], {'errno': mk_int(3)}))
    if k == 2:
        e = IntS.fresh('errno')
        ex.path.assume(e.e != 3)
        raise PyExc(VExc('OSError', [e], {'errno': e}))
    gset(ex, 'signals', SV(IntS, gget(ex, 'signals').e + 1))
    return SNone()


def ext_outq_put(ex, args, kw):
    gset(ex, 'death_notice', mk_bool(True))
    if ex.path.choose(2) == 1:
        raise_exc(ex, 'AnyException')
    return SNone()


def ext_on_exit(ex, args, kw):
    """the worker's exit callback: called with (pid, exitcode) -- recorded"""
    gset(ex, 'on_exit_calls', SV(IntS, gget(ex, 'on_exit_calls').e + 1))
    gset(ex, 'on_exit_code', coerce(ex.path, args[2], opt(IntS)))
    if ex.path.choose(2) == 1:
        raise_exc(ex, 'AnyException')
    return SNone()


def build(w, variant='main'):
    if variant == 'fork':
        # what the child installs before it takes jobs (shared with C06): exit flag cleared, then the termination handlers
        import worker_fork
        w.cls('g', fields={})
        return worker_fork.fork_contracts(w, PROP)
    if variant == 'reap':
        # the finalizer behind terminate() holds the worker list, the cache and the registries it was given when the pool was
        # made: the supervision tick must keep updating those very objects (C07's contract of the tick, with that clause)
        import C07 as c07
        reap = [c for c in c07.build(w, 'apply') if c.qualname.endswith('_join_exited_workers')][0]
        reap.prop = PROP
        return [reap]
    ps.declare(w)
    H.declare_handles(w)
    ps.declare_handlers(w)
    W.declare_worker(w)
    g = w.classes['g']
    g.fields.update({'exited': BoolS, 'exit_code': opt(IntS), 'handler': MapS(IntS, ValS), 'exit_flag': list_of(BoolS),
                     'sig_target': opt(IntS), 'sig_num': opt(IntS), 'death_notice': BoolS, 'on_exit_calls': IntS,
                     'on_exit_code': opt(IntS)})
    for c in H.apply_handle_contracts(PROP):
        w.contracts.setdefault(c.qualname, c)
    worker_flag = w.global_overrides['common._should_have_exited']

    def flag(ex):
        me = ex.root.scopes[0].get('self')
        if isinstance(me, SRef) and me.shape.cls == 'WorkerC':
            return worker_flag(ex)
        return gget(ex, 'exit_flag')
    w.global_overrides['common._should_have_exited'] = flag
    w.global_overrides['pool._should_have_exited'] = flag
    w.externals.update({'os._exit': ext_os_exit, 'sys.exit': ext_sys_exit, 'common.maybe_setsignal': ext_setsignal,
                        'os.kill': ext_kill, 'compat.get_errno': lambda ex, a, k: ex.getattr(a[0], 'errno')})

    cleanup = Contract(
        'common._shutdown_cleanup', prop=PROP,
        params={'signum': IntS, 'frame': ValS},
        requires={'flag': 'allocated(g.exit_flag) and len(g.exit_flag) == 1 and not g.exited', 'sig': 'signum >= 1 and signum <= 64'},
        modifies=['g.exit_flag.*', 'g.handler', 'g.exited', 'g.exit_code'],
        ensures={'never_returns': 'False'},
        raises={
            # first termination signal: the flag is set, the default disposition restored, SystemExit raised
            'SystemExit': {'first_signal': 'not old(at(g.exit_flag, 0)) and at(g.exit_flag, 0) and not g.exited',
                           'exit_status_names_the_signal': 'exc.code == -(256 - signum)'},
            # second one: something is very wrong -- leave at once
            'ProcessExit': {'second_signal': 'old(at(g.exit_flag, 0)) and g.exited and g.exit_code == 70'},
        },
    )
    w.cls('WorkerX', module='pool', pyname='Worker', fields={'on_exit': opt(ValS), 'outq': ValS})
    do_exit = Contract(
        'pool.Worker._do_exit', prop=PROP,
        params={'self': ref('WorkerX'), 'pid': IntS, 'exitcode': opt(IntS), 'exc': opt(ValS)},
        externals={'<callable>': ext_on_exit, '<opaque>.put': ext_outq_put},
        requires={'fresh': 'g.on_exit_calls == 0 and not g.exited and not g.death_notice',
                  'cb': 'self.on_exit is None or truthy(self.on_exit)'},
        modifies=['g.on_exit_calls', 'g.on_exit_code', 'g.death_notice', 'g.exited', 'g.exit_code', 'g.now', 'g.sleeps'],
        lets={'code': 'exitcode if exitcode is not None else ite(old(exc) is not None and truthy(old(exc)), 1, 0)'},
        ensures={'never_returns': 'False'},
        raises={
            'ProcessExit': {'exit_callback_runs_once_with_the_status':
                            'implies(self.on_exit is not None, g.on_exit_calls == 1 and g.on_exit_code == code)',
                            'exits_with_that_status': 'g.exited and g.exit_code == code',
                            'death_notice_sent': 'g.death_notice'},
            # the exit callback itself raised: the process still goes down through __call__'s finally
            'AnyException': {'callback_failed': 'g.on_exit_calls == 1 and not g.death_notice'},
        },
    )
    term_job = Contract(
        'pool.Pool.terminate_job', prop=PROP,
        params={'self': ref('Pool'), 'pid': IntS, 'sig': opt(IntS)},
        inline=['pool.Pool._process_by_pid'],
        requires={'pool': 'allocated(self._pool) and len(self._pool) >= 0',
                  'distinct': Forall({'i': 'ints()', 'j': 'ints()'}, 'implies(0 <= i and i < j and j < len(self._pool), '
                                     'at(self._pool, i) != at(self._pool, j) and at(self._pool, i).pid != at(self._pool, j).pid)')},
        modifies=['WorkerP._controlled_termination', 'WorkerP._job_terminated', 'g.sig_target', 'g.sig_num', 'g.signals'],
        ensures={
            'signal_goes_to_that_worker': 'implies(g.signals > old(g.signals), g.sig_target == pid and '
                                          'g.sig_num == (val(sig) if sig is not None and sig != 0 else 15))',
            'at_most_one_signal': 'g.signals <= old(g.signals) + 1',
            # so that the supervisor reports the job as Terminated, not as a lost worker
            'signalled_worker_is_marked_terminated': Forall({'j': 'ints()'},
                'implies(0 <= j and j < len(self._pool) and at(self._pool, j).pid == pid and g.signals > old(g.signals), '
                'at(self._pool, j)._job_terminated and at(self._pool, j)._controlled_termination)'),
            'marked_terminated_only_if_signalled': Forall({'j': 'ints()'},
                'implies(0 <= j and j < len(self._pool) and at(self._pool, j)._job_terminated and '
                'not old(at(self._pool, j)._job_terminated), g.signals > old(g.signals) and at(self._pool, j).pid == pid)'),
        },
        raises={'OSError': {'only_other_than_no_such_process': 'exc.errno != 3'}},
    )
    on_death = Contract(
        'pool.ResultHandler._make_methods.<locals>.on_death', prop=PROP,
        enclosing={'self': ref('ResultHandler')},
        params={'pid': IntS, 'exitcode': opt(IntS)},
        modifies=['g.sig_target', 'g.sig_num', 'g.signals', 'ResultHandler.state_handlers', 'ResultHandler.on_state_change'],
        ensures={'dying_worker_is_signalled': 'implies(g.signals > old(g.signals), g.sig_target == pid and g.sig_num == 15)'},
        raises={'OSError': {'only_other_than_no_such_process': 'exc.errno != 3'}},
    )
    return [W.workloop_contract(PROP), cleanup, do_exit, term_job, on_death, H.set_terminated_contract(PROP),
            terminate_pool_contract(w), worker_call_contract(w)]


MANIFEST_ENTRY = {
    'text': 'Proof of the safety skeleton: the worker loop (loop invariant, all job sequences) takes no further job, starts no task '
            'and sends nothing once the termination signal has arrived -- whether it arrives while the worker waits for a job, '
            'waits for the acknowledgement, runs task code or sends a result -- and leaves by that SystemExit after the '
            'consumed-check (refuted on the pinned tree and replayed: defect D2, fixed); the signal handler sets the exit flag, '
            'restores the default disposition and raises SystemExit(-(256-signum)) on the first signal and os._exit(EX_SOFTWARE) '
            'on a second one; _do_exit runs the exit callback once with the status, sends the death notice and always ends in '
            'os._exit(status); terminate_job signals exactly the worker with that pid and marks it terminated only if the signal '
            'was delivered; on_death signals the dying worker; _set_terminated fails that job with Terminated.  Pool._terminate_pool '
            '(two loop invariants over the worker list, any pool size): the supervisor is told to terminate first and the feeder '
            'next, before any worker is signalled (no replacement is forked for a worker being killed); the feeder and the result '
            'thread get exactly one sentinel each; the result thread is joined but never terminated (it keeps draining, so '
            'results already delivered stay intact); exactly the workers alive at the first test are signalled, once; exactly '
            'the workers still alive afterwards (with a process object) are joined, once, after the helper threads; both queues '
            'are closed.  The supervision tick (variant reap: the contract of C04/C07) updates the worker list, the cache and the '
            'registries in place -- they stay the objects the finalizer was given when the pool was made.  Worker.after_fork '
            '(variant fork) clears the exit flag a child may have inherited set before it installs the termination handlers '
            '(once, with the worker\'s protection level), so that the first termination signal is never taken for a second one.  '
            'Worker.__call__ wraps sys.exit before the loop runs, sets the child up (three steps) and always ends in exactly '
            'one _do_exit: with the status the loop returned or the termination handler named through sys.exit, with the '
            'exception (and no status) if the loop failed, with neither for any other BaseException.',
    'note': 'Bounded-time return of terminate() and "no thread running afterwards" are liveness and out of reach; '
            'of _terminate_pool the order and targets of the calls are proved, with the three overridable hooks of the class '
            '(_help_stuff_finish, _set_result_sentinel, _stop_task_handler) as assumed contracts; signal delivery is assumed.  '
            'Observation (outside the property): the receive closures raise SystemExit(EX_FAILURE) directly, not through the '
            'wrapped sys.exit, so Worker.__call__ hands _do_exit no status and a child whose pipe broke exits with status 0.',
}
