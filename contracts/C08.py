"""C08 -- terminate() and termination signals always end workers promptly."""
from pyvc.api import *
import pool_shared as ps
import handles as H
import worker as W
import timeouts as T

PROP = 'C08'
REPLAYERS = {'pool.Worker.workloop': 'replayers/workloop.py'}

ASSUMPTIONS = [
    'the termination signal is modelled as arriving inside wait_for_job / wait_for_syn / the task / put (the points where the '
    'worker blocks or runs foreign code) and acting as common._shutdown_cleanup does, which is itself under contract here',
    'os._exit never returns; sys.exit(code) raises SystemExit(code); os.kill either delivers or raises OSError(errno)',
    'A-env: a delivered SIGTERM runs the installed handler; SIGKILL kills',
]
OUT_OF_REACH = [
    'that terminate() returns within a bounded time and that no pool thread is running afterwards (liveness; needs thread progress)',
    'signals arriving between two arbitrary statements of the worker loop other than at the modelled points '
    '(e.g. inside put while the result-queue write lock is held)',
    'Pool._terminate_pool / Worker.__call__ (they replace sys.exit / join threads): not under contract',
]


class _Exit(Exception):
    pass


def ext_os_exit(ex, args, kw):
    """os._exit(code): the process ends here (recorded); never returns"""
    gset(ex, 'exited', mk_bool(True))
    gset(ex, 'exit_code', coerce(ex.path, args[0], opt(IntS)))
    raise PyExc(VExc('ProcessExit', [args[0]]))


def ext_sys_exit(ex, args, kw):
    code = args[0] if args else SNone()
    raise PyExc(VExc('SystemExit', [code], {'code': code}))


def ext_setsignal(ex, args, kw):
    """maybe_setsignal(signum, handler): records the disposition"""
    h = gget(ex, 'handler')
    gset(ex, 'handler', h.shape.store(h, coerce(ex.path, args[0], IntS), coerce(ex.path, args[1], ValS)))
    return SNone()


def ext_kill(ex, args, kw):
    """os.kill(pid, sig): delivered (recorded), OSError(ESRCH) if the process is gone, or another OSError"""
    gset(ex, 'sig_target', coerce(ex.path, args[0], opt(IntS)))
    gset(ex, 'sig_num', coerce(ex.path, args[1], opt(IntS)))
    k = ex.path.choose(3)
    if k == 1:
        raise PyExc(VExc('OSError', [mk_int(3)], {'errno': mk_int(3)}))
    if k == 2:
        e = IntS.fresh('errno')
        ex.path.assume(e.e != 3)
        raise PyExc(VExc('OSError', [e], {'errno': e}))
    gset(ex, 'signals', SV(IntS, gget(ex, 'signals').e + 1))
    return SNone()


def ext_outq_put(ex, args, kw):
    gset(ex, 'death_notice', mk_bool(True))
    if ex.path.choose(2) == 1:
        raise_exc(ex, 'AnyException')
    return SNone()


def ext_on_exit(ex, args, kw):
    """the worker's exit callback: called with (pid, exitcode) -- recorded"""
    gset(ex, 'on_exit_calls', SV(IntS, gget(ex, 'on_exit_calls').e + 1))
    gset(ex, 'on_exit_code', coerce(ex.path, args[2], opt(IntS)))
    if ex.path.choose(2) == 1:
        raise_exc(ex, 'AnyException')
    return SNone()


def build(w):
    ps.declare(w)
    H.declare_handles(w)
    ps.declare_handlers(w)
    W.declare_worker(w)
    g = w.classes['g']
    g.fields.update({'exited': BoolS, 'exit_code': opt(IntS), 'handler': MapS(IntS, ValS), 'exit_flag': list_of(BoolS),
                     'sig_target': opt(IntS), 'sig_num': opt(IntS), 'death_notice': BoolS, 'on_exit_calls': IntS,
                     'on_exit_code': opt(IntS)})
    for c in H.apply_handle_contracts(PROP):
        w.contracts.setdefault(c.qualname, c)
    worker_flag = w.global_overrides['common._should_have_exited']

    def flag(ex):
        me = ex.root.scopes[0].get('self')
        if isinstance(me, SRef) and me.shape.cls == 'WorkerC':
            return worker_flag(ex)
        return gget(ex, 'exit_flag')
    w.global_overrides['common._should_have_exited'] = flag
    w.global_overrides['pool._should_have_exited'] = flag
    w.externals.update({'os._exit': ext_os_exit, 'sys.exit': ext_sys_exit, 'common.maybe_setsignal': ext_setsignal,
                        'os.kill': ext_kill, 'compat.get_errno': lambda ex, a, k: ex.getattr(a[0], 'errno')})

    cleanup = Contract(
        'common._shutdown_cleanup', prop=PROP,
        params={'signum': IntS, 'frame': ValS},
        requires={'flag': 'allocated(g.exit_flag) and len(g.exit_flag) == 1 and not g.exited', 'sig': 'signum >= 1 and signum <= 64'},
        modifies=['g.exit_flag.*', 'g.handler', 'g.exited', 'g.exit_code'],
        ensures={'never_returns': 'False'},
        raises={
            # first termination signal: the flag is set, the default disposition restored, SystemExit raised
            'SystemExit': {'first_signal': 'not old(at(g.exit_flag, 0)) and at(g.exit_flag, 0) and not g.exited',
                           'exit_status_names_the_signal': 'exc.code == -(256 - signum)'},
            # second one: something is very wrong -- leave at once
            'ProcessExit': {'second_signal': 'old(at(g.exit_flag, 0)) and g.exited and g.exit_code == 70'},
        },
    )
    w.cls('WorkerX', module='pool', pyname='Worker', fields={'on_exit': opt(ValS), 'outq': ValS})
    do_exit = Contract(
        'pool.Worker._do_exit', prop=PROP,
        params={'self': ref('WorkerX'), 'pid': IntS, 'exitcode': opt(IntS), 'exc': opt(ValS)},
        externals={'<callable>': ext_on_exit, '<opaque>.put': ext_outq_put},
        requires={'fresh': 'g.on_exit_calls == 0 and not g.exited and not g.death_notice',
                  'cb': 'self.on_exit is None or truthy(self.on_exit)'},
        modifies=['g.on_exit_calls', 'g.on_exit_code', 'g.death_notice', 'g.exited', 'g.exit_code', 'g.now', 'g.sleeps'],
        lets={'code': 'exitcode if exitcode is not None else ite(old(exc) is not None and truthy(old(exc)), 1, 0)'},
        ensures={'never_returns': 'False'},
        raises={
            'ProcessExit': {'exit_callback_runs_once_with_the_status':
                            'implies(self.on_exit is not None, g.on_exit_calls == 1 and g.on_exit_code == code)',
                            'exits_with_that_status': 'g.exited and g.exit_code == code',
                            'death_notice_sent': 'g.death_notice'},
            # the exit callback itself raised: the process still goes down through __call__'s finally
            'AnyException': {'callback_failed': 'g.on_exit_calls == 1 and not g.death_notice'},
        },
    )
    term_job = Contract(
        'pool.Pool.terminate_job', prop=PROP,
        params={'self': ref('Pool'), 'pid': IntS, 'sig': opt(IntS)},
        inline=['pool.Pool._process_by_pid'],
        requires={'pool': 'allocated(self._pool) and len(self._pool) >= 0',
                  'distinct': Forall({'i': 'ints()', 'j': 'ints()'}, 'implies(0 <= i and i < j and j < len(self._pool), '
                                     'at(self._pool, i) != at(self._pool, j) and at(self._pool, i).pid != at(self._pool, j).pid)')},
        modifies=['WorkerP._controlled_termination', 'WorkerP._job_terminated', 'g.sig_target', 'g.sig_num', 'g.signals'],
        ensures={
            'signal_goes_to_that_worker': 'implies(g.signals > old(g.signals), g.sig_target == pid and '
                                          'g.sig_num == (val(sig) if sig is not None and sig != 0 else 15))',
            'at_most_one_signal': 'g.signals <= old(g.signals) + 1',
            # so that the supervisor reports the job as Terminated, not as a lost worker
            'signalled_worker_is_marked_terminated': Forall({'j': 'ints()'},
                'implies(0 <= j and j < len(self._pool) and at(self._pool, j).pid == pid and g.signals > old(g.signals), '
                'at(self._pool, j)._job_terminated and at(self._pool, j)._controlled_termination)'),
            'marked_terminated_only_if_signalled': Forall({'j': 'ints()'},
                'implies(0 <= j and j < len(self._pool) and at(self._pool, j)._job_terminated and '
                'not old(at(self._pool, j)._job_terminated), g.signals > old(g.signals) and at(self._pool, j).pid == pid)'),
        },
        raises={'OSError': {'only_other_than_no_such_process': 'exc.errno != 3'}},
    )
    on_death = Contract(
        'pool.ResultHandler._make_methods.<locals>.on_death', prop=PROP,
        enclosing={'self': ref('ResultHandler')},
        params={'pid': IntS, 'exitcode': opt(IntS)},
        modifies=['g.sig_target', 'g.sig_num', 'g.signals', 'ResultHandler.state_handlers', 'ResultHandler.on_state_change'],
        ensures={'dying_worker_is_signalled': 'implies(g.signals > old(g.signals), g.sig_target == pid and g.sig_num == 15)'},
        raises={'OSError': {'only_other_than_no_such_process': 'exc.errno != 3'}},
    )
    return [W.workloop_contract(PROP), cleanup, do_exit, term_job, on_death, H.set_terminated_contract(PROP)]


MANIFEST_ENTRY = {
    'text': 'Proof of the safety skeleton: the worker loop (loop invariant, all job sequences) takes no further job, starts no task '
            'and sends nothing once the termination signal has arrived -- whether it arrives while the worker waits for a job, '
            'waits for the acknowledgement, runs task code or sends a result -- and leaves by that SystemExit after the '
            'consumed-check (refuted on the pinned tree and replayed: defect D2, fixed); the signal handler sets the exit flag, '
            'restores the default disposition and raises SystemExit(-(256-signum)) on the first signal and os._exit(EX_SOFTWARE) '
            'on a second one; _do_exit runs the exit callback once with the status, sends the death notice and always ends in '
            'os._exit(status); terminate_job signals exactly the worker with that pid and marks it terminated only if the signal '
            'was delivered; on_death signals the dying worker; _set_terminated fails that job with Terminated.',
    'note': 'Bounded-time return of terminate() and "no thread running afterwards" are liveness and out of reach; '
            '_terminate_pool and Worker.__call__ are not under contract; signal delivery is assumed.',
}
