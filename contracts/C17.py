"""C17 -- conditions and events: the bookkeeping of each call (the sequential core; interleavings are out of reach)."""
from pyvc.api import *

PROP = 'C17'
REPLAYERS = {q: 'replayers/sync_ops.py' for q in (
    'synchronize.Condition.wait', 'synchronize.Condition.notify', 'synchronize.Condition.notify_all',
    'synchronize.Event.is_set', 'synchronize.Event.set', 'synchronize.Event.clear', 'synchronize.Event.wait')}

ASSUMPTIONS = [
    'the C SemLock: acquire(False) takes one unit iff the count is positive; a blocking acquire returns once a unit is there '
    '(other threads release meanwhile); a timed one may give up; release adds one unit (Lock, Semaphore, BoundedSemaphore are '
    'thin wrappers over it: their one-holder / never-more-than-count clauses are the C extension\'s, not under contract)',
    'one thread at a time between two blocking points of a call; what other threads do while a call blocks is modelled at '
    'that point only: sleepers that wake take wake-up tokens and announce themselves (woken_count)',
]
OUT_OF_REACH = [
    'the property itself: no lost wake-up, "a waiter that was waiting before notify_all is woken", "notify wakes at most one" '
    'as statements over all interleavings of waiters, notifiers and timeouts at semaphore-operation granularity -- a timeout '
    'firing between two specific operations of a concurrent notify is exactly what a contract on one call cannot express.  '
    'What is proved below is the arithmetic each call performs on the three counters and on the event flag, and that the flag '
    'is only touched under the condition\'s lock',
]


def declare(w):
    w.cls('g', fields={'released_any': BoolS, 'tokens': IntS, 'lock_releases': IntS, 'lock_acquires': IntS, 'cond_waits': IntS, 'notified_all': IntS})
    w.cls('Sem', fields={'count': IntS})
    w.cls('SemLockL', fields={'mine': BoolS, 'depth': IntS})
    w.cls('LockL', fields={'_semlock': ref('SemLockL')})
    w.cls('Cond', module='synchronize', pyname='Condition', fields={
        '_lock': ref('LockL'), '_sleeping_count': ref('Sem'), '_woken_count': ref('Sem'), '_wait_semaphore': ref('Sem')})
    w.cls('ECond', fields={'held': BoolS})
    w.cls('Ev', module='synchronize', pyname='Event', fields={'_cond': ref('ECond'), '_flag': ref('Sem')})


def sem_acquire(ex, args, kw):
    me = args[0]
    P = ex.path
    block = args[1] if len(args) > 1 else mk_bool(True)
    timeout = args[2] if len(args) > 2 else SNone()
    c = P.read_field(me, 'count')
    if P.decide(c.e > 0):
        P.write_field(me, 'count', SV(IntS, c.e - 1))
        return mk_bool(True)
    if not ex.test(block):
        return mk_bool(False)
    timed = not isinstance(timeout, SNone) and not (isinstance(timeout, SOpt) and P.decide(timeout.isnone))
    if timed and P.choose(2) == 1:
        return mk_bool(False)           # timed out
    return mk_bool(True)                # another thread released a unit, which this call took


def sem_release(ex, args, kw):
    me = args[0]
    c = ex.path.read_field(me, 'count')
    ex.path.write_field(me, 'count', SV(IntS, c.e + 1))
    return SNone()


def build(w):
    declare(w)
    w.classes['Sem'].methods.update({'acquire': sem_acquire, 'release': sem_release})
    w.classes['SemLockL'].methods.update({
        '_is_mine': lambda ex, a, k: ex.path.read_field(a[0], 'mine'),
        '_count': lambda ex, a, k: ex.path.read_field(a[0], 'depth')})
    w.classes['LockL'].methods.update({
        'release': lambda ex, a, k: (gset(ex, 'lock_releases', SV(IntS, gget(ex, 'lock_releases').e + 1)),
                                     gset(ex, 'released_any', mk_bool(True)), SNone())[2],
        'acquire': lambda ex, a, k: (gset(ex, 'lock_acquires', SV(IntS, gget(ex, 'lock_acquires').e + 1)), mk_bool(True))[1]})
    w.classes['ECond'].methods.update({
        'with_enter': lambda ex, a, k: (ex.path.write_field(a[0], 'held', mk_bool(True)), SNone())[1],
        'with_exit': lambda ex, a, k: (ex.path.write_field(a[0], 'held', mk_bool(False)), SNone())[1],
        'notify_all': lambda ex, a, k: (gset(ex, 'notified_all', SV(IntS, gget(ex, 'notified_all').e + 1)), SNone())[1],
        'wait': lambda ex, a, k: (gset(ex, 'cond_waits', SV(IntS, gget(ex, 'cond_waits').e + 1)),
                                  # while the caller sleeps, other threads may set or clear the event
                                  ex.path.write_field(ex.path.read_field(ex.root.scopes[0]['self'], '_flag'), 'count',
                                                      SV(IntS, z3.If(BoolS.fresh('set_meanwhile').e, 1, 0))), SNone())[2]})
    S, Wk, T = 'self._sleeping_count.count', 'self._woken_count.count', 'self._wait_semaphore.count'
    cwf = ('allocated(self._lock) and allocated(self._lock._semlock) and allocated(self._sleeping_count) and '
           'allocated(self._woken_count) and allocated(self._wait_semaphore) and self._sleeping_count != self._woken_count and '
           'self._sleeping_count != self._wait_semaphore and self._woken_count != self._wait_semaphore and '
           '%s >= 0 and %s >= 0 and %s >= %s and %s >= 0' % (Wk, T, S, Wk, S))
    waiting = '(old(%s) - old(%s))' % (S, Wk)
    cmod = ['Sem.count', 'g.tokens', 'g.lock_releases', 'g.lock_acquires']
    # waking a sleeper = releasing one unit of the wait semaphore
    def announced_under_the_lock(ex, sem):
        # a notifier needs the condition's lock to look at the sleeper count: a waiter that gives the lock up before it
        # has announced itself can be overlooked (lost wake-up) -- the announcement is guarded by the lock
        me = ex.root.scopes[0]['self']
        if me.shape.cls == 'Cond' and ex.root.qualname.endswith('Condition.wait') and \
                ex.path.decide(sem.id == ex.path.read_field(me, '_sleeping_count').id):
            prove(ex, 'guarded.sleeper_announced_before_the_condition_lock_is_given_up', z3.Not(gget(ex, 'released_any').e))
    w.classes['Sem'].methods['release'] = lambda ex, a, k: (
        announced_under_the_lock(ex, a[0]),
        sem_release(ex, a, k),
        gset(ex, 'tokens', SV(IntS, gget(ex, 'tokens').e + z3.If(
            a[0].id == ex.path.read_field(ex.root.scopes[0]['self'], '_wait_semaphore').id, 1, 0)))
        if 'Cond' == ex.root.scopes[0]['self'].shape.cls else None, SNone())[2]

    wait = Contract(
        'synchronize.Condition.wait', prop=PROP, params={'self': ref('Cond'), 'timeout': opt(RealS)},
        requires={'wf': cwf, 'lock_depth': 'self._lock._semlock.depth >= 1', 'fresh': 'not g.released_any'},
        modifies=cmod + ['g.released_any'], returns=BoolS,
        loops={0: {'inv': {'released_so_far': 'g.lock_releases == old(g.lock_releases) + _i'},
                   'modifies': ['g.lock_releases', 'g.released_any']},
               1: {'inv': {'reacquired_so_far': 'g.lock_acquires == old(g.lock_acquires) + _i'}, 'modifies': ['g.lock_acquires']}},
        ensures={
            'announces_itself_once_and_acknowledges_once': '%s == old(%s) + 1 and %s == old(%s) + 1' % (S, S, Wk, Wk),
            'lock_released_and_reacquired_as_deep_as_it_was_held':
                'g.lock_releases == old(g.lock_releases) + self._lock._semlock.depth and '
                'g.lock_acquires == old(g.lock_acquires) + self._lock._semlock.depth',
            'a_wait_without_timeout_returns_true': 'implies(timeout is None, result)',
        },
        raises={'AssertionError': {'lock_not_held': 'not self._lock._semlock.mine'}},
    )
    nreq = {'wf': cwf}
    notify = Contract(
        'synchronize.Condition.notify', prop=PROP, params={'self': ref('Cond')},
        requires=nreq, modifies=cmod,
        loops={0: {'inv': {'timed_out_waiters_written_off': '%s - %s == %s and %s >= 0 and %s >= %s and %s == old(%s) and '
                                                            'g.tokens == old(g.tokens)' % (S, Wk, waiting, Wk, S, Wk, T, T)},
                   'modifies': ['Sem.count']}},
        ensures={
            'wakes_at_most_one_waiter_and_exactly_one_if_any_waits': 'g.tokens == old(g.tokens) + ite(%s > 0, 1, 0)' % waiting,
            'counters_settled': '%s == %s - ite(%s > 0, 1, 0) and %s == 0 and %s == 0' % (S, waiting, waiting, Wk, T),
        },
        raises={'AssertionError': {'lock_not_held_or_stale_token': 'not self._lock._semlock.mine or old(%s) > 0' % T}},
    )
    notify_all = Contract(
        'synchronize.Condition.notify_all', prop=PROP, params={'self': ref('Cond')},
        requires=nreq, modifies=cmod,
        loops={0: {'inv': {'timed_out_waiters_written_off': '%s - %s == %s and %s >= 0 and %s >= %s and %s == old(%s) and '
                                                            'g.tokens == old(g.tokens)' % (S, Wk, waiting, Wk, S, Wk, T, T)},
                   'modifies': ['Sem.count']},
               1: {'inv': {'one_token_per_waiter': 'g.tokens == old(g.tokens) + sleepers and %s + sleepers == %s and %s >= 0 and '
                                                   'sleepers >= 0 and %s == 0 and %s == sleepers' % (S, waiting, S, Wk, T)},
                   'modifies': ['Sem.count', 'g.tokens'], 'locals': {'sleepers': IntS}},
               2: {'inv': {'t': '%s >= 0 and %s == 0 and %s >= 0' % (Wk, S, T)}, 'modifies': ['Sem.count']},
               3: {'inv': {'t': '%s >= 0 and %s == 0' % (T, S)}, 'modifies': ['Sem.count']}},
        ensures={
            'every_waiter_gets_one_wake_up': 'g.tokens == old(g.tokens) + ite(%s > 0, %s, 0)' % (waiting, waiting),
            'counters_settled': '%s == 0 and %s == 0' % (S, T),
        },
        raises={'AssertionError': {'lock_not_held_or_stale_token': 'not self._lock._semlock.mine or old(%s) > 0' % T}},
    )
    F = 'self._flag.count'
    ewf = 'allocated(self._cond) and allocated(self._flag) and (%s == 0 or %s == 1) and not self._cond.held' % (F, F)
    UNDER_LOCK = {'_flag': 'self._cond.held'}
    emod = ['self._flag.count', 'self._cond.held', 'g.notified_all', 'g.cond_waits']
    is_set = Contract(
        'synchronize.Event.is_set', prop=PROP, params={'self': ref('Ev')}, requires={'wf': ewf}, modifies=emod,
        returns=BoolS, guarded=UNDER_LOCK,
        ensures={'reports_the_flag_and_leaves_it': 'result == (old(%s) == 1) and %s == old(%s) and not self._cond.held' % (F, F, F)},
    )
    set_ = Contract(
        'synchronize.Event.set', prop=PROP, params={'self': ref('Ev')}, requires={'wf': ewf}, modifies=emod,
        guarded=UNDER_LOCK,
        ensures={'flag_is_one_whatever_it_was': '%s == 1 and not self._cond.held' % F,
                 'waiters_are_notified': 'g.notified_all == old(g.notified_all) + 1'},
    )
    clear = Contract(
        'synchronize.Event.clear', prop=PROP, params={'self': ref('Ev')}, requires={'wf': ewf}, modifies=emod,
        guarded=UNDER_LOCK,
        ensures={'flag_is_zero_whatever_it_was': '%s == 0 and not self._cond.held' % F},
    )
    ewait = Contract(
        'synchronize.Event.wait', prop=PROP, params={'self': ref('Ev'), 'timeout': opt(RealS)}, requires={'wf': ewf},
        modifies=emod, returns=BoolS, guarded=UNDER_LOCK,
        ensures={'true_exactly_when_the_flag_is_set_on_return': 'result == (%s == 1) and (%s == 0 or %s == 1) and '
                                                                'not self._cond.held' % (F, F, F),
                 'returns_at_once_if_already_set': 'implies(old(%s) == 1, result and g.cond_waits == old(g.cond_waits))' % F,
                 'waits_once_otherwise': 'implies(old(%s) == 0, g.cond_waits == old(g.cond_waits) + 1)' % F},
    )
    return [wait, notify, notify_all, is_set, set_, clear, ewait]


MANIFEST_ENTRY = {
    'text': 'PARTIAL, and not the property as stated: "no lost wake-ups" is a statement about interleavings at semaphore-operation '
            'granularity, which this family of technique does not decide; what is proved is the arithmetic each call performs.  '
            'Proof of the bookkeeping each call performs (sequential; loop invariants for the drain and wake-up loops): '
            'Condition.wait announces itself exactly once (sleeping_count) and acknowledges exactly once (woken_count) on every '
            'way out, releases and re-acquires the lock as deep as it was held, and a wait without timeout returns True; '
            'notify() first writes off the waiters that timed out since the last notification, then hands out exactly one '
            'wake-up token if a waiter is left and none otherwise, and leaves woken_count and the wait semaphore at zero; '
            'notify_all() hands out exactly one token per remaining waiter; Event.is_set reports the flag and leaves it, '
            'set() makes it 1 whatever it was (never 2) and notifies, clear() makes it 0, wait() returns True exactly when the '
            'flag is set on return and does not sleep if it already was; the flag is only touched under the condition\'s lock '
            '(guarded-by obligations).',
    'note': 'NOT the property as stated: "no lost wake-ups" quantifies over interleavings of waiters, notifiers and timeouts at '
            'the granularity of semaphore operations, which contracts on single calls cannot express (a model-checking '
            'question); Lock / Semaphore / BoundedSemaphore are the C SemLock.  This check pins the per-call arithmetic that '
            'such an argument would start from, and nothing more.',
}
