"""C20, client side -- the reference a proxy holds: one incref when a proxy comes into being (with the finalizer that
gives it back registered for exactly that object), one decref when it is released -- whenever the manager is not known
to have been shut down, also for a proxy without a manager object (a copy made by pickling, a proxy in a forked child)."""
from pyvc.api import *


def proxy_contracts(w, PROP):
    g = w.classes['g']
    g.fields.update({'conns': IntS, 'conn_addr': ValS, 'conn_key': ValS, 'reqs': IntS, 'req_kind': IntS, 'req_ident': ValS,
                     'req_on': ValS, 'conn_fails': BoolS, 'tls_closed': IntS, 'finalizers': IntS, 'fin_ok': BoolS})
    w.cls('TokenP', fields={'id': ValS, 'address': ValS, 'typeid': ValS})
    w.cls('StateP', module='managers', pyname='State', fields={'value': IntS})
    w.cls('TlsConn', fields={}, methods={'close': lambda ex, a, k: (
        gset(ex, 'tls_closed', SV(IntS, gget(ex, 'tls_closed').e + 1)), SNone())[1]})
    # threading.local(): whether this thread has a connection is the ghost flag has_connection
    def tls_del(ex, args, kw):
        prove(ex, 'tls.only_an_existing_connection_is_dropped', ex.path.read_field(args[0], 'has_connection').e)
        ex.path.write_field(args[0], 'has_connection', mk_bool(False))
        return SNone()
    w.cls('Tls', fields={'connection': ref('TlsConn'), 'has_connection': BoolS}, methods={'__delattr__': tls_del})
    w.cls('MgrP', fields={'_state': ref('StateP')})

    def client(ex, args, kw):
        """_Client(address, authkey=...): a new authenticated connection to the server, or an exception"""
        gset(ex, 'conns', SV(IntS, gget(ex, 'conns').e + 1))
        gset(ex, 'conn_addr', args[1] if len(args) > 1 else args[0])
        gset(ex, 'conn_key', kw.get('authkey', SV(ValS, z3.Const('no_key', Val))))
        if ex.path.choose(2) == 1:
            gset(ex, 'conn_fails', mk_bool(True))
            raise_exc(ex, 'AnyException')
        return SV(ValS, z3.Const(fresh_name('conn'), Val))

    def ext_dispatch(ex, args, kw):
        """dispatch(conn, None, name, (ident,)) -- its own contract is proved in the first part of this check"""
        from pyvc.core import SStr
        name = args[2].s if isinstance(args[2], SStr) else None
        gset(ex, 'reqs', SV(IntS, gget(ex, 'reqs').e + 1))
        gset(ex, 'req_kind', mk_int({'incref': 1, 'decref': 2}.get(name, 0)))
        ident = args[3].items[0] if isinstance(args[3], STup) and len(args[3].items) == 1 else SV(ValS, z3.Const('bad_args', Val))
        gset(ex, 'req_ident', ident)
        gset(ex, 'req_on', args[0])
        prove(ex, 'request.sent_on_the_connection_just_made_with_no_object_id',
              z3.And(gget(ex, 'conns').e == 1, isinstance(args[1], SNone)))
        if ex.path.choose(2) == 1:
            gset(ex, 'conn_fails', mk_bool(True))
            raise_exc(ex, 'AnyException')
        return SNone()
    fresh = ('g.conns == 0 and g.reqs == 0 and g.tls_closed == 0 and not g.conn_fails and g.finalizers == 0')
    mod = ['g.conns', 'g.conn_addr', 'g.conn_key', 'g.reqs', 'g.req_kind', 'g.req_ident', 'g.req_on', 'g.conn_fails',
           'g.tls_closed', 'g.finalizers', 'g.fin_ok']
    alive = '(state is None or val(state).value == 1)'
    decref = Contract(
        'managers.BaseProxy._decref', prop=PROP,
        params={'token': ref('TokenP'), 'authkey': ValS, 'state': opt(ref('StateP')), 'tls': ref('Tls'),
                'idset': set_of(ValS), '_Client': ValS},
        externals={'<callable>': client, 'managers.dispatch': ext_dispatch, 'util.debug': lambda ex, a, k: SNone(),
                   'managers.util.debug': lambda ex, a, k: SNone(), 'threading.current_thread': lambda ex, a, k: SV(ValS, z3.Const('thr', Val)),
                   'builtins.hasattr': lambda ex, a, k: ex.path.read_field(a[0], 'has_connection')},
        requires={'fresh': fresh, 'objects': 'allocated(token) and allocated(idset) and allocated(tls) and '
                                             '(state is None or allocated(val(state))) and '
                                             'implies(tls.has_connection, allocated(tls.connection)) and len(idset) >= 0 and '
                                             'implies(has(idset, token.id), len(idset) >= 1)'},
        modifies=mod + ['idset.*', 'tls.*'],
        ensures={
            # "disposed of once the last one is released": every released proxy gives its reference back
            'reference_given_back_unless_the_manager_is_known_to_be_down':
                'implies(%s, g.conns == 1 and g.conn_addr == token.address and g.conn_key == authkey and '
                '(g.conn_fails or (g.reqs == 1 and g.req_kind == 2 and g.req_ident == token.id)))' % alive,
            'nothing_sent_to_a_manager_that_was_shut_down': 'implies(not %s, g.conns == 0 and g.reqs == 0)' % alive,
            'forgotten_locally': 'not has(idset, token.id) and all(implies(k != token.id, has(idset, k) == old(has(idset, k))) '
                                 'for k in vals())',
            'thread_connection_closed_with_the_last_proxy_of_this_process':
                'g.tls_closed == ite(old(len(idset) == ite(has(idset, token.id), 1, 0)) and old(tls.has_connection), 1, 0) '
                'and tls.has_connection == (old(tls.has_connection) and g.tls_closed == 0)',
        },
    )
    w.cls('Proxy', module='managers', pyname='BaseProxy', fields={
        '_token': ref('TokenP'), '_id': ValS, '_authkey': ValS, '_manager': opt(ref('MgrP')), '_tls': ref('Tls'),
        '_idset': set_of(ValS), '_Client': ValS, '_close': ValS})

    def ext_finalize(ex, args, kw):
        """util.Finalize(self, BaseProxy._decref, args=(token, authkey, state, tls, idset, _Client), exitpriority=10)"""
        from pyvc.core import VFunc
        me = ex.root.scopes[0]['self']
        a = kw.get('args')
        ok = z3.BoolVal(False)
        if isinstance(args[1], VFunc) and args[1].qualname.endswith('BaseProxy._decref') and isinstance(a, STup) and len(a.items) == 6:
            P = ex.path
            mgr = P.read_field(me, '_manager')
            want_state_none = mgr.isnone
            st = a.items[2]
            st_ok = z3.And(st.isnone == want_state_none,
                           z3.Implies(z3.Not(want_state_none), st.val.id == P.read_field(mgr.val, '_state').id)) \
                if isinstance(st, SOpt) else (want_state_none if isinstance(st, SNone) else
                                              z3.And(z3.Not(want_state_none), st.id == P.read_field(mgr.val, '_state').id))
            ok = z3.And(args[0].id == me.id, a.items[0].id == P.read_field(me, '_token').id,
                        a.items[1].e == P.read_field(me, '_authkey').e, st_ok,
                        a.items[3].id == P.read_field(me, '_tls').id, a.items[4].id == P.read_field(me, '_idset').id,
                        a.items[5].e == P.read_field(me, '_Client').e)
        gset(ex, 'fin_ok', SV(BoolS, ok))
        gset(ex, 'finalizers', SV(IntS, gget(ex, 'finalizers').e + 1))
        return SV(ValS, z3.Const(fresh_name('finalizer'), Val))
    incref = Contract(
        'managers.BaseProxy._incref', prop=PROP, params={'self': ref('Proxy')},
        externals={'<callable>': client, 'managers.dispatch': ext_dispatch, 'util.debug': lambda ex, a, k: SNone(),
                   'managers.util.debug': lambda ex, a, k: SNone(), 'util.Finalize': ext_finalize,
                   'managers.util.Finalize': ext_finalize, 'multiprocessing.util.Finalize': ext_finalize},
        requires={'fresh': fresh, 'objects': 'allocated(self._token) and allocated(self._idset) and allocated(self._tls) and '
                                             '(self._manager is None or (allocated(val(self._manager)) and '
                                             'allocated(val(self._manager)._state))) and self._id == self._token.id'},
        modifies=mod + ['self._idset.*', 'self._close'],
        ensures={
            'one_reference_taken_for_this_object': 'g.conns == 1 and g.conn_addr == self._token.address and '
                                                   'g.conn_key == self._authkey and g.reqs == 1 and g.req_kind == 1 and '
                                                   'g.req_ident == self._id and not g.conn_fails',
            'remembered_locally': 'has(self._idset, self._id)',
            'the_finalizer_that_gives_it_back_is_registered_once_for_this_proxy': 'g.finalizers == 1 and g.fin_ok',
        },
        raises={'AnyException': {'no_reference_no_finalizer': 'g.conn_fails and g.finalizers == 0 and '
                                                              'has(self._idset, self._id) == old(has(self._idset, self._id))'}},
    )
    # ---- one call through a proxy ----------------------------------------------------------------------------------
    g.fields.update({'cm_sent': IntS, 'cm_req_ok': BoolS, 'cm_kind': IntS, 'cm_body': ValS, 'cm_token': ref('TokenP'),
                     'cm_proxies': IntS, 'cm_proxy_ok': BoolS, 'cm_proxy': ValS})
    w.classes['Proxy'].fields.update({'_serializer': ValS})
    w.classes['MgrP'].fields.update({'_registry': ValS})

    def cm_send(ex, args, kw):
        from pyvc.core import box
        me = ex.root.scopes[0]['self']
        sc = ex.root.scopes[0]
        m = args[1]
        ok = z3.BoolVal(False)
        if isinstance(m, STup) and len(m.items) == 4:
            ok = z3.And(m.items[0].e == ex.path.read_field(me, '_id').e, box(m.items[1]) == box(sc['methodname']),
                        box(m.items[2]) == box(sc['args']), box(m.items[3]) == box(sc['kwds']))
        gset(ex, 'cm_req_ok', SV(BoolS, ok))
        gset(ex, 'cm_sent', SV(IntS, gget(ex, 'cm_sent').e + 1))
        return SNone()

    def cm_recv(ex, args, kw):
        from pyvc.core import SStr
        k = ex.path.choose(6)
        gset(ex, 'cm_kind', mk_int(k))
        if k == 1:
            tok = SRef(ref('TokenP'), ex.path.new_id('TokenP'))
            gset(ex, 'cm_token', tok)
            return STup([SStr('#PROXY'), STup([SV(ValS, z3.Const('exposed_of_result', Val)), tok])])
        body = SV(ValS, z3.Const(fresh_name('answer_body'), Val))
        gset(ex, 'cm_body', body)
        return STup([SStr(['#RETURN', '', '#ERROR', '#TRACEBACK', '#UNSERIALIZABLE', '#OTHER'][k]), body])
    w.cls('ConnP', fields={}, methods={'send': cm_send, 'recv': cm_recv,
                                       'close': w.classes['TlsConn'].methods['close']})
    w.classes['Tls'].fields['connection'] = ref('ConnP')

    def cm_call(ex, args, kw):
        me = ex.root.scopes[0]['self']
        fn = args[0]
        if ex.path.decide(fn.e == ex.path.read_field(me, '_Client').e):
            return client(ex, args, kw)
        # proxytype(token, serializer, manager=..., authkey=..., exposed=...): the proxy for the returned object (its own
        # constructor takes the proxy's reference: _incref, under contract above)
        tok = args[1]
        ok = z3.BoolVal(False)
        if 'authkey' in kw and isinstance(tok, SRef):
            ok = z3.And(tok.id == gget(ex, 'cm_token').id,
                        ex.path.read_field(tok, 'address').e ==
                        ex.path.read_field(ex.path.read_field(me, '_token'), 'address').e,
                        kw['authkey'].e == ex.path.read_field(me, '_authkey').e)
        gset(ex, 'cm_proxy_ok', SV(BoolS, ok))
        gset(ex, 'cm_proxies', SV(IntS, gget(ex, 'cm_proxies').e + 1))
        p = SV(ValS, z3.Const(fresh_name('result_proxy'), Val))
        gset(ex, 'cm_proxy', p)
        return p

    def type_of(ex, args, kw):
        from pyvc.core import VExternal
        return VExternal('builtins.bytes') if ex.path.choose(2) == 1 else VExternal('builtins.str')

    def registry_entry(ex, args, kw):
        """self._manager._registry[typeid][-1]: the proxy type registered for the returned object's type -- not the
        connection factory"""
        v = SV(ValS, z3.Const(fresh_name('registry_entry'), Val))
        ex.path.assume(v.e != ex.path.read_field(ex.root.scopes[0]['self'], '_Client').e)
        return v
    callmethod = Contract(
        'managers.BaseProxy._callmethod', prop=PROP,
        params={'self': ref('Proxy'), 'methodname': ValS, 'args': ValS, 'kwds': ValS},
        inline=['managers.convert_to_error'],
        externals={'<callable>': cm_call, 'managers.dispatch': ext_dispatch, 'util.debug': lambda ex, a, k: SNone(),
                   'managers.util.debug': lambda ex, a, k: SNone(), 'builtins.type': type_of,
                   'getitem<opaque>': registry_entry},
        requires={'fresh': fresh + ' and g.cm_sent == 0 and g.cm_proxies == 0',
                  'objects': 'allocated(self._token) and allocated(self._tls) and allocated(self._tls.connection) and '
                             'self._manager is not None and allocated(val(self._manager)) and self._id == self._token.id',
                  'this_thread_owns_a_connection': 'self._tls.has_connection'},
        modifies=mod + ['g.cm_sent', 'g.cm_req_ok', 'g.cm_kind', 'g.cm_body', 'g.cm_token', 'g.cm_proxies', 'g.cm_proxy_ok',
                        'g.cm_proxy', 'TokenP.address'],
        returns=ValS,
        ensures={
            'one_request_for_this_object_this_method_these_arguments': 'g.cm_sent == 1 and g.cm_req_ok',
            'a_value_is_handed_on_unchanged': 'implies(g.cm_kind == 0, result == g.cm_body and g.conns == 0 and g.reqs == 0)',
            # a result that comes back as an object of its own: a proxy for *that* object, and the reference the server took
            # for it while it was in transit is given back -- for that object, not for the one the method was called on
            'a_returned_object_gets_its_own_proxy': 'implies(g.cm_kind == 1, g.cm_proxies == 1 and g.cm_proxy_ok and '
                                                    'result == g.cm_proxy)',
            'the_transit_reference_of_the_returned_object_is_given_back':
                'implies(g.cm_kind == 1, g.conns == 1 and g.conn_addr == self._token.address and g.conn_key == self._authkey '
                'and g.reqs == 1 and g.req_kind == 2 and g.req_ident == g.cm_token.id)',
            'only_values_and_proxies_are_returned': 'g.cm_kind == 0 or g.cm_kind == 1',
        },
        raises={'<opaque>': {'the_exception_the_referent_raised': 'g.cm_kind == 2'},
                'RemoteError': {'server_side_failure': 'g.cm_kind == 3 or g.cm_kind == 4'},
                'AssertionError': {'server_side_failure_with_a_malformed_text': 'g.cm_kind == 3 or g.cm_kind == 4'},
                'ValueError': {'unknown_kind': 'g.cm_kind == 5'},
                'AnyException': {'giving_the_transit_reference_back_failed': 'g.cm_kind == 1 and g.conn_fails'}},
    )
    return [decref, incref, callmethod]
