"""C20, client side -- the reference a proxy holds: one incref when a proxy comes into being (with the finalizer that
gives it back registered for exactly that object), one decref when it is released -- whenever the manager is not known
to have been shut down, also for a proxy without a manager object (a copy made by pickling, a proxy in a forked child)."""
from pyvc.api import *


def proxy_contracts(w, PROP):
    g = w.classes['g']
    g.fields.update({'conns': IntS, 'conn_addr': ValS, 'conn_key': ValS, 'reqs': IntS, 'req_kind': IntS, 'req_ident': ValS,
                     'req_on': ValS, 'conn_fails': BoolS, 'tls_closed': IntS, 'finalizers': IntS, 'fin_ok': BoolS})
    w.cls('TokenP', fields={'id': ValS, 'address': ValS, 'typeid': ValS})
    w.cls('StateP', module='managers', pyname='State', fields={'value': IntS})
    w.cls('TlsConn', fields={}, methods={'close': lambda ex, a, k: (
        gset(ex, 'tls_closed', SV(IntS, gget(ex, 'tls_closed').e + 1)), SNone())[1]})
    # threading.local(): whether this thread has a connection is the ghost flag has_connection
    def tls_del(ex, args, kw):
        prove(ex, 'tls.only_an_existing_connection_is_dropped', ex.path.read_field(args[0], 'has_connection').e)
        ex.path.write_field(args[0], 'has_connection', mk_bool(False))
        return SNone()
    w.cls('Tls', fields={'connection': ref('TlsConn'), 'has_connection': BoolS}, methods={'__delattr__': tls_del})
    w.cls('MgrP', fields={'_state': ref('StateP')})

    def client(ex, args, kw):
        """_Client(address, authkey=...): a new authenticated connection to the server, or an exception"""
        gset(ex, 'conns', SV(IntS, gget(ex, 'conns').e + 1))
        gset(ex, 'conn_addr', args[1] if len(args) > 1 else args[0])
        gset(ex, 'conn_key', kw.get('authkey', SV(ValS, z3.Const('no_key', Val))))
        if ex.path.choose(2) == 1:
            gset(ex, 'conn_fails', mk_bool(True))
            raise_exc(ex, 'AnyException')
        return SV(ValS, z3.Const(fresh_name('conn'), Val))

    def ext_dispatch(ex, args, kw):
        """dispatch(conn, None, name, (ident,)) -- its own contract is proved in the first part of this check"""
        from pyvc.core import SStr
        name = args[2].s if isinstance(args[2], SStr) else None
        gset(ex, 'reqs', SV(IntS, gget(ex, 'reqs').e + 1))
        gset(ex, 'req_kind', mk_int({'incref': 1, 'decref': 2}.get(name, 0)))
        ident = args[3].items[0] if isinstance(args[3], STup) and len(args[3].items) == 1 else SV(ValS, z3.Const('bad_args', Val))
        gset(ex, 'req_ident', ident)
        gset(ex, 'req_on', args[0])
        prove(ex, 'request.sent_on_the_connection_just_made_with_no_object_id',
              z3.And(gget(ex, 'conns').e == 1, isinstance(args[1], SNone)))
        if ex.path.choose(2) == 1:
            gset(ex, 'conn_fails', mk_bool(True))
            raise_exc(ex, 'AnyException')
        return SNone()
    fresh = ('g.conns == 0 and g.reqs == 0 and g.tls_closed == 0 and not g.conn_fails and g.finalizers == 0')
    mod = ['g.conns', 'g.conn_addr', 'g.conn_key', 'g.reqs', 'g.req_kind', 'g.req_ident', 'g.req_on', 'g.conn_fails',
           'g.tls_closed', 'g.finalizers', 'g.fin_ok']
    alive = '(state is None or val(state).value == 1)'
    decref = Contract(
        'managers.BaseProxy._decref', prop=PROP,
        params={'token': ref('TokenP'), 'authkey': ValS, 'state': opt(ref('StateP')), 'tls': ref('Tls'),
                'idset': set_of(ValS), '_Client': ValS},
        externals={'<callable>': client, 'managers.dispatch': ext_dispatch, 'util.debug': lambda ex, a, k: SNone(),
                   'managers.util.debug': lambda ex, a, k: SNone(), 'threading.current_thread': lambda ex, a, k: SV(ValS, z3.Const('thr', Val)),
                   'builtins.hasattr': lambda ex, a, k: ex.path.read_field(a[0], 'has_connection')},
        requires={'fresh': fresh, 'objects': 'allocated(token) and allocated(idset) and allocated(tls) and '
                                             '(state is None or allocated(val(state))) and '
                                             'implies(tls.has_connection, allocated(tls.connection)) and len(idset) >= 0 and '
                                             'implies(has(idset, token.id), len(idset) >= 1)'},
        modifies=mod + ['idset.*', 'tls.*'],
        ensures={
            # "disposed of once the last one is released": every released proxy gives its reference back
            'reference_given_back_unless_the_manager_is_known_to_be_down':
                'implies(%s, g.conns == 1 and g.conn_addr == token.address and g.conn_key == authkey and '
                '(g.conn_fails or (g.reqs == 1 and g.req_kind == 2 and g.req_ident == token.id)))' % alive,
            'nothing_sent_to_a_manager_that_was_shut_down': 'implies(not %s, g.conns == 0 and g.reqs == 0)' % alive,
            'forgotten_locally': 'not has(idset, token.id) and all(implies(k != token.id, has(idset, k) == old(has(idset, k))) '
                                 'for k in vals())',
            'thread_connection_closed_with_the_last_proxy_of_this_process':
                'g.tls_closed == ite(old(len(idset) == ite(has(idset, token.id), 1, 0)) and old(tls.has_connection), 1, 0) '
                'and tls.has_connection == (old(tls.has_connection) and g.tls_closed == 0)',
        },
    )
    w.cls('Proxy', module='managers', pyname='BaseProxy', fields={
        '_token': ref('TokenP'), '_id': ValS, '_authkey': ValS, '_manager': opt(ref('MgrP')), '_tls': ref('Tls'),
        '_idset': set_of(ValS), '_Client': ValS, '_close': ValS})

    def ext_finalize(ex, args, kw):
        """util.Finalize(self, BaseProxy._decref, args=(token, authkey, state, tls, idset, _Client), exitpriority=10)"""
        from pyvc.core import VFunc
        me = ex.root.scopes[0]['self']
        a = kw.get('args')
        ok = z3.BoolVal(False)
        if isinstance(args[1], VFunc) and args[1].qualname.endswith('BaseProxy._decref') and isinstance(a, STup) and len(a.items) == 6:
            P = ex.path
            mgr = P.read_field(me, '_manager')
            want_state_none = mgr.isnone
            st = a.items[2]
            st_ok = z3.And(st.isnone == want_state_none,
                           z3.Implies(z3.Not(want_state_none), st.val.id == P.read_field(mgr.val, '_state').id)) \
                if isinstance(st, SOpt) else (want_state_none if isinstance(st, SNone) else
                                              z3.And(z3.Not(want_state_none), st.id == P.read_field(mgr.val, '_state').id))
            ok = z3.And(args[0].id == me.id, a.items[0].id == P.read_field(me, '_token').id,
                        a.items[1].e == P.read_field(me, '_authkey').e, st_ok,
                        a.items[3].id == P.read_field(me, '_tls').id, a.items[4].id == P.read_field(me, '_idset').id,
                        a.items[5].e == P.read_field(me, '_Client').e)
        gset(ex, 'fin_ok', SV(BoolS, ok))
        gset(ex, 'finalizers', SV(IntS, gget(ex, 'finalizers').e + 1))
        return SV(ValS, z3.Const(fresh_name('finalizer'), Val))
    incref = Contract(
        'managers.BaseProxy._incref', prop=PROP, params={'self': ref('Proxy')},
        externals={'<callable>': client, 'managers.dispatch': ext_dispatch, 'util.debug': lambda ex, a, k: SNone(),
                   'managers.util.debug': lambda ex, a, k: SNone(), 'util.Finalize': ext_finalize,
                   'managers.util.Finalize': ext_finalize, 'multiprocessing.util.Finalize': ext_finalize},
        requires={'fresh': fresh, 'objects': 'allocated(self._token) and allocated(self._idset) and allocated(self._tls) and '
                                             '(self._manager is None or (allocated(val(self._manager)) and '
                                             'allocated(val(self._manager)._state))) and self._id == self._token.id'},
        modifies=mod + ['self._idset.*', 'self._close'],
        ensures={
            'one_reference_taken_for_this_object': 'g.conns == 1 and g.conn_addr == self._token.address and '
                                                   'g.conn_key == self._authkey and g.reqs == 1 and g.req_kind == 1 and '
                                                   'g.req_ident == self._id and not g.conn_fails',
            'remembered_locally': 'has(self._idset, self._id)',
            'the_finalizer_that_gives_it_back_is_registered_once_for_this_proxy': 'g.finalizers == 1 and g.fin_ok',
        },
        raises={'AnyException': {'no_reference_no_finalizer': 'g.conn_fails and g.finalizers == 0 and '
                                                              'has(self._idset, self._id) == old(has(self._idset, self._id))'}},
    )
    return [decref, incref]
