"""Contract of the child-side worker loop (pool.Worker.workloop), shared by
C03 (job protocol), C05/C08 (termination signal honoured), C09 (quota and
recycle status) and C12 (encoding failures).

The loop talks to the world only through wait_for_job / wait_for_syn / put /
the task function; each is an assumed external that (a) produces every outcome
the real thing can (including exceptions and the termination signal arriving
inside it) and (b) *proves* the protocol obligation that must hold at that
point (accept before run, one result per job before the next job, nothing after
the termination signal, ...) against ghost per-job flags."""
from pyvc.api import *
import handles as H

ACK, READY, TASK, NACK = 0, 1, 2, 3
TASKMSG = tup(IntS, tup(IntS, opt(IntS), ValS, ValS, ValS))

FLAGS = ['acked', 'syn_answered', 'nacked', 'ran', 'ready_sent', 'have_job']
COUNTS = ['n_ack', 'n_ready', 'n_ran', 'n_refused', 'n_encoding_errors', 'n_jobs']


def gb(ex, n):
    return gget(ex, n).e


def setb(ex, n, v=True):
    gset(ex, n, mk_bool(v))


def inc(ex, n):
    gset(ex, n, SV(IntS, gget(ex, n).e + 1))


def term_signal(ex):
    """the termination signal arrives here: billiard's handler
    (common._shutdown_cleanup) sets common._should_have_exited[0] and raises
    SystemExit in the interrupted code"""
    setb(ex, 'term')
    flag = ex.world.global_overrides['common._should_have_exited'](ex)
    items = ex.path.read_field(flag, 'items')
    ex.path.write_field(flag, 'items', items.shape.store(items, mk_int(0), mk_bool(True)))
    raise PyExc(VExc('SystemExit', [mk_int(-241)], {'code': mk_int(-241)}))


def ext_wait_for_job(ex):
    """wait_for_job(): None (nothing yet), a TASK message, SystemExit (sentinel /
    pipe gone), or the termination signal arrives while it blocks"""
    prove(ex, 'protocol.no_job_taken_after_the_termination_signal', z3.Not(gb(ex, 'term')))
    prove(ex, 'protocol.previous_job_answered_before_the_next_is_taken',
          z3.Implies(gb(ex, 'have_job'), z3.Or(gb(ex, 'ready_sent'), gb(ex, 'nacked'))))
    # (the call blocks until something arrives: time passes -- a clock value read before it is not the time of acceptance)
    later = RealS.fresh('after_waiting')
    ex.path.assume(later.e > gget(ex, 'now').e)
    gset(ex, 'now', later)
    k = ex.path.choose(4)
    if k == 1:
        return SNone()
    if k == 2:
        raise PyExc(VExc('SystemExit', [IntS.fresh('code')], {}))
    if k == 3:
        term_signal(ex)
    msg = TASKMSG.fresh('task')
    ex.path.assume(msg.items[0].e == TASK)
    # the task function is not one of the worker's own receive closures
    me = ex.root.scopes[0]['self']
    fun = msg.items[1].items[2]
    syn = ex.path.read_field(me, 'wait_for_syn')
    ex.path.assume(z3.And(fun.e != ex.path.read_field(me, 'wait_for_job').e, z3.Or(syn.isnone, fun.e != syn.val.e)))
    for f in FLAGS:
        setb(ex, f, False)
    gset(ex, 'n_put_failures', mk_int(0))
    setb(ex, 'have_job')
    inc(ex, 'n_jobs')
    gset(ex, 'cur_job', msg.items[1].items[0])
    gset(ex, 'cur_i', msg.items[1].items[1])
    return msg


def ext_wait_for_syn(ex):
    """_wait_for_syn(): None (not yet), (ACK, _) go ahead, (NACK, _) refused
    by the parent, or the termination signal arrives"""
    prove(ex, 'protocol.acknowledgement_awaited_only_after_accepting', gb(ex, 'acked'))
    k = ex.path.choose(4)
    if k == 0:
        return SNone()
    if k == 3:
        term_signal(ex)
    setb(ex, 'syn_answered')
    if k == 2:
        setb(ex, 'nacked')
        inc(ex, 'n_refused')
        return STup([mk_int(NACK), SV(ValS, z3.Const('nackargs', Val))])
    return STup([mk_int(ACK), SV(ValS, z3.Const('ackargs', Val))])


def ext_fun(ex, args):
    """the task function: returns any value, raises any exception, or is
    interrupted by the termination signal (SystemExit with the exit flag set)"""
    prove(ex, 'protocol.accept_is_announced_before_the_task_runs', gb(ex, 'acked'))
    prove(ex, 'protocol.refused_job_is_never_executed', z3.Not(gb(ex, 'nacked')))
    prove(ex, 'protocol.task_runs_once', z3.Not(gb(ex, 'ran')))
    prove(ex, 'protocol.no_task_started_after_the_termination_signal', z3.Not(gb(ex, 'term')))
    setb(ex, 'ran')
    inc(ex, 'n_ran')
    k = ex.path.choose(4)
    if k == 0:
        return SV(ValS, z3.Const(fresh_name('retval'), Val))
    if k == 1:
        raise_exc(ex, 'AnyException')
    if k == 2:
        raise_exc(ex, 'AnyBaseException')       # e.g. KeyboardInterrupt, SystemExit raised by the task itself
    term_signal(ex)


def ext_put(ex, args, kw):
    """outq.put(msg): hands the message over, or fails to serialise it
    (Exception), or the termination signal arrives while it blocks"""
    msg = args[1]
    tag = ex.conc_int(msg.items[0])
    body = msg.items[1]
    prove(ex, 'protocol.nothing_sent_after_the_termination_signal', z3.Not(gb(ex, 'term')))
    if tag == ACK:
        prove(ex, 'protocol.one_accept_per_job', z3.Not(gb(ex, 'acked')))
        prove(ex, 'protocol.accept_names_the_job', z3.And(gb(ex, 'have_job'), body.items[0].e == gb(ex, 'cur_job')))
        pid = ex.root.scopes[0]['pid']
        prove(ex, 'protocol.accept_carries_the_worker_pid_and_time',
              z3.And(ex.eq(body.items[3], pid), ex.eq(body.items[2], gget(ex, 'now'))))
        setb(ex, 'acked')
        inc(ex, 'n_ack')
        return SNone()
    if tag == READY:
        prove(ex, 'protocol.result_only_for_an_accepted_executed_job', z3.And(gb(ex, 'acked'), gb(ex, 'ran')))
        prove(ex, 'protocol.result_names_the_job', ex.eq(body.items[0], gget(ex, 'cur_job')))
        prove(ex, 'protocol.exactly_one_result_per_job', z3.Not(gb(ex, 'ready_sent')))
        res = body.items[2]
        # C12: once the result could not be serialised, what is sent instead is the encoding-error record, as a failure
        prove(ex, 'protocol.unserialisable_result_is_reported_as_an_encoding_error_on_that_job',
              z3.Implies(gget(ex, 'n_put_failures').e > 0,
                         z3.And(z3.Not(res.items[0].e), res.items[1].e == z3.Const('encoding_error_record', Val))
                         if isinstance(res, STup) and isinstance(res.items[1], SV) and res.items[1].shape is ValS
                         else z3.BoolVal(False)))
        k = ex.path.choose(3)
        if k == 1:
            inc(ex, 'n_put_failures')
            raise_exc(ex, 'AnyException')          # the result cannot be serialised
        if k == 2:
            term_signal(ex)
        setb(ex, 'ready_sent')
        inc(ex, 'n_ready')
        if isinstance(res, STup) and isinstance(res.items[1], SV) and res.items[1].shape is ValS:
            if ex.path.decide(res.items[1].e == z3.Const('encoding_error_record', Val)):
                inc(ex, 'n_encoding_errors')
        return SNone()
    raise Unsupported('worker puts a message with tag %r' % tag)


def ext_callable_in_workloop(ex, args, kw):
    me = ex.root.scopes[0]['self']
    fn = args[0]
    wfj = ex.path.read_field(me, 'wait_for_job')
    if ex.path.decide(fn.e == wfj.e):
        return ext_wait_for_job(ex)
    syn = ex.path.read_field(me, 'wait_for_syn')
    if ex.path.decide(z3.And(z3.Not(syn.isnone), fn.e == syn.val.e)):
        return ext_wait_for_syn(ex)
    return ext_fun(ex, args[1:])


def ext_einfo_worker(ex, args, kw):
    """ExceptionInfo() / ExceptionInfo((MaybeEncodingError, wrapped, tb))"""
    if args:
        return SV(ValS, z3.Const('encoding_error_record', Val))
    return H.ext_einfo(ex, args, kw)


def ext_ensure_consumed(ex, args, kw):
    inc(ex, 'n_ensure')
    return mk_bool(True)


def declare_worker(w):
    flds = {f: BoolS for f in FLAGS}
    flds.update({c: IntS for c in COUNTS})
    flds.update({'n_put_failures': IntS, 'term': BoolS, 'cur_job': IntS, 'cur_i': opt(IntS), 'n_ensure': IntS, 'now': RealS})
    if 'g' in w.classes:
        w.classes['g'].fields.update(flds)
    else:
        w.cls('g', fields=flds)
    w.cls('ExitFlag', fields={})
    w.cls('Counter', fields={'value': IntS})
    w.cls('WorkerC', module='pool', pyname='Worker', fields={
        'inq': ValS, 'outq': ValS, 'synq': opt(ValS), 'maxtasks': opt(IntS),
        'max_memory_per_child': opt(IntS), 'on_ready_counter': opt(ref('Counter')),
        'inqW_fd': opt(IntS), 'synqW_fd': opt(IntS), 'wait_for_job': ValS, 'wait_for_syn': opt(ValS),
        '_shutdown': opt(ValS), 'on_exit': opt(ValS), 'sigprotection': BoolS,
        'exit_flag': list_of(BoolS),        # stands for the module-level common._should_have_exited
    })
    # common._should_have_exited (a module-level one-element list, also
    # reachable from pool.py if it imports it): the worker's exit flag
    def flag(ex):
        return ex.path.read_field(ex.root.scopes[0]['self'], 'exit_flag')
    w.global_overrides['common._should_have_exited'] = flag
    w.global_overrides['pool._should_have_exited'] = flag


def ext_monotonic(ex, args, kw):
    now = gget(ex, 'now')
    r = RealS.fresh('monotonic')
    ex.path.assume(r.e >= now.e)
    gset(ex, 'now', r)
    return r


def workloop_contract(prop):
    quota = 'implies(maxtasks is not None and maxtasks > 0, completed <= maxtasks)'
    return Contract(
        'pool.Worker.workloop', prop=prop,
        params={'self': ref('WorkerC'), 'pid': opt(IntS)},
        externals={'<callable>': ext_callable_in_workloop, '<opaque>.put': ext_put,
                   'time.monotonic': ext_monotonic, 'os.getpid': lambda ex, a, k: IntS.fresh('pid'),
                   'einfo.ExceptionInfo': ext_einfo_worker, 'sys.exc_info': lambda ex, a, k: STup(
                       [SV(ValS, z3.Const('exc_type', Val)), SV(ValS, z3.Const('exc_val', Val)), SV(ValS, z3.Const('exc_tb', Val))]),
                   'compat.mem_rss': lambda ex, a, k: IntS.fresh('rss'),
                   'pool.Worker._ensure_messages_consumed': ext_ensure_consumed},
        inline=['pool.Worker.prepare_result'],
        requires={
            'fresh_worker': 'not g.have_job and not g.term and g.n_ready == 0 and g.n_ran == 0 and g.n_ack == 0 '
                            'and g.n_refused == 0 and g.n_jobs == 0 and g.n_ensure == 0 and g.n_encoding_errors == 0',
            'quota_wf': 'self.maxtasks is None or self.maxtasks > 0',      # asserted by Worker.__init__
            'exit_flag': 'allocated(self.exit_flag) and len(self.exit_flag) == 1 and not at(self.exit_flag, 0)',
            'syn': '(self.wait_for_syn is None or truthy(self.wait_for_syn)) and '
                   '((self.wait_for_syn is None) == (self.synq is None)) and '      # _make_child_methods
                   '(self.wait_for_syn is None or val(self.wait_for_syn) != self.wait_for_job)',   # two distinct closures
        },
        modifies=['g.*', 'self.exit_flag.*'],
        returns=IntS,
        loops={
            0: {'inv': {
                    'one_result_per_completed_job': 'g.n_ready == completed and g.n_ran == completed',
                    'accepted_jobs': 'g.n_ack == completed + g.n_refused and g.n_jobs == g.n_ack',
                    'refused_jobs_do_not_count': 'g.n_ran + g.n_refused == g.n_jobs',
                    'quota_never_exceeded': quota,
                    'between_jobs': 'implies(g.have_job, g.ready_sent or g.nacked) and not g.term',
                    'exit_flag': 'allocated(self.exit_flag) and len(self.exit_flag) == 1 and not at(self.exit_flag, 0)',
                    'consumed_check_not_yet': 'g.n_ensure == 0',
                    'locals': 'maxtasks == self.maxtasks and (_wait_for_syn is None) == (self.wait_for_syn is None) and '
                              '(_wait_for_syn is None or truthy(_wait_for_syn)) and pid is not None',
                },
                'modifies': ['g.*', 'self.exit_flag.*'],
                'locals': {'req': opt(TASKMSG), 'result': tup(BoolS, ValS), 'confirm': BoolS, 'used_kb': IntS}},
            ('pool.Worker.workloop.<locals>.wait_for_syn', 0): {
                'inv': {'waiting': 'g.acked and not g.syn_answered and not g.nacked and not g.term',
                        'counts': 'g.n_ack == completed + g.n_refused + 1',
                        'exit_flag': 'allocated(self.exit_flag) and len(self.exit_flag) == 1 and not at(self.exit_flag, 0)'},
                'modifies': ['g.syn_answered', 'g.nacked', 'g.n_refused', 'g.term', 'self.exit_flag.*'],
                'locals': {'req': opt(tup(IntS, ValS))}},
        },
        lets={'quota': 'self.maxtasks'},
        ensures={
            # C09: at most N jobs, then the recycle status; the consumed-check runs on every way out
            'recycle_status_exactly_at_quota': 'implies(self.maxtasks is not None and result == 155 and '
                                               '(self.max_memory_per_child is None or self.max_memory_per_child <= 0), '
                                               'g.n_ready == self.maxtasks)',
            'quota_never_exceeded': 'implies(self.maxtasks is not None, g.n_ran <= self.maxtasks)',
            'leaves_normally_only_at_quota': 'self.maxtasks is not None or result == 155',
            'results_consumed_before_exit': 'g.n_ensure == 1',
            'one_result_per_executed_job': 'g.n_ready == g.n_ran',
        },
        raises={
            'SystemExit': {'results_consumed_before_exit': 'g.n_ensure == 1',
                           'every_executed_job_answered_unless_interrupted': 'g.n_ready == g.n_ran or g.term'},
            # the only exception that may kill the worker from inside the loop: the encoding-error record itself could
            # not be sent either (C12: an unserialisable result alone neither kills the worker nor loses the job)
            'AnyException': {'results_consumed_before_exit': 'g.n_ensure == 1',
                             'only_when_the_error_record_could_not_be_sent_either': 'g.n_put_failures == 2'},
            'AssertionError': {'malformed_message': 'g.n_ensure == 1'},
        },
    )
