"""C19 -- process exit status and liveness are reported faithfully."""
from pyvc.api import *

PROP = 'C19'
REPLAYERS = {q: 'replayers/process_status.py' for q in (
    'popen_fork.Popen.poll', 'popen_fork.Popen.wait', 'popen_forkserver.Popen.poll', 'process.BaseProcess._bootstrap',
    'process.BaseProcess.start', 'process.BaseProcess.join', 'process.BaseProcess.is_alive',
    'process.BaseProcess._is_alive', 'process.BaseProcess.exitcode', 'process._cleanup')}

ASSUMPTIONS = [
    'A-wait: os.waitpid(pid, flag) raises OSError (EINTR or another errno), or returns (0, 0) while the child runs and flag is '
    'WNOHANG, or returns (pid, sts) once, when the child has ended; sts encodes the way it ended the Linux way: exactly one of '
    'WIFEXITED / WIFSIGNALED, WEXITSTATUS = the 8-bit exit code, WTERMSIG = the signal (the os.W* macros are the corresponding '
    'spec functions)',
    'connection.wait([sentinel], timeout) returns a non-empty list only if the child has ended (its end closes the sentinel pipe)',
    'BaseProcess._bootstrap: the preamble before self.run() (start method, stdin, logging locks, after-fork hooks: lines under '
    'a statement contract) assigns none of the names used later and ends normally or with an exception; run() is the user '
    'target: it returns, or raises SystemExit with no argument / an int / a str / another object, or another exception',
    'util.info / util.error / sys.stderr.write / traceback.print_exc / flush do not raise',
    '`global` rebinding of _children / _process_counter inside _bootstrap is modelled as a local binding (it happens in the '
    'child process, whose module state no contract here reads afterwards)',
]
OUT_OF_REACH = [
    'the kernel side of A-wait; that a signalled direct child is reaped at all',
    'the spawn start method\'s child bootstrap (spawn._main) reaches _bootstrap through code not under contract',
    'wall-clock: that join(timeout) returns within the timeout is reduced to "wait(timeout) does not call the blocking '
    'waitpid unless the sentinel was ready" (given connection.wait\'s own timeout)',
]

EINTR = 4
_WIFSIG = z3.Function('WIFSIGNALED', z3.IntSort(), z3.BoolSort())
_WIFEXIT = z3.Function('WIFEXITED', z3.IntSort(), z3.BoolSort())
_WTERMSIG = z3.Function('WTERMSIG', z3.IntSort(), z3.IntSort())
_WEXITSTATUS = z3.Function('WEXITSTATUS', z3.IntSort(), z3.IntSort())


def ext_waitpid(ex, args, kw):
    """os.waitpid(pid, flag) under A-wait; ghost: g.fate_kind (1 exit, 2 signal), g.fate_val, g.reaped, g.waits"""
    P = ex.path
    pid, flag = as_arith(args[0]), as_arith(args[1])
    gset(ex, 'waits', SV(IntS, gget(ex, 'waits').e + 1))
    k = P.choose(4)
    if k == 0:
        raise_exc(ex, 'OSError', errno=mk_int(EINTR))
    if k == 1:
        e = IntS.fresh('errno')
        P.assume(e.e != EINTR)
        raise_exc(ex, 'OSError', errno=e)
    if k == 2:
        P.assume(flag == 1)              # WNOHANG: still running
        return STup([mk_int(0), mk_int(0)])
    P.assume(z3.Not(gget(ex, 'reaped').e))
    gset(ex, 'reaped', mk_bool(True))
    gset(ex, 'blocking_wait', SV(BoolS, z3.Or(gget(ex, 'blocking_wait').e, flag != 1)))
    sts = IntS.fresh('sts')
    kind, val = gget(ex, 'fate_kind').e, gget(ex, 'fate_val').e
    P.assume(z3.And(_WIFSIG(sts.e) == (kind == 2), _WIFEXIT(sts.e) == (kind == 1),
                    z3.Implies(kind == 2, _WTERMSIG(sts.e) == val), z3.Implies(kind == 1, _WEXITSTATUS(sts.e) == val)))
    return STup([SV(IntS, pid), sts])


def wfun(f, shape):
    return lambda ex, a, k: SV(shape, f(as_arith(a[0])))


def ext_conn_wait(ex, args, kw):
    """connection.wait([sentinel], timeout): truthy only if the child has ended; ghost g.sentinel_ready"""
    r = BoolS.fresh('sentinel_ready')
    gset(ex, 'sentinel_waits', SV(IntS, gget(ex, 'sentinel_waits').e + 1))
    gset(ex, 'last_ready', r)
    return r


def ext_read_unsigned(ex, args, kw):
    k = ex.path.choose(3)
    if k == 1:
        raise_exc(ex, 'OSError')
    if k == 2:
        raise_exc(ex, 'EOFError')
    v = IntS.fresh('status_from_the_fork_server')
    ex.path.assume(v.e >= 0)
    gset(ex, 'status_read', v)
    return v


def ext_run(ex, args, kw):
    """self.run(): the user's target"""
    P = ex.path
    k = P.choose(7)
    gset(ex, 'run_outcome', mk_int(k))
    if k == 0:
        return SNone()
    if k == 1:
        raise_exc(ex, 'SystemExit')
    if k == 2:
        n = IntS.fresh('exit_arg')
        gset(ex, 'exit_arg', n)
        raise_exc(ex, 'SystemExit', n)
    if k == 3:
        raise_exc(ex, 'SystemExit', SV(ValS, z3.Const('exit_message_str', Val)))
    if k == 4:
        raise_exc(ex, 'SystemExit', SV(ValS, z3.Const('exit_object', Val)))
    raise_exc(ex, 'AnyException' if k == 5 else 'AnyBaseException')


def ext_isinstance(ex, args, kw):
    v, c = args
    name = getattr(c, 'name', None) or str(c)
    is_str_msg = z3.is_const(v.e) and v.e.decl().name() == 'exit_message_str'
    return mk_bool(is_str_msg and 'str' in name)


def ext_Popen(ex, args, kw):
    """self._Popen(self): forks; a new Popen object with a pid and no status yet"""
    p = SRef(ref('PopenF'), ex.path.new_id())
    pid = IntS.fresh('child_pid')
    ex.path.assume(pid.e > 0)
    ex.path.write_field(p, 'pid', pid)
    ex.path.write_field(p, 'returncode', SNone())
    gset(ex, 'forks', SV(IntS, gget(ex, 'forks').e + 1))
    return p


def build(w):
    w.cls('g', fields={'waits': IntS, 'reaped': BoolS, 'fate_kind': IntS, 'fate_val': IntS, 'blocking_wait': BoolS,
                       'sentinel_waits': IntS, 'last_ready': BoolS, 'status_read': IntS, 'run_outcome': IntS, 'exit_arg': IntS,
                       'forks': IntS, 'getpid': IntS, 'closes': IntS, 'children': set_of(ref('Proc')), 'current': ref('Proc'),
                       'preamble_failed': BoolS})
    w.cls('PopenF', module='popen_fork', pyname='Popen',
          fields={'returncode': opt(IntS), 'pid': IntS, 'sentinel': ValS})
    w.cls('PopenFS', module='popen_forkserver', pyname='Popen',
          fields={'returncode': opt(IntS), 'pid': IntS, 'sentinel': ValS})
    w.cls('Proc', module='process', pyname='BaseProcess',
          fields={'_popen': opt(ref('PopenF')), '_parent_pid': IntS, '_identity': ValS, '_sentinel': ValS, '_start_method': opt(ValS),
                  '_name': ValS, '_controlled_termination': BoolS, 'pid': ValS, 'name': ValS})
    w.classes['Proc'].methods.update({'_Popen': ext_Popen, 'run': ext_run})
    w.opaque_slices = True      # (Proc._identity is an opaque tuple: its slices are opaque values)
    w.classes['PopenF'].methods['close'] = lambda ex, a, k: (gset(ex, 'closes', SV(IntS, gget(ex, 'closes').e + 1)), SNone())[1]
    w.global_overrides['process._children'] = lambda ex: gget(ex, 'children')
    w.global_overrides['process._current_process'] = lambda ex: gget(ex, 'current')
    w.externals.update({
        'os.waitpid': ext_waitpid, 'os.WIFSIGNALED': wfun(_WIFSIG, BoolS), 'os.WIFEXITED': wfun(_WIFEXIT, BoolS),
        'os.WTERMSIG': wfun(_WTERMSIG, IntS), 'os.WEXITSTATUS': wfun(_WEXITSTATUS, IntS),
        'connection.wait': ext_conn_wait, 'forkserver.read_unsigned': ext_read_unsigned,
        'os.getpid': lambda ex, a, k: gget(ex, 'getpid'),
        'util._exit_function': lambda ex, a, k: SNone(), 'util.error': lambda ex, a, k: SV(ValS, z3.Const(fresh_name('logged'), Val)),
        'util.info': lambda ex, a, k: SNone(),
        'sys.stderr.write': lambda ex, a, k: SNone(), 'traceback.print_exc': lambda ex, a, k: SNone(),
        '<opaque>.flush': lambda ex, a, k: SNone(), 'isinstance<opaque>': ext_isinstance,
        'sys.stdout.flush': lambda ex, a, k: SNone(), 'sys.stderr.flush': lambda ex, a, k: SNone(),
        'multiprocessing.util._exit_function': lambda ex, a, k: SNone(),
        'multiprocessing.util.info': lambda ex, a, k: SNone(),
        'multiprocessing.util.error': lambda ex, a, k: SV(ValS, z3.Const(fresh_name('logged'), Val)),
        'util.error': lambda ex, a, k: SV(ValS, z3.Const(fresh_name('logged'), Val)),
    })
    fate = ('(g.fate_kind == 1 and 0 <= g.fate_val and g.fate_val <= 255) or '
            '(g.fate_kind == 2 and 1 <= g.fate_val and g.fate_val <= 64)')
    ended_now = '(g.reaped and not old(g.reaped))'

    poll = Contract(
        'popen_fork.Popen.poll', prop=PROP, params={'self': ref('PopenF'), 'flag': IntS},
        requires={'fate': fate, 'flag': 'flag == 0 or flag == 1', 'pid': 'self.pid > 0',
                  'status_known_iff_reaped': '(self.returncode is not None) == g.reaped'},
        modifies=['self.returncode', 'g.waits', 'g.reaped', 'g.blocking_wait'],
        returns=opt(IntS),
        loops={0: {'inv': {'not_reaped_yet': 'self.returncode is None and not g.reaped and '
                                             'g.blocking_wait == old(g.blocking_wait) and g.waits >= old(g.waits)'},
                   'modifies': ['g.waits']}},
        ensures={
            'status_is_cached': 'implies(old(self.returncode) is not None, result == old(self.returncode) and '
                                'g.waits == old(g.waits))',
            'killed_by_signal_s_reports_minus_s': 'implies(%s and g.fate_kind == 2, result is not None and '
                                                  'val(result) == -g.fate_val)' % ended_now,
            'exit_n_reports_n': 'implies(%s and g.fate_kind == 1, result is not None and val(result) == g.fate_val)' % ended_now,
            'none_until_the_child_has_ended': 'implies(old(self.returncode) is None and not g.reaped, result is None)',
            'result_is_the_stored_status': 'result == self.returncode and (self.returncode is not None) == g.reaped',
            'blocks_only_when_asked_to': 'implies(flag == 1, g.blocking_wait == old(g.blocking_wait))',
            'asks_the_os_while_the_status_is_unknown': 'implies(old(self.returncode) is None, g.waits > old(g.waits))',
        },
    )
    wait = Contract(
        'popen_fork.Popen.wait', prop=PROP, params={'self': ref('PopenF'), 'timeout': opt(RealS)},
        requires=dict(poll.requires, flag='True'),
        modifies=poll.modifies + ['g.sentinel_waits', 'g.last_ready'],
        returns=opt(IntS),
        ensures={
            'times_out_without_reaping': 'implies(old(self.returncode) is None and timeout is not None and '
                                         'g.sentinel_waits > old(g.sentinel_waits) and not g.last_ready, '
                                         'result is None and g.waits == old(g.waits) and self.returncode is None)',
            'never_blocks_in_waitpid_with_a_zero_timeout': 'implies(timeout is not None and val(timeout) == 0, '
                                                           'g.blocking_wait == old(g.blocking_wait))',
            'timed_wait_consults_the_sentinel_first': 'implies(old(self.returncode) is None and timeout is not None, '
                                                      'g.sentinel_waits == old(g.sentinel_waits) + 1)',
            'result_is_the_stored_status': 'result == self.returncode and (self.returncode is not None) == g.reaped',
            'status_is_cached': 'implies(old(self.returncode) is not None, result == old(self.returncode) and '
                                'g.waits == old(g.waits))',
        },
    )
    poll_fs = Contract(
        'popen_forkserver.Popen.poll', prop=PROP, params={'self': ref('PopenFS'), 'flag': IntS},
        requires={'flag': 'flag == 0 or flag == 1'},
        modifies=['self.returncode', 'g.sentinel_waits', 'g.last_ready', 'g.status_read'],
        returns=opt(IntS),
        ensures={
            'status_is_cached': 'implies(old(self.returncode) is not None, result == old(self.returncode) and '
                                'g.sentinel_waits == old(g.sentinel_waits))',
            'none_until_the_sentinel_is_ready': 'implies(old(self.returncode) is None and not g.last_ready, result is None '
                                                'and self.returncode is None)',
            'unreadable_status_is_non_zero': 'implies(old(self.returncode) is None and g.last_ready, result is not None and '
                                             '(val(result) == 255 or val(result) == g.status_read))',
            'result_is_the_stored_status': 'result == self.returncode',
        },
    )

    # ---- exit code chosen in the child ----------------------------------------------------------------
    def preamble_raises(ex):
        gset(ex, 'preamble_failed', mk_bool(True))
        raise_exc(ex, 'AnyException')
    bootstrap = Contract(
        'process.BaseProcess._bootstrap', prop=PROP, params={'self': ref('Proc')},
        inline=['process._maybe_flush', 'process._set_current_process'],
        requires={'fresh_run': 'not g.preamble_failed'},
        modifies=['g.run_outcome', 'g.exit_arg', 'g.preamble_failed', 'g.current'],
        returns=IntS,
        blocks=[
            {'label': 'preamble', 'first': 'if self._start_method is not None:',
             'last': "util.info('child process %s calling self.run()'",
             'assigns': {'_process_counter': ValS, '_children': ValS, 'loggerDict': ValS, 'logger_names': ValS,
                         'name': ValS, 'handler': ValS},
             'dead': ['old_process'], 'heap_ok': True, 'raises': [preamble_raises]},
            {'label': 'message of sys.exit(<non-int>)', 'first': "sys.stderr.write(str(exc.args[0])",
             'last': '_maybe_flush(sys.stderr)', 'assigns': {}, 'raises': []},
        ],
        ensures={
            'normal_return_reports_0': 'implies(not g.preamble_failed and g.run_outcome == 0, result == 0)',
            'sys_exit_n_reports_n': 'implies(not g.preamble_failed and g.run_outcome == 2, result == g.exit_arg)',
            'sys_exit_without_argument_reports_1': 'implies(not g.preamble_failed and g.run_outcome == 1, result == 1)',
            'sys_exit_with_a_message_reports_0': 'implies(not g.preamble_failed and g.run_outcome == 3, result == 0)',
            'sys_exit_with_another_object_reports_1': 'implies(not g.preamble_failed and g.run_outcome == 4, result == 1)',
            'a_target_that_raises_reports_1': 'implies(g.preamble_failed or g.run_outcome == 5 or g.run_outcome == 6, '
                                              'result == 1)',
        },
    )

    # ---- parent side: start / join / liveness -----------------------------------------------------------
    kids = {'children': 'allocated(g.children)'}
    start = Contract(
        'process.BaseProcess.start', prop=PROP, params={'self': ref('Proc')},
        externals={'process._cleanup': lambda ex, a, k: SNone()},
        requires=dict(kids),
        modifies=['self._popen', 'self._sentinel', 'g.children.*', 'g.forks'],
        ensures={
            'started_once_by_its_creator': 'old(self._popen) is None and self._parent_pid == g.getpid and '
                                           'g.forks == old(g.forks) + 1',
            'now_an_active_child': 'self._popen is not None and fresh(val(self._popen)) and has(g.children, self) and '
                                   'val(self._popen).returncode is None',
            'other_children_unchanged': 'all(implies(o != self, has(g.children, o) == old(has(g.children, o))) '
                                        'for o in refs("Proc"))',
        },
        raises={'AssertionError': {'second_start_or_foreign_process': '(old(self._popen) is not None or '
                                                                      'self._parent_pid != g.getpid) and g.forks == old(g.forks) '
                                                                      'and self._popen == old(self._popen)'}},
    )
    popen_wf = ('self._popen is None or (allocated(val(self._popen)) and val(self._popen).pid > 0 and '
                '(val(self._popen).returncode is not None) == g.reaped)')
    join = Contract(
        'process.BaseProcess.join', prop=PROP, params={'self': ref('Proc'), 'timeout': opt(RealS)},
        inline=['process.BaseProcess.close'],
        requires=dict(kids, fate=fate, popen=popen_wf),
        modifies=['PopenF.returncode', 'g.waits', 'g.reaped', 'g.blocking_wait', 'g.sentinel_waits', 'g.last_ready',
                  'g.children.*', 'g.closes'],
        ensures={
            'after_a_successful_join_no_longer_an_active_child':
                'implies(val(self._popen).returncode is not None, not has(g.children, self))',
            'still_a_child_if_it_has_not_ended': 'implies(val(self._popen).returncode is None, '
                                                 'has(g.children, self) == old(has(g.children, self)))',
            # a timed join that expires must leave the process object usable (its sentinel open) for the next join
            'sentinel_closed_only_after_the_child_was_reaped': 'g.closes == old(g.closes) + '
                                                               'ite(val(self._popen).returncode is not None, 1, 0)',
            'other_children_unchanged': 'all(implies(o != self, has(g.children, o) == old(has(g.children, o))) '
                                        'for o in refs("Proc"))',
            'timed_join_does_not_block_in_waitpid_unless_the_child_ended':
                'implies(timeout is not None and old(val(self._popen).returncode) is None and not g.last_ready, '
                'g.waits == old(g.waits))',
        },
        raises={'AssertionError': {'not_started_or_foreign': 'self._popen is None or self._parent_pid != g.getpid'}},
    )
    is_alive = Contract(
        'process.BaseProcess.is_alive', prop=PROP, params={'self': ref('Proc')},
        requires=dict(fate=fate, popen=popen_wf, cur='allocated(g.current)'),
        modifies=['PopenF.returncode', 'g.waits', 'g.reaped', 'g.blocking_wait'],
        returns=BoolS,
        ensures={
            'alive_until_the_child_has_ended': 'implies(self != g.current and self._popen is not None, '
                                               'result == (val(self._popen).returncode is None) and result == (not g.reaped))',
            'not_started_is_not_alive': 'implies(self != g.current and self._popen is None, not result)',
            'asks_the_os_while_the_status_is_unknown': 'implies(self != g.current and self._popen is not None and '
                                                       'old(val(self._popen).returncode) is None, g.waits > old(g.waits))',
            'never_blocks': 'g.blocking_wait == old(g.blocking_wait)',
        },
        raises={'AssertionError': {'foreign_process': 'self._parent_pid != g.getpid'}},
    )
    is_alive2 = Contract(
        'process.BaseProcess._is_alive', prop=PROP, params={'self': ref('Proc')},
        requires=dict(fate=fate, popen=popen_wf),
        modifies=['PopenF.returncode', 'g.waits', 'g.reaped', 'g.blocking_wait'],
        returns=BoolS,
        ensures={'alive_until_the_child_has_ended': 'result == (self._popen is not None and not g.reaped)',
                 'asks_the_os_while_the_status_is_unknown': 'implies(self._popen is not None and '
                                                            'old(val(self._popen).returncode) is None, g.waits > old(g.waits))',
                 'never_blocks': 'g.blocking_wait == old(g.blocking_wait)'},
    )
    exitcode = Contract(
        'process.BaseProcess.exitcode', prop=PROP, params={'self': ref('Proc')},
        requires=dict(fate=fate, popen=popen_wf),
        modifies=['PopenF.returncode', 'g.waits', 'g.reaped', 'g.blocking_wait'],
        returns=opt(IntS),
        ensures={
            'none_until_the_child_has_ended': '(result is None) == (self._popen is None or not g.reaped)',
            'asks_the_os_while_the_status_is_unknown': 'implies(self._popen is not None and '
                                                       'old(val(self._popen).returncode) is None, g.waits > old(g.waits))',
            'signal_reports_minus_s_exit_reports_n':
                'implies(%s, val(result) == ite(g.fate_kind == 2, -g.fate_val, g.fate_val))' % ended_now,
            'never_blocks': 'g.blocking_wait == old(g.blocking_wait)',
        },
    )
    return [poll, wait, poll_fs, bootstrap, start, join, is_alive, is_alive2, exitcode]


MANIFEST_ENTRY = {
    'text': 'Proof (all wait statuses, flags, timeouts and polling instants) over the functions that decide and report a child\'s '
            'exit status: popen_fork.Popen.poll decodes the wait status as -signal / exit code, caches it, retries EINTR (loop '
            'invariant), reports None while the child runs or waitpid fails, and blocks only when asked to; Popen.wait(timeout) '
            'consults the sentinel first and returns None without reaping when it did not become ready; the fork-server poll '
            'reports the status read or 255 when it cannot be read; BaseProcess._bootstrap returns 0 for a normal return, n for '
            'sys.exit(n), 1 for sys.exit() and for any other exception (the preamble before run() is under a statement '
            'contract); start() asserts "not started, created by this process" before anything else, forks once and registers '
            'the child; join() removes the child from the active set exactly when a status was obtained; is_alive / _is_alive / '
            'exitcode report alive / None until the child has been reaped and never block.',
    'note': 'A-wait (kernel encoding of wait statuses, one report per child) and connection.wait are assumed contracts; the '
            'spawn start method reaches _bootstrap through spawn._main, not under contract; wall-clock bounds are reduced to '
            '"no blocking waitpid".',
}
