"""C09 -- the pool keeps its size; workers are recycled on schedule without harm."""
from pyvc.api import *
import pool_shared as ps
import handles as H
import worker as W
import C04 as c04

PROP = 'C09'
LEAN = ['lemmas/SetCard.lean']
REPLAYERS = {q: 'replayers/pool_size.py' for q in (
    'pool.Pool._avail_index', 'pool.Pool._create_worker_process', 'pool.Pool._repopulate_pool', 'pool.Pool._maintain_pool',
    'pool.Pool.grow', 'pool.Pool.shrink', 'pool.Pool._worker_active', 'pool.Pool._iterinactive')}
REPLAYERS['pool.Pool._join_exited_workers'] = 'replayers/join_exited.py'
REPLAYERS['pool.Worker.workloop'] = 'replayers/workloop.py'

ASSUMPTIONS = [
    'process creation: Process.start() gives the worker a positive pid that is registered nowhere and differs from the pid of '
    'every worker of the pool whose exit status has not been collected (the kernel does not reuse the pid of an unreaped child); '
    'one fork per start()',
    'A-atomic: supervision tick, grow() and shrink() do not interleave below handler granularity (_processes and the worker '
    'list are read and written by one of them at a time)',
    'finite-set cardinality (|image of a list| <= its length; a set containing range(n) has at least n members) is proved in '
    'Lean 4 + Mathlib (lemmas/SetCard.lean, re-checked by every run) and mirrored by hand as two SMT assumptions at '
    'set(<generator over a list>) and next(<generator over range(n) filtered by "not in S">)',
    'a worker handle is inactive iff no handle in the cache lists its pid (apply handles: the accepting worker)',
]
OUT_OF_REACH = [
    'that fork() succeeds and how long until the next supervision tick',
    '"no job is lost, duplicated, failed or held up because of recycling" is the conjunction of C01 (single assignment), C04 '
    '(only the unfinished job of a reaped worker is failed) and C07 (results credited before the worker exits); for map/imap '
    'handles those inherit D3/D7 and are not covered',
    'shrink(): that ValueError is raised exactly when fewer than n workers are inactive (completeness of the generator); proved '
    'is the converse direction -- every worker it stops was inactive -- and the arithmetic',
]

RUN = 0
ALIVE = '({w}.exitcode is None and {w}._popen is not None)'
J = {'j': 'ints()'}
IJ = {'i': 'ints()', 'j': 'ints()'}


def pool_inv(pool='self._pool', reg=True):
    """I5 for the worker list: handles allocated, registered, pairwise distinct (object, pid, slot index)"""
    inv = {
        'I5_registered': Forall(J, 'implies(0 <= j and j < len(self._pool), allocated(at(self._pool, j)) and '
                                   'at(self._pool, j).pid is not None and has(self._poolctrl, val(at(self._pool, j).pid)) and '
                                   'has(self._on_ready_counters, val(at(self._pool, j).pid)))'),
        'I5_distinct': Forall(IJ, 'implies(0 <= i and i < j and j < len(self._pool), '
                                  'at(self._pool, i) != at(self._pool, j) and at(self._pool, i).pid != at(self._pool, j).pid)'),
        'distinct_slot_indices': Forall(IJ, 'implies(0 <= i and i < j and j < len(self._pool), '
                                            'at(self._pool, i).index != at(self._pool, j).index)'),
    }
    return inv


# the result handler, the supervisor and the workers' bookkeeping hold references to these containers: the pool
# may change their contents, never replace them
SHARED = ('self._on_ready_counters == old(self._on_ready_counters) and self._poolctrl == old(self._poolctrl) and '
          'self._pool == old(self._pool) and self._cache == old(self._cache)')
ONLY_LIVE = Forall(J, 'implies(0 <= j and j < len(self._pool), %s)' % ALIVE.format(w='at(self._pool, j)'))


# ---- assumed contracts of what process creation is made of -----------------------------------
def ext_ctx_event(ex, args, kw):
    return SV(ValS, z3.Const(fresh_name('sentinel_event'), Val))


def ext_ctx_value(ex, args, kw):
    """ctx.Value('i'): a fresh shared counter holding 0"""
    c = SRef(ref('Counter'), ex.path.new_id())
    ex.path.write_field(c, 'value', mk_int(0))
    return c


def pool_worker_cls(ex, args, kw):
    """self.Worker(...): the object that runs in the child (opaque here; its loop is Worker.workloop)"""
    return SV(ValS, z3.Const(fresh_name('worker_obj'), Val))


def pool_workerprocess_cls(ex, args, kw):
    """self.WorkerProcess(worker): a new, not yet started process handle"""
    wk = SRef(ref('WorkerP'), ex.path.new_id())
    P = ex.path
    P.write_field(wk, 'pid', SNone())
    P.write_field(wk, 'exitcode', SNone())
    P.write_field(wk, '_popen', SNone())
    P.write_field(wk, '_controlled_termination', mk_bool(False))
    P.write_field(wk, '_job_terminated', mk_bool(False))
    return wk


def worker_start(ex, args, kw):
    """Process.start(): forks; the handle gets a pid and a Popen object"""
    wk = args[0]
    P = ex.path
    pool = ex.root.scopes[0]['self']
    pid = IntS.fresh('new_pid')
    P.assume(pid.e > 0)
    env = {'self': pool, 'p': pid}
    P.assume(ex.spec_bool('not has(self._poolctrl, p) and not has(self._on_ready_counters, p)', env))
    P.assume(ex.spec_bool('all(implies(0 <= j and j < len(self._pool) and %s, at(self._pool, j).pid != p) '
                          'for j in ints())' % ALIVE.format(w='at(self._pool, j)'), env))
    P.write_field(wk, 'pid', pid)
    po = SRef(ref('Popen'), P.new_id())
    P.write_field(po, 'returncode', SNone())
    P.write_field(wk, '_popen', po)
    gset(ex, 'forks', SV(IntS, gget(ex, 'forks').e + 1))
    return SNone()


def ext_name_replace(ex, args, kw):
    return SV(ValS, z3.Const(fresh_name('name'), Val))


def worker_terminate_controlled(ex, args, kw):
    """Process.terminate_controlled() (process.py): flags the handle, sends SIGTERM"""
    wk = args[0]
    ex.path.write_field(wk, '_controlled_termination', mk_bool(True))
    gset(ex, 'signals', SV(IntS, gget(ex, 'signals').e + 1))
    m = gget(ex, 'stopped')
    gset(ex, 'stopped', m.shape.store(m, SV(IntS, wk.id), mk_bool(True)))
    return SNone()


def ext_hook(ex, args, kw):
    return SNone()


def build(w):
    for c in c04.build(w, 'apply'):
        w.contracts[c.qualname] = c
        # (the loss-record clause that is a recorded finding of C04 -- D12 -- is C04's to report, not this property's)
        c.ensures = {k: v for k, v in c.ensures.items() if k != 'job_of_a_vanished_worker_is_marked_in_a_tick_that_reaps_nothing'}
    ps.declare_handlers(w)
    g = w.classes['g']
    g.fields.update({'stopped': MapS(IntS, BoolS), 'grown': IntS, 'shrunk': IntS})
    P = w.classes['Pool']
    P.fields.update({'_ctx': ValS, '_inqueue': ValS, '_outqueue': ValS, '_initializer': ValS, '_initargs': ValS,
                     '_on_process_exit': ValS, '_wrap_exception': ValS, '_max_memory_per_child': opt(IntS),
                     '_worker_handler': ValS})
    P.methods.update({'Worker': pool_worker_cls, 'WorkerProcess': pool_workerprocess_cls, 'on_grow': ext_hook,
                      'on_shrink': ext_hook})
    w.classes['WorkerP'].methods.update({'start': worker_start, 'terminate_controlled': worker_terminate_controlled})
    w.classes['Sem'].methods.update({
        'grow': lambda ex, a, k: (gset(ex, 'grown', SV(IntS, gget(ex, 'grown').e + 1)), SNone())[1],
        'shrink': lambda ex, a, k: (gset(ex, 'shrunk', SV(IntS, gget(ex, 'shrunk').e + 1)), SNone())[1]})
    w.externals.update({'<opaque>.Event': ext_ctx_event, '<opaque>.Value': ext_ctx_value, '<opaque>.replace': ext_name_replace,
                        '<callable>': H.ext_callable})
    inv = pool_inv()
    wf = {'containers': 'allocated(self._pool) and allocated(self._poolctrl) and allocated(self._on_ready_counters) and '
                        'len(self._pool) >= 0'}

    # ---- slot index ------------------------------------------------------------------------------
    avail = Contract(
        'pool.Pool._avail_index', prop=PROP, params={'self': ref('Pool')},
        requires=dict(wf, workers=Forall(J, 'implies(0 <= j and j < len(self._pool), allocated(at(self._pool, j)))')),
        modifies=[], returns=IntS,
        ensures={
            'index_in_range': '0 <= result and result < self._processes',
            'index_not_in_use': Forall(J, 'implies(0 <= j and j < len(self._pool), at(self._pool, j).index != result)'),
            'only_when_a_slot_is_missing': 'len(self._pool) < self._processes',
        },
        raises={'AssertionError': {'pool_already_full': 'len(self._pool) >= self._processes'}},
    )

    # ---- process creation bookkeeping ------------------------------------------------------------
    create = Contract(
        'pool.Pool._create_worker_process', prop=PROP, params={'self': ref('Pool'), 'i': IntS},
        inline=['pool.Pool.get_process_queues', 'pool.Pool._process_register_queues'],
        requires=dict(wf, hook='is_hook(self.on_process_up)', **inv),
        modifies=['self._pool.*', 'self._poolctrl.*', 'self._on_ready_counters.*', 'g.forks', 'g.ncalls', 'g.cb_raised'],
        returns=ref('WorkerP'),
        ensures={
            'one_worker_appended': 'len(self._pool) == old(len(self._pool)) + 1 and at(self._pool, old(len(self._pool))) == result '
                                   'and fresh(result)',
            'others_stay': Forall(J, 'implies(0 <= j and j < old(len(self._pool)), at(self._pool, j) == old(at(self._pool, j)))'),
            'slot_index_assigned': 'result.index == i',
            'started_once': 'g.forks == old(g.forks) + 1 and result.pid is not None and result._popen is not None and '
                            'result.exitcode is None',
            'registered': 'has(self._poolctrl, val(result.pid)) and has(self._on_ready_counters, val(result.pid)) and '
                          'get(self._on_ready_counters, val(result.pid)).value == 0',
            'registries_otherwise_unchanged': Forall({'p': 'ints()'},
                'implies(p != val(result.pid), has(self._poolctrl, p) == old(has(self._poolctrl, p)) and '
                'has(self._on_ready_counters, p) == old(has(self._on_ready_counters, p)))'),
            'new_pid_is_new': Forall(J, 'implies(0 <= j and j < old(len(self._pool)) and %s, '
                                        'at(self._pool, j).pid != result.pid)' % ALIVE.format(w='at(self._pool, j)')),
        },
        raises={'AnyException': {'hook_raised': 'g.cb_raised'}, 'AnyBaseException': {'hook_raised': 'g.cb_raised'},
                'MemoryError': {'hook_raised': 'g.cb_raised'}},
    )

    # ---- back to the configured size -------------------------------------------------------------
    rs_wf = ('self.restart_state.R >= 0 and self.restart_state.maxT > 0 and g.now > 0 and '
             '(self.restart_state.maxR is None or self.restart_state.maxR >= 0) and '
             '(self.restart_state.T is None or (0 < self.restart_state.T and self.restart_state.T <= g.now))')
    step = ps.step_contract(PROP)
    w.contracts[step.qualname] = step
    rep_mod = ['self.restart_state.R', 'self.restart_state.T', 'g.now', 'g.steps', 'g.forks', 'self._pool.*',
               'self._poolctrl.*', 'self._on_ready_counters.*', 'g.ncalls', 'g.cb_raised']
    repopulate = Contract(
        'pool.Pool._repopulate_pool', prop=PROP,
        params={'self': ref('Pool'), 'exitcodes': list_of(opt(IntS))},
        requires=dict(wf, limiter_wf=rs_wf, lens='len(exitcodes) >= 0', hook='is_hook(self.on_process_up)',
                      only_live_workers=ONLY_LIVE, **inv),
        modifies=rep_mod,
        lets={'missing': 'self._processes - old(len(self._pool))'},
        loops={0: {'inv': dict(inv, only_live_workers=ONLY_LIVE,
                               pool_grows='len(self._pool) == old(len(self._pool)) + _i and g.forks == old(g.forks) + _i',
                               limiter_wf='self.restart_state.R >= 0 and g.now > 0 and (self.restart_state.T is None or '
                                          '(0 < self.restart_state.T and self.restart_state.T <= g.now))',
                               earlier_workers_stay=Forall(J, 'implies(0 <= j and j < old(len(self._pool)), '
                                                              'at(self._pool, j) == old(at(self._pool, j)))')),
                   'modifies': rep_mod}},
        ensures=dict(inv,
            back_to_the_configured_size='implies(self._state == 0 and missing > 0, len(self._pool) == self._processes)',
            never_above_it='len(self._pool) <= ite(missing > 0, self._processes, old(len(self._pool))) and '
                           'len(self._pool) >= old(len(self._pool))',
            exactly_the_missing_number_started='g.forks - old(g.forks) == len(self._pool) - old(len(self._pool))',
            earlier_workers_stay=Forall(J, 'implies(0 <= j and j < old(len(self._pool)), at(self._pool, j) == old(at(self._pool, j)))'),
            only_live_workers=ONLY_LIVE),
        raises={'RestartFreqExceeded': {'never_above_it': 'len(self._pool) < self._processes'},
                'AnyException': {'hook_raised': 'g.cb_raised'}, 'AnyBaseException': {'hook_raised': 'g.cb_raised'},
                'MemoryError': {'hook_raised': 'g.cb_raised'}},
    )

    # ---- reaping keeps the bookkeeping invariant (C04's contract, extended) -------------------------
    join = w.contracts['pool.Pool._join_exited_workers']
    join.prop = PROP
    join.requires = dict(join.requires, distinct_slot_indices=inv['distinct_slot_indices'])
    join.loops[1]['inv'] = dict(join.loops[1]['inv'], distinct_slot_indices=inv['distinct_slot_indices'])
    join.loops[2]['inv'] = dict(join.loops[2]['inv'], clock_monotone='g.now >= old(g.now)')
    join.uses = dict(join.uses, registries_stay_the_shared_objects=[])
    join.ensures = dict(join.ensures, registries_stay_the_shared_objects=SHARED, clock_monotone='g.now >= old(g.now) and g.now > 0', never_grows='len(self._pool) <= old(len(self._pool)) and len(self._pool) >= 0', **inv)

    # ---- one supervision tick -----------------------------------------------------------------------
    maintain = Contract(
        'pool.Pool._maintain_pool', prop=PROP, params={'self': ref('Pool')},
        requires=dict(join.requires, limiter_wf=rs_wf, hook_up='is_hook(self.on_process_up)',
                      sem='self._putlock is None or allocated(val(self._putlock))'),
        modifies=sorted(set(join.modifies + rep_mod + ['Sem._value'])),
        externals={'threading.Semaphore.release': lambda ex, a, k: SNone(), 'pool.LaxBoundedSemaphore.release': lambda ex, a, k: SNone()},
        loops={0: {'inv': dict(inv, size='len(self._pool) == entry(len(self._pool))'), 'modifies': ['Sem._value']}},
        ensures=dict(inv,
            back_to_the_configured_size='implies(self._state == 0 and old(len(self._pool)) <= self._processes, '
                                        'len(self._pool) == self._processes)',
            never_above_it='len(self._pool) <= ite(old(len(self._pool)) > self._processes, old(len(self._pool)), self._processes)',
            only_live_workers=ONLY_LIVE),
        raises={'RestartFreqExceeded': {'never_above_it': 'len(self._pool) < self._processes'},
                'AnyException': {'t': 'True'}, 'AnyBaseException': {'t': 'True'}, 'MemoryError': {'t': 'True'}},
    )

    # ---- grow / shrink ------------------------------------------------------------------------------
    grow = Contract(
        'pool.Pool.grow', prop=PROP, params={'self': ref('Pool'), 'n': IntS},
        requires={'sem': 'self._putlock is None or allocated(val(self._putlock))'},
        modifies=['self._processes', 'g.grown'],
        loops={0: {'inv': {'one_slot_per_round': 'self._processes == old(self._processes) + _i and '
                                                 'implies(self._putlock is not None, g.grown == old(g.grown) + _i)'},
                   'modifies': ['self._processes', 'g.grown']}},
        ensures={'target_size_raised_by_n': 'self._processes == old(self._processes) + ite(n > 0, n, 0)',
                 'semaphore_grown_as_often': 'implies(self._putlock is not None, g.grown == old(g.grown) + ite(n > 0, n, 0))'},
    )
    active_def = ('(not all(implies(has(self._cache, k), get(self._cache, k)._worker_pid is None or '
                  'val(get(self._cache, k)._worker_pid) == 0 or get(self._cache, k)._worker_pid != {w}.pid) for k in ints()))')
    worker_active = Contract(
        'pool.Pool._worker_active', prop=PROP, params={'self': ref('Pool'), 'worker': ref('WorkerP')},
        inline=['pool.ApplyResult.worker_pids'],
        requires={'cache': 'allocated(self._cache) and allocated(worker) and worker.pid is not None',
                  'jobs': Forall({'k': 'ints()'}, 'implies(has(self._cache, k), allocated(get(self._cache, k)))')},
        modifies=[], returns=BoolS,
        loops={0: {'inv': {'no_owner_among_the_visited': Forall({'k': 'ints()'},
            'implies(_seen[k] and has(self._cache, k), get(self._cache, k)._worker_pid is None or '
            'val(get(self._cache, k)._worker_pid) == 0 or get(self._cache, k)._worker_pid != worker.pid)')},
            'modifies': []}},
        ensures={'active_iff_some_job_lists_its_pid': 'result == %s' % active_def.format(w='worker')},
    )
    iterinactive = Contract(
        'pool.Pool._iterinactive', prop=PROP, params={'self': ref('Pool')},
        requires={'cache': 'allocated(self._cache) and allocated(self._pool) and len(self._pool) >= 0',
                  'jobs': Forall({'k': 'ints()'}, 'implies(has(self._cache, k), allocated(get(self._cache, k)))'),
                  'workers': Forall(J, 'implies(0 <= j and j < len(self._pool), allocated(at(self._pool, j)) and '
                                       'at(self._pool, j).pid is not None)')},
        modifies=[],
        loops={0: {'inv': {'t': 'True'}, 'modifies': []}},
        yields={'inv': {}, 'env_modifies': [], 'shape': ref('WorkerP'),
                # what shrink() is told about every worker it is handed
                'item': {'a_pool_worker': 'not all(implies(0 <= j and j < len(self._pool), at(self._pool, j) != item) for j in ints())',
                         'that_owns_no_job': 'not %s' % active_def.format(w='item')}},
        ensures={'t': 'True'},
    )
    shrink = Contract(
        'pool.Pool.shrink', prop=PROP, params={'self': ref('Pool'), 'n': IntS},
        requires={'sem': 'self._putlock is None or allocated(val(self._putlock))',
                  'cache': 'allocated(self._cache) and allocated(self._pool) and len(self._pool) >= 0',
                  'nothing_stopped_yet': Forall({'o': 'ints()'}, 'not g.stopped[o]')},
        modifies=['self._processes', 'g.shrunk', 'g.signals', 'g.stopped', 'WorkerP._controlled_termination'],
        loops={0: {'inv': {
            'one_slot_per_stopped_worker': 'self._processes == old(self._processes) - _i and g.signals == old(g.signals) + _i and '
                                           'implies(self._putlock is not None, g.shrunk == old(g.shrunk) + _i) and '
                                           '(_i == 0 or _i < n)',
            'only_inactive_pool_workers_stopped': Forall({'o': 'refs("WorkerP")'},
                'implies(g.stopped[idof(o)], o._controlled_termination and not %s)' % active_def.format(w='o'))},
            'modifies': ['self._processes', 'g.shrunk', 'g.signals', 'g.stopped', 'WorkerP._controlled_termination']}},
        ensures={
            'target_size_lowered_by_the_number_stopped':
                'self._processes - old(self._processes) == old(g.signals) - g.signals and '
                'implies(self._putlock is not None, g.shrunk - old(g.shrunk) == g.signals - old(g.signals))',
            'stops_n_workers': 'g.signals - old(g.signals) == ite(n > 1, n, 1)',
            'only_inactive_pool_workers_stopped': Forall({'o': 'refs("WorkerP")'},
                'implies(g.stopped[idof(o)], o._controlled_termination and not %s)' % active_def.format(w='o')),
        },
        raises={'ValueError': {'fewer_than_asked_for': 'g.signals - old(g.signals) < ite(n > 1, n, 1) and '
                                                       'self._processes - old(self._processes) == old(g.signals) - g.signals'}},
    )
    W.declare_worker(w)
    workloop = W.workloop_contract(PROP)
    return [avail, create, repopulate, join, maintain, grow, worker_active, iterinactive, shrink, workloop]


MANIFEST_ENTRY = {
    'text': 'Proof (unbounded; all pool sizes, target sizes, slot arrangements and exit-code lists) over the functions pool-size '
            'supervision is made of: _avail_index returns a slot index in [0, size) used by no worker and cannot raise '
            'StopIteration (pigeonhole step proved in Lean, lemmas/SetCard.lean, re-checked every run); _create_worker_process '
            'appends exactly one started worker with that index, registers its pid in both registries and leaves every other '
            'entry alone; _repopulate_pool (loop invariant) brings a running pool to exactly the configured size, never above '
            'it, with one fork per new worker, keeping handles, pids and slot indices pairwise distinct; _join_exited_workers '
            'keeps that invariant while reaping (C04 contract extended); _maintain_pool composes the two through their '
            'contracts: reaping then refilling gives len(pool) == size; grow(n)/shrink(n) move the target by exactly the number '
            'of rounds / workers stopped, shrink stops only workers that own no job (generator contract of _iterinactive, proved '
            'at its yield) and at most max(n,1); Worker.workloop never runs more than its quota, leaves normally only at the '
            'quota with the recycle status, and checks that its results were consumed on every way out.',
    'note': 'Assumed: start() forks once and yields a pid unused by any unreaped worker; handlers atomic.  Not covered: '
            'completeness of shrink\'s ValueError; recycling harmlessness for map/imap handles (inherits D3/D7).',
}
