"""C18 -- connection authentication is mutual and exact."""
from pyvc.api import *
from pyvc.absbytes import AbstractBytes, blen

PROP = 'C18'
VARIANTS = ['bytes', 'other']
REPLAYERS = {q: 'replayers/auth.py' for q in (
    'connection.deliver_challenge', 'connection.answer_challenge', 'connection.Listener.accept', 'connection.Client',
    'connection.Listener.__init__', 'lemmas_C18.handshake')}

ASSUMPTIONS = [
    'A-hmac (cryptographic idealisation, never proved): HMAC-MD5 is a function H(key, message) of the contents with '
    'H(k1, m) == H(k2, m) only if k1 == k2; a digest is 16 bytes',
    'byte strings are abstract values: equality, concatenation and x[:n] / x[n:] by uninterpreted functions with the usual '
    'laws (pyvc/absbytes.py); nothing else about byte contents is visible to the solver',
    'send_bytes / recv_bytes of a connection deliver whole messages in order (C13); recv_bytes(256) raises OSError for a longer '
    'message; the n-th message received on a channel is the n-th message sent on it (prophecy map per channel)',
    'os.urandom(20) returns 20 arbitrary bytes (freshness/unpredictability is an assumption about the OS)',
    'the handshake is lock-step, so the two sides are composed sequentially in lemmas_C18.handshake (proof script over the '
    'four contracts, channels coupled through the prophecy maps)',
]
OUT_OF_REACH = [
    'strength of HMAC-MD5, unpredictability of the challenge, replay across connections (follows from freshness)',
    'socket / pipe set-up in Listener.__init__ and Client (SocketListener, SocketClient: external)',
]

_H = z3.Function('hmac_md5', Val, Val, Val)


def sp_hmac(ex, k, m):
    """hmac(k, m): the digest; A-hmac is asserted for the pair of keys at hand wherever two digests meet"""
    d = _H(k.e, m.e)
    ex.path.assume(blen(d) == 16)
    return SV(ValS, d)


def declare(w):
    w.abstract_bytes = AbstractBytes()
    w.cls('g', fields={'n_digests': IntS, 'urandom_calls': IntS})
    w.cls('Chan', fields={'msgs': MapS(IntS, ValS), 'n_sent': IntS, 'n_rcvd': IntS})
    w.cls('Conn', fields={'out': ref('Chan'), 'inc': ref('Chan'), 'challenge': ValS},
          methods={'close': lambda ex, a, k: SNone()})     # (closing sends and receives nothing)
    w.cls('HM', fields={'key': ValS, 'msg': ValS})
    w.cls('SockL', fields={'peer': ref('Conn')})
    w.cls('Listener', module='connection', fields={'_listener': opt(ref('SockL')), '_authkey': opt(ValS)})
    w.spec_funcs['hmac'] = sp_hmac
    w.spec_funcs['blen'] = lambda ex, v: SV(IntS, blen(v.e))


def conn_send_bytes(ex, args, kw):
    """Connection.send_bytes(b) (C13 contract): b is the next message on the outgoing channel"""
    c, b = args[0], args[1]
    P = ex.path
    ch = P.read_field(c, 'out')
    n = P.read_field(ch, 'n_sent')
    msgs = P.read_field(ch, 'msgs')
    m = msgs.shape.select(msgs, n)
    P.assume(m.e == b.e)                # prophecy: the n-th message of this channel is b
    P.write_field(ch, 'n_sent', SV(IntS, n.e + 1))
    return SNone()


def conn_recv_bytes(ex, args, kw):
    """Connection.recv_bytes(maxlength): the next message of the incoming channel, any content a peer may send;
    OSError if it is longer than maxlength; EOFError if the peer closed"""
    c = args[0]
    P = ex.path
    ch = P.read_field(c, 'inc')
    n = P.read_field(ch, 'n_rcvd')
    msgs = P.read_field(ch, 'msgs')
    m = msgs.shape.select(msgs, n)
    P.assume(blen(m.e) >= 0)
    k = P.choose(3)
    if k == 1:
        raise_exc(ex, 'EOFError')
    P.write_field(ch, 'n_rcvd', SV(IntS, n.e + 1))
    if k == 2:
        P.assume(blen(m.e) > as_arith(args[1]))
        raise_exc(ex, 'OSError')
    P.assume(blen(m.e) <= as_arith(args[1]))
    return m


def ext_hmac_new(ex, args, kw):
    h = SRef(ref('HM'), ex.path.new_id())
    ex.path.write_field(h, 'key', args[0])
    ex.path.write_field(h, 'msg', args[1])
    return h


def hm_digest(ex, args, kw):
    h = args[0]
    P = ex.path
    gset(ex, 'n_digests', SV(IntS, gget(ex, 'n_digests').e + 1))
    return sp_hmac(ex, P.read_field(h, 'key'), P.read_field(h, 'msg'))


def ext_urandom(ex, args, kw):
    b = SV(ValS, z3.Const(fresh_name('challenge'), Val))
    ex.path.assume(blen(b.e) == as_arith(args[0]))
    conn = ex.root.scopes[0].get('connection')
    if conn is not None and isinstance(conn, SRef):
        ex.path.write_field(conn, 'challenge', b)
    gset(ex, 'urandom_calls', SV(IntS, gget(ex, 'urandom_calls').e + 1))
    return b


def ext_A_hmac(ex, args, kw):
    """lemmas_C18.A_hmac(k1, k2): A-hmac for this pair of keys: over any message, equal digests mean equal keys"""
    k1, k2 = args
    m = z3.Const(fresh_name('m'), Val)
    ex.path.assume(z3.ForAll([m], z3.Implies(_H(k1.e, m) == _H(k2.e, m), k1.e == k2.e),
                             patterns=[z3.MultiPattern(_H(k1.e, m), _H(k2.e, m))]))
    return SNone()


def sock_accept(ex, args, kw):
    return ex.path.read_field(args[0], 'peer')


WF = ('allocated(connection) and allocated(connection.out) and allocated(connection.inc) and connection.out != connection.inc '
      'and connection.out.n_sent >= 0 and connection.inc.n_rcvd >= 0')
SENT0 = 'connection.out.msgs[old(connection.out.n_sent)]'
SENT1 = 'connection.out.msgs[old(connection.out.n_sent) + 1]'
RCVD0 = 'connection.inc.msgs[old(connection.inc.n_rcvd)]'
RCVD1 = 'connection.inc.msgs[old(connection.inc.n_rcvd) + 1]'
CONN_MOD = ['connection.out.n_sent', 'connection.inc.n_rcvd', 'connection.challenge', 'g.n_digests', 'g.urandom_calls']
ALL_MOD = ['Chan.n_sent', 'Chan.n_rcvd', 'Conn.challenge', 'g.n_digests', 'g.urandom_calls']
CHALLENGE_SENT = ('%s == CHALLENGE + connection.challenge and blen(connection.challenge) == 20 and '
                  'g.urandom_calls == old(g.urandom_calls) + 1' % SENT0)


def deliver_contract():
    return Contract(
        'connection.deliver_challenge', prop=PROP, variants=['bytes'],
        params={'connection': ref('Conn'), 'authkey': ValS},
        requires={'wf': WF},
        modifies=CONN_MOD,
        ensures={
            'challenge_sent_first': CHALLENGE_SENT,
            'accepted_only_the_digest_of_own_key_and_this_challenge': '%s == hmac(authkey, connection.challenge)' % RCVD0,
            'welcome_sent': '%s == WELCOME and connection.out.n_sent == old(connection.out.n_sent) + 2 and '
                            'connection.inc.n_rcvd == old(connection.inc.n_rcvd) + 1 and '
                            'g.n_digests == old(g.n_digests) + 1' % SENT1,
        },
        raises={
            'AuthenticationError': {
                'only_for_a_wrong_digest': '%s != hmac(authkey, connection.challenge)' % RCVD0,
                'challenge_sent_first': CHALLENGE_SENT,
                'failure_sent': '%s == FAILURE and connection.out.n_sent == old(connection.out.n_sent) + 2' % SENT1,
            },
            'OSError': {'no_verdict_sent': 'connection.out.n_sent <= old(connection.out.n_sent) + 1'},
            'EOFError': {'no_verdict_sent': 'connection.out.n_sent <= old(connection.out.n_sent) + 1'},
        },
    )


def answer_contract():
    return Contract(
        'connection.answer_challenge', prop=PROP, variants=['bytes'],
        params={'connection': ref('Conn'), 'authkey': ValS},
        requires={'wf': WF},
        modifies=CONN_MOD,
        ensures={
            'answers_with_digest_of_own_key_and_the_received_challenge':
                '%s == hmac(authkey, %s[11:]) and %s[:11] == CHALLENGE' % (SENT0, RCVD0, RCVD0),
            'returns_only_on_welcome': '%s == WELCOME' % RCVD1,
            'one_message_sent': 'connection.out.n_sent == old(connection.out.n_sent) + 1 and '
                                'connection.inc.n_rcvd == old(connection.inc.n_rcvd) + 2 and '
                                'g.n_digests == old(g.n_digests) + 1',
        },
        raises={
            'AuthenticationError': {
                'verdict_was_not_welcome': '%s != WELCOME' % RCVD1,
                'answered_with_digest_of_own_key': '%s == hmac(authkey, %s[11:]) and %s[:11] == CHALLENGE' % (SENT0, RCVD0, RCVD0),
            },
            'AssertionError': {'not_a_challenge': '%s[:11] != CHALLENGE and '
                                                  'connection.out.n_sent == old(connection.out.n_sent)' % RCVD0},
            'OSError': {'t': 'True'}, 'EOFError': {'t': 'True'},
        },
    )


def build(w, variant='bytes'):
    declare(w)
    w.classes['Conn'].methods.update({'send_bytes': conn_send_bytes, 'recv_bytes': conn_recv_bytes})
    w.classes['HM'].methods['digest'] = hm_digest
    w.classes['SockL'].methods['accept'] = sock_accept
    from pyvc.absbytes import _take, _drop

    def bytes_startswith(ex, args, kw):
        x, p = args[0], args[1]
        return SV(BoolS, z3.And(blen(x.e) >= blen(p.e), _take(x.e, blen(p.e)) == p.e))

    def bytes_lstrip(ex, args, kw):
        """x.lstrip(chars): x without its longest prefix made of bytes that occur in chars -- SOME suffix of x (which one
        depends on byte values the abstract view does not see); x itself if x is empty"""
        x = args[0]
        k = IntS.fresh('stripped')
        ex.path.assume(z3.And(k.e >= 0, k.e <= blen(x.e)))
        return w.abstract_bytes.slice(ex, x, k, None)
    w.externals.update({'<opaque>.startswith': bytes_startswith, '<opaque>.lstrip': bytes_lstrip,
                        '<opaque>.strip': bytes_lstrip})
    w.externals.update({'hmac.new': ext_hmac_new, 'os.urandom': ext_urandom,
                        'isinstance<opaque>': lambda ex, a, k: mk_bool(variant == 'bytes')})
    deliver, answer = deliver_contract(), answer_contract()
    items = [deliver, answer]

    # ---- Listener.accept / Client: both challenges, in opposite orders ---------------------------
    accept = Contract(
        'connection.Listener.accept', prop=PROP, variants=['bytes'],
        params={'self': ref('Listener')},
        requires={'wf': 'self._listener is None or (allocated(val(self._listener)) and ' +
                        WF.replace('connection', 'val(self._listener).peer') + ')',
                  'key': 'self._authkey is not None and blen(val(self._authkey)) > 0 and truthy(val(self._authkey))'},
        modifies=ALL_MOD, returns=ref('Conn'),
        ensures={
            'connection_handed_out_only_after_both_challenges':
                'result == val(self._listener).peer and g.n_digests == old(g.n_digests) + 2 and '
                'result.out.n_sent == old(val(self._listener).peer.out.n_sent) + 3 and '
                'result.inc.n_rcvd == old(val(self._listener).peer.inc.n_rcvd) + 3',
        },
        raises={'AuthenticationError': {'t': 'True'}, 'OSError': {'t': 'True'}, 'EOFError': {'t': 'True'},
                'AssertionError': {'t': 'True'}},
    )
    items.append(accept)

    sock = {'connection.address_type': lambda ex, a, k: SStr('AF_UNIX'),
            'connection._validate_family': lambda ex, a, k: SNone(),
            'connection.SocketListener': lambda ex, a, k: SRef(ref('SockL'), ex.path.new_id()),
            'connection.arbitrary_address': lambda ex, a, k: SV(ValS, z3.Const(fresh_name('addr'), Val))}
    # a key that is not a byte string is rejected before it is used
    if variant == 'other':
        w.externals.update(sock)
        w.externals['connection.SocketClient'] = lambda ex, a, k: SRef(ref('Conn'), ex.path.new_id())
        client_bad = Contract(
            'connection.Client', prop=PROP, variants=['other'],
            params={'address': ValS, 'family': opt(ValS), 'authkey': opt(ValS)},
            requires={'not_bytes': 'authkey is not None', 'default_family': 'family is None'},
            modifies=[], returns=ref('Conn'),
            ensures={'never_returns_a_connection': 'False'},
            raises={'TypeError': {'key_not_used': 'g.n_digests == old(g.n_digests)'}},
        )
        listener_bad = Contract(
            'connection.Listener.__init__', prop=PROP, variants=['other'],
            params={'self': ref('Listener'), 'address': opt(ValS), 'family': opt(ValS), 'backlog': IntS, 'authkey': opt(ValS)},
            requires={'not_bytes': 'authkey is not None', 'default_family': 'family is None and address is None'},
            modifies=['self._listener'],
            ensures={'never_constructed': 'False'},
            raises={'TypeError': {'key_not_stored': 'g.n_digests == old(g.n_digests)'}},
        )
        return [client_bad, listener_bad]

    w.externals.update(sock)
    w.externals['connection.SocketClient'] = lambda ex, a, k: ex.root.closure[0]['g_conn']
    client = Contract(
        'connection.Client', prop=PROP, variants=['bytes'],
        params={'address': ValS, 'family': opt(ValS), 'authkey': opt(ValS)},
        free={'g_conn': ref('Conn')},
        requires={'wf': WF.replace('connection', 'g_conn'), 'key': 'authkey is not None and blen(val(authkey)) > 0',
                  'default_family': 'family is None'},
        modifies=ALL_MOD, returns=ref('Conn'),
        ensures={'connection_handed_out_only_after_both_challenges':
                 'result == g_conn and g.n_digests == old(g.n_digests) + 2 and '
                 'result.out.n_sent == old(g_conn.out.n_sent) + 3 and result.inc.n_rcvd == old(g_conn.inc.n_rcvd) + 3'},
        raises={'AuthenticationError': {'t': 'True'}, 'OSError': {'t': 'True'}, 'EOFError': {'t': 'True'},
                'AssertionError': {'t': 'True'}},
    )
    items.append(client)

    # ---- composition: the handshake succeeds iff the keys are equal ---------------------------------
    both = ('allocated(cL) and allocated(cC) and cL != cC and allocated(cL.out) and allocated(cL.inc) and cL.out != cL.inc and '
            'cC.out == cL.inc and cC.inc == cL.out and cL.out.n_sent == 0 and cL.out.n_rcvd == 0 and cL.inc.n_sent == 0 and '
            'cL.inc.n_rcvd == 0 and blen(kL) > 0 and blen(kC) > 0')
    hs = Contract(
        'lemmas_C18.handshake', prop=PROP, variants=['bytes'],
        params={'cL': ref('Conn'), 'cC': ref('Conn'), 'kL': ValS, 'kC': ValS},
        externals={'lemmas_C18.A_hmac': ext_A_hmac},
        requires={'two_ends_of_one_connection': both},
        modifies=ALL_MOD, returns=tup(BoolS, BoolS, BoolS),
        ensures={
            'equal_keys_both_sides_get_the_connection': 'implies(kL == kC and not result[2], result[0] and result[1])',
            'different_keys_neither_side_gets_it': 'implies(kL != kC and not result[2], not result[0] and not result[1])',
        },
    )
    items.append(hs)

    # ---- the key is not pickled outside process spawning -------------------------------------------
    def ext_spawning(ex, args, kw):
        return ex.root.closure[0]['g_spawning']
    w.externals['context.get_spawning_popen'] = ext_spawning
    w.externals['builtins.bytes'] = lambda ex, a, k: a[0]
    w.cls('AuthStr', module='process', pyname='AuthenticationString', fields={})
    items.append(Contract(
        'process.AuthenticationString.__reduce__', prop=PROP, variants=['bytes'],
        params={'self': ref('AuthStr')}, free={'g_spawning': opt(ValS)},
        modifies=[],
        ensures={'only_while_a_process_is_being_spawned': 'g_spawning is not None'},
        raises={'TypeError': {'refused_outside_spawning': 'g_spawning is None'}},
    ))
    return items


MANIFEST_ENTRY = {
    'text': 'Proof over the real deliver_challenge / answer_challenge / Listener.accept / Client with HMAC idealised (A-hmac) '
            'and byte strings as abstract values: deliver_challenge sends CHALLENGE plus 20 fresh bytes, sends WELCOME and '
            'returns iff the response equals the digest of exactly that challenge under its own key, otherwise sends FAILURE and '
            'raises -- for every response a peer may send (anything up to 256 bytes; longer ones fail in recv_bytes); '
            'answer_challenge answers the received challenge with the digest under its own key and returns iff the verdict is '
            'exactly WELCOME; accept() and Client() hand out the connection only after both challenges; a key that is not a byte '
            'string raises TypeError before any digest is computed.  The proof script lemmas_C18.handshake composes the four '
            'contracts over one connection (channels coupled by prophecy maps) and proves: equal non-empty keys -> both sides '
            'succeed; different keys -> neither side returns (absent transport failures).',
    'note': 'HMAC-MD5 strength, unpredictability of os.urandom and replay across connections are assumptions; socket set-up is '
            'external.  An empty key makes Listener.accept skip authentication (`if self._authkey:`) while Client still '
            'authenticates (`is not None`): outside the property (non-empty keys), reported as an observation.',
}
