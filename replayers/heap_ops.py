"""Replay / bounded search for C14 on the real code: a real billiard.heap.Heap
driven through malloc / free (and the internal _malloc / _free) by every
sequence of up to 5 operations over a few sizes, plus a few thousand
pseudo-random longer sequences with a fixed seed; after every operation the
representation invariant of the contracts is evaluated on the real object:

  * free blocks: aligned, inside their arena, pairwise disjoint, no two adjacent
    (they would have been merged), start/stop indexes mirror each other;
  * allocated blocks: aligned, inside their arena, pairwise disjoint and
    disjoint from every free block;
  * the length index lists exactly the free blocks, each once, under its
    length; _lengths is sorted and holds exactly the bucket keys;
  * a block handed out is at least as large as asked, overlaps no block handed
    out before and not yet freed; no new arena is mapped while a free extent is
    large enough.
"""
import itertools
import json
import random
import sys

import billiard.heap as H


def invariant(h):
    bad = []
    free = list(h._start_to_block.values())
    for (a, s, e) in free:
        if not (0 <= s < e <= a.size) or s % 8 or e % 8:
            bad.append('free block %r misplaced' % ((s, e),))
        if h._start_to_block.get((a, s)) != (a, s, e) or h._stop_to_block.get((a, e)) != (a, s, e):
            bad.append('free block %r: start/stop indexes disagree' % ((s, e),))
        if (a, s) in h._stop_to_block or (a, e) in h._start_to_block:
            bad.append('free block %r touches another free block (not merged)' % ((s, e),))
    if len(h._stop_to_block) != len(free):
        bad.append('stop index has %d entries, start index %d' % (len(h._stop_to_block), len(free)))
    allocated = list(h._allocated_blocks)
    for (a, s, e) in allocated:
        if not (0 <= s < e <= a.size) or s % 8 or e % 8:
            bad.append('allocated block %r misplaced' % ((s, e),))
    every = [(b, 'free') for b in free] + [(b, 'allocated') for b in allocated]
    for ((a1, s1, e1), k1), ((a2, s2, e2), k2) in itertools.combinations(every, 2):
        if a1 is a2 and s1 < e2 and s2 < e1:
            bad.append('%s block %r overlaps %s block %r' % (k1, (s1, e1), k2, (s2, e2)))
    # the arenas are exactly partitioned into live and free blocks (no gap, nothing lost)
    for a in h._arenas:
        pos = 0
        for (s, e) in sorted((s, e) for ((aa, s, e), _) in every if aa is a):
            if s != pos:
                bad.append('arena of %d bytes: bytes %d..%d belong to no block' % (a.size, pos, s))
                break
            pos = e
        else:
            if pos != a.size:
                bad.append('arena of %d bytes: bytes %d..%d belong to no block' % (a.size, pos, a.size))
    listed = [b for n, seq in h._len_to_seq.items() for b in seq]
    if sorted(map(id_key, listed)) != sorted(map(id_key, free)):
        bad.append('length index lists %d blocks, %d are free' % (len(listed), len(free)))
    for n, seq in h._len_to_seq.items():
        if not seq or any(e - s != n for (_, s, e) in seq):
            bad.append('bucket %d: %r' % (n, [(s, e) for (_, s, e) in seq]))
    if h._lengths != sorted(h._len_to_seq) or len(set(h._lengths)) != len(h._lengths):
        bad.append('_lengths %r, bucket keys %r' % (h._lengths, sorted(h._len_to_seq)))
    return bad


def id_key(b):
    return (id(b[0]), b[1], b[2])


def run(ops, size=4096):
    """ops: list of ('m', nbytes) | ('f', index of a live block)"""
    h = H.Heap(size)
    live = []
    for step, op in enumerate(ops):
        if op[0] == 'm':
            n_arenas = len(h._arenas)
            biggest = max([e - s for (_, s, e) in h._start_to_block.values()] or [0])
            b = h.malloc(op[1])
            want = max(H.Heap._roundup(max(op[1], 1), 8), 8)
            if b[2] - b[1] < op[1] or b[2] - b[1] != want:
                return 'step %d: malloc(%d) returned a block of %d bytes' % (step, op[1], b[2] - b[1])
            for o in live:
                if o[0] is b[0] and o[1] < b[2] and b[1] < o[2]:
                    return 'step %d: malloc(%d) returned %r overlapping live block %r' % (step, op[1], b[1:], o[1:])
            if len(h._arenas) > n_arenas and biggest >= want:
                return 'step %d: malloc(%d) mapped a new arena although a free extent of %d bytes existed' % (step, op[1], biggest)
            live.append(b)
        else:
            if not live:
                continue
            h.free(live.pop(op[1] % len(live)))
        bad = invariant(h)
        if bad:
            return 'after %r (step %d of %r): %s' % (op, step, ops, '; '.join(bad[:3]))
    return None


def scen_lock_taken():
    """free() called while the heap lock is taken by this very thread -- what a GC finalizer does when it runs in
    the middle of malloc()/free(): the block must be deferred to the pending list and nothing else may change"""
    h = H.Heap(4096)
    a, b = h.malloc(64), h.malloc(64)
    before = (dict(h._start_to_block), dict(h._stop_to_block), set(h._allocated_blocks), list(h._lengths))
    got = h._lock.acquire(False)
    try:
        if not got:
            return 'a fresh heap has its lock taken'
        h.free(a)
        after = (dict(h._start_to_block), dict(h._stop_to_block), set(h._allocated_blocks), list(h._lengths))
        if after != before or h._pending_free_blocks != [a]:
            return ('free() with the heap lock already taken by this thread changed the indexes (pending list %r): the lock '
                    'does not tell a reentrant call from a fresh one' % (h._pending_free_blocks,))
    finally:
        h._lock.release()
    c = h.malloc(64)          # drains the pending list first
    if h._pending_free_blocks or (a in h._allocated_blocks and c != a):
        return 'malloc() did not drain the pending list: %r' % (h._pending_free_blocks,)
    bad = invariant(h)
    return '; '.join(bad) if bad else None


def scen_after_fork():
    """the first malloc() in a child (the heap carries another pid): nothing inherited may be handed out -- the arenas
    are shared with the parent, whose own heap object hands out the same free blocks"""
    import os
    h = H.Heap(4096)
    blocks = [h.malloc(64) for _ in range(6)]
    for b in blocks[::2]:
        h.free(b)                       # free space inside the first arena
    old_arenas = list(h._arenas)
    old_free = {(id(a), s, e) for (a, s, e) in h._start_to_block.values()}
    h._lastpid = os.getpid() + 1        # what a child sees after fork: the parent's pid
    got = h.malloc(64)
    if any(got[0] is a for a in old_arenas):
        return ('first malloc() in a child handed out bytes %d..%d of an arena inherited from the parent (%s): parent and '
                'child now both own that block' % (got[1], got[2], 'one of its free blocks'
                                                   if any(id(got[0]) == i and s <= got[1] < e for (i, s, e) in old_free)
                                                   else 'inherited arena'))
    if h._lastpid != os.getpid():
        return 'after malloc() in a child the heap still carries the parent pid'
    if any(a in old_arenas for (a, s, e) in h._start_to_block.values()):
        return 'after malloc() in a child the free-block index still lists blocks of inherited arenas'
    return None


def scen_finalizer_during_flush():
    """a GC finalizer runs free() while the heap is flushing its deferred frees (the lock is held, so the block is
    deferred too): a block given back at that moment must end up freed or still pending -- never dropped"""
    h = H.Heap(4096)
    a, b, c = h.malloc(1024), h.malloc(1024), h.malloc(1024)
    h._lock.acquire()
    h.free(a)                           # deferred: the lock is taken
    h._lock.release()
    real_free, fired = h._free, []

    def free_with_finalizer(block):
        if not fired:
            fired.append(1)
            h.free(c)                   # what a finalizer triggered by an allocation inside the flush does
        return real_free(block)
    h._free = free_with_finalizer
    h.free(b)                           # takes the lock, flushes the pending list, frees b
    del h._free
    if c in h._allocated_blocks and c not in h._pending_free_blocks:
        return ('block %r was given back by a finalizer while the deferred frees were being flushed: it is neither freed '
                'nor pending any more (still counted as live; pending list %r) -- the storage is lost' % (
                    (c[1], c[2]), h._pending_free_blocks))
    h.malloc(8)                         # a later call drains whatever is still pending
    if c in h._allocated_blocks:
        return 'block %r given back during a flush is still live after the next malloc()' % ((c[1], c[2]),)
    bad = invariant(h)
    return '; '.join(bad) if bad else None


def main():
    data = json.load(open(sys.argv[1]))
    print('replay of %s / %s' % (data['function'], data['obligation']))
    r = scen_lock_taken() or scen_after_fork() or scen_finalizer_during_flush()
    if r:
        print('  violation on real code: ' + r)
        print('REPRODUCED on real code')
        sys.exit(1)
    alphabet = [('m', 1), ('m', 8), ('m', 24), ('m', 4000), ('m', 5000), ('f', 0), ('f', 1)]
    found = []
    runs = 0
    for n in range(1, 6):
        for ops in itertools.product(alphabet, repeat=n):
            runs += 1
            r = run(list(ops))
            if r:
                found.append(r)
                break
        if found:
            break
    rnd = random.Random(20260923)
    for _ in range(3000 if not found else 0):
        ops = [rnd.choice([('m', rnd.choice([1, 7, 8, 9, 16, 100, 1000, 4096, 6000])), ('f', rnd.randrange(8))])
               for _ in range(rnd.randrange(5, 40))]
        runs += 1
        r = run(ops, size=rnd.choice([4096, 8192]))
        if r:
            found.append(r)
            break
    print('  %d operation sequences run on the real heap' % runs)
    for b in found:
        print('  violation on real code: ' + b)
    print('REPRODUCED on real code' if found else 'not reproduced')
    sys.exit(1 if found else 0)


main()
