"""Replay for pool.TaskHandler.body: a send failure for job `sending` while
other jobs (among them the one whose id equals the TASK tag) are in the
cache.  The clause: the failure is attached to the job being sent and to no
other job."""
from _lib import replay_main
import billiard.pool as pool


def build(model, data):
    sending = None
    for k, v in sorted(model.items()):
        if k.startswith('ext:put_job'):
            sending = v
    if sending is None or sending == 2:
        sending = 5
    cache = {}
    jobs = {}
    for jid in (2, 0, sending):
        j = pool.ApplyResult.__new__(pool.ApplyResult)
        pool.ApplyResult.__init__(j, {}, None)
        j._cache = cache
        j._job = jid
        cache[jid] = j
        jobs[jid] = j
    calls = []
    for jid, j in jobs.items():
        orig = j._set
        j._set = (lambda jid, orig: (lambda i, obj: (calls.append(jid), orig(i, obj))[1]))(jid, orig)

    class Q:
        def __init__(self):
            self.items = [([(pool.TASK, (sending, None, len, ((),), {}))], None), None]

        def get(self):
            return self.items.pop(0)

    def put(task):
        if task is None:
            return
        raise ValueError('cannot pickle task')
    th = pool.TaskHandler.__new__(pool.TaskHandler)
    th.taskqueue, th.put, th.outqueue, th.pool, th.cache = Q(), put, Q(), [], cache
    th._state = pool.RUN
    th.tell_others = lambda: None

    def custom(outcome, result, exc):
        print('  job being sent: %r; _set called on jobs: %r; escaped: %r' % (sending, calls, exc))
        ob = data['obligation']
        if ob.startswith('noraise'):
            return outcome == 'raise' and type(exc).__name__ == ob.split('.', 1)[1]
        return calls != [sending]
    return {'call': th.body, 'env': {}, 'custom': custom}


def search():
    """bounded search (an auxiliary proof step of the feeder no longer goes through): histories of two task sequences
    -- an earlier job A (apply / imap / imap_unordered, still in the cache) and a lazy sequence B that raises at
    position 0, 1 or 2 -- fed to the real body(); the failure must land on B (its own position), never on A"""
    import json
    import sys
    bad = []
    for kind_a in ('apply', 'imap', 'imapu'):
        for fail_at in (0, 1, 2):
            cache = {}
            if kind_a == 'apply':
                a = pool.ApplyResult(cache, None)
                seq_a = [(pool.TASK, (a._job, None, len, ((),), {}))]
            else:
                a = (pool.IMapIterator if kind_a == 'imap' else pool.IMapUnorderedIterator)(cache)
                seq_a = [(pool.TASK, (a._job, k, len, ((),), {})) for k in range(2)]
            b = pool.IMapUnorderedIterator(cache)

            def seq_b():
                for k in range(3):
                    if k == fail_at:
                        raise KeyError('the caller\'s iterable failed at item %d' % k)
                    yield (pool.TASK, (b._job, k, len, ((),), {}))
            touched = []
            for name, h in (('A', a), ('B', b)):
                orig = h._set
                h._set = (lambda name, orig: (lambda i, obj: (touched.append((name, i)), orig(i, obj))[1]))(name, orig)
            items = [(seq_a, getattr(a, '_set_length', None)), (seq_b(), b._set_length), None]

            class Q:
                def get(self):
                    return items.pop(0)

                def put(self, x):
                    pass
            th = pool.TaskHandler.__new__(pool.TaskHandler)
            th.taskqueue, th.put, th.outqueue, th.pool, th.cache = Q(), (lambda t: None), Q(), [], cache
            th._state = pool.RUN
            th.tell_others = lambda: None
            try:
                th.body()
                esc = None
            except BaseException as e:       # noqa
                esc = e
            want = [] if fail_at == 0 else [('B', fail_at)]
            if esc is not None or touched != want or b._length != fail_at:
                bad.append('job A (%s) fed, then an imap sequence B whose iterable raises at item %d: results set by the '
                           'feeder %r (expected %r), B told length %r (expected %d), escaped %r' % (
                               kind_a, fail_at, touched, want, b._length, fail_at, esc))
    data = json.load(open(sys.argv[1]))
    print('replay of %s / %s (bounded search)' % (data['function'], data['obligation']))
    for x in bad[:4]:
        print('  violation on real code: ' + x)
    print('REPRODUCED on real code' if bad else 'not reproduced')
    sys.exit(1 if bad else 0)


import os
if os.environ.get('PYVC_SEARCH'):
    search()
replay_main(build)
