"""Replay for pool.TaskHandler.body: a send failure for job `sending` while
other jobs (among them the one whose id equals the TASK tag) are in the
cache.  The clause: the failure is attached to the job being sent and to no
other job."""
from _lib import replay_main
import billiard.pool as pool


def build(model, data):
    sending = None
    for k, v in sorted(model.items()):
        if k.startswith('ext:put_job'):
            sending = v
    if sending is None or sending == 2:
        sending = 5
    cache = {}
    jobs = {}
    for jid in (2, 0, sending):
        j = pool.ApplyResult.__new__(pool.ApplyResult)
        pool.ApplyResult.__init__(j, {}, None)
        j._cache = cache
        j._job = jid
        cache[jid] = j
        jobs[jid] = j
    calls = []
    for jid, j in jobs.items():
        orig = j._set
        j._set = (lambda jid, orig: (lambda i, obj: (calls.append(jid), orig(i, obj))[1]))(jid, orig)

    class Q:
        def __init__(self):
            self.items = [([(pool.TASK, (sending, None, len, ((),), {}))], None), None]

        def get(self):
            return self.items.pop(0)

    def put(task):
        if task is None:
            return
        raise ValueError('cannot pickle task')
    th = pool.TaskHandler.__new__(pool.TaskHandler)
    th.taskqueue, th.put, th.outqueue, th.pool, th.cache = Q(), put, Q(), [], cache
    th._state = pool.RUN
    th.tell_others = lambda: None

    def custom(outcome, result, exc):
        print('  job being sent: %r; _set called on jobs: %r; escaped: %r' % (sending, calls, exc))
        ob = data['obligation']
        if ob.startswith('noraise'):
            return outcome == 'raise' and type(exc).__name__ == ob.split('.', 1)[1]
        return calls != [sending]
    return {'call': th.body, 'env': {}, 'custom': custom}


replay_main(build)
