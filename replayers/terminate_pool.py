"""Replay / bounded cross-check for Pool._terminate_pool on the real code:
scripted helper threads, queues and worker handles that record every call in
one event list; all combinations of pool size 0..3, each worker alive or not at
the two liveness tests (and with / without a process object), with / without
a time-limit thread.

Checked on the event list:
  - the supervisor is told to terminate first, the feeder next, before any
    worker is signalled (no replacement is forked for a worker being killed);
  - the feeder and the result thread get exactly one sentinel each; the
    result thread is joined (stop) and never terminated -- it keeps draining;
  - every worker alive at the first test is signalled, nobody else is;
  - every worker still alive at the second test (with a process object) is
    joined, after the helper threads were joined;
  - both queues are closed at the end.
"""
import itertools
import json
import sys

import billiard.pool as pool


class Th:
    def __init__(self, name, log):
        self.name, self.log = name, log
        self._state = pool.RUN

    def terminate(self):
        self._state = pool.TERMINATE
        self.log.append(('terminate', self.name))

    def stop(self, timeout=None):
        self.log.append(('stop', self.name))

    def is_alive(self):
        return False


class Q:
    def __init__(self, name, log):
        self.name, self.log = name, log

    def put(self, x):
        self.log.append(('put', self.name, x))

    def close(self):
        self.log.append(('close', self.name))


class Wk:
    def __init__(self, pid, alive1, alive2, popen, log):
        self.pid, self.a1, self.a2, self.log = pid, alive1, alive2, log
        self._popen = object() if popen else None

    def _is_alive(self):
        return self.a1

    def is_alive(self):
        return self.a2

    def terminate(self):
        self.log.append(('TERM', self.pid))

    def join(self):
        self.log.append(('join', self.pid))


class P(pool.Pool):
    log = None

    @staticmethod
    def _help_stuff_finish(*a):
        P.log.append(('help',))


def run(workers, with_timeout):
    log = []
    P.log = log
    ws = [Wk(10 + i, a1, a2, po, log) for i, (a1, a2, po) in enumerate(workers)]
    tq, iq, oq = Q('task', log), Q('in', log), Q('out', log)
    sup, feeder, res = Th('supervisor', log), Th('feeder', log), Th('result', log)
    tim = Th('timeout', log) if with_timeout else None
    real = pool.stop_if_not_current
    pool.stop_if_not_current = lambda t, timeout=None: t.stop(timeout)
    try:
        P._terminate_pool(tq, iq, oq, ws, sup, feeder, res, {}, tim, (iq, feeder, ws))
    finally:
        pool.stop_if_not_current = real
    bad = []
    pos = {e: i for i, e in reversed(list(enumerate(log)))}

    def at(e):
        return pos.get(e, -1)
    if log[:2] != [('terminate', 'supervisor'), ('terminate', 'feeder')]:
        bad.append('first events: %r (the supervisor, then the feeder, must be told before anything else)' % (log[:3],))
    if log.count(('put', 'task', None)) != 1 or log.count(('put', 'out', None)) != 1 or ('help',) not in log:
        bad.append('sentinels: feeder %d, result thread %d, helped: %s' % (
            log.count(('put', 'task', None)), log.count(('put', 'out', None)), ('help',) in log))
    if ('terminate', 'result') in log or res._state != pool.RUN or at(('stop', 'result')) < 0 or \
            at(('stop', 'feeder')) < 0 or at(('stop', 'result')) < at(('stop', 'feeder')):
        bad.append('the result thread must be joined after the feeder and never terminated: %r' % (
            [e for e in log if e[-1] in ('result', 'feeder')],))
    if with_timeout and (('terminate', 'timeout') not in log or ('stop', 'timeout') not in log):
        bad.append('the time-limit thread was not told / joined')
    for wk in ws:
        termed = log.count(('TERM', wk.pid))
        if termed != (1 if wk.a1 else 0):
            bad.append('worker %d (alive: %s) was signalled %d times' % (wk.pid, wk.a1, termed))
        if termed and at(('TERM', wk.pid)) < at(('terminate', 'feeder')):
            bad.append('worker %d was signalled before the supervisor and the feeder were told' % wk.pid)
        joined = log.count(('join', wk.pid))
        if joined != (1 if (wk.a2 and wk._popen is not None) else 0):
            bad.append('worker %d (still alive: %s, process object: %s) was joined %d times' % (
                wk.pid, wk.a2, wk._popen is not None, joined))
        if joined and at(('join', wk.pid)) < at(('stop', 'result')):
            bad.append('worker %d was joined before the result thread' % wk.pid)
    if log[-2:] != [('close', 'in'), ('close', 'out')]:
        bad.append('last events: %r (both queues closed)' % (log[-2:],))
    return bad, log


def main():
    data = json.load(open(sys.argv[1]))
    print('replay of %s / %s' % (data['function'], data['obligation']))
    found = 0
    states = list(itertools.product((True, False), (True, False), (True, False)))
    for n in range(0, 3):
        for workers in itertools.product(states, repeat=n):
            for with_timeout in (False, True):
                bad, log = run(workers, with_timeout)
                if bad:
                    found += 1
                    if found <= 2:
                        print('  scenario: workers (alive at first test, at second test, has process) %r, time-limit thread %s' % (
                            workers, with_timeout))
                        for b in bad[:4]:
                            print('    violation on real code: ' + b)
    print('REPRODUCED on real code' if found else 'not reproduced')
    sys.exit(1 if found else 0)


main()
