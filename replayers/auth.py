"""Replay for C18 on the real code: deliver_challenge / answer_challenge /
Listener.accept / Client run against scripted peers and against each other
over an in-memory pair of message queues (two threads, lock-step).

Scenarios: every pair of keys from a small set (equal, one bit apart, prefix of
each other, long), a peer that answers with a wrong digest / garbage / the
right digest, verdict messages other than WELCOME, and keys that are not byte
strings.  The clauses of the property are evaluated on what the real code did.
"""
import hmac
import json
import queue
import sys
import threading

import billiard.connection as C
from billiard.connection import AuthenticationError

KEYS = [b'k', b'key', b'kez', b'key2', b'x' * 300]


class End:
    def __init__(self, inq, outq):
        self.inq, self.outq, self.sent = inq, outq, []

    def send_bytes(self, b):
        self.sent.append(bytes(b))
        self.outq.put(bytes(b))

    def recv_bytes(self, maxlength=None):
        b = self.inq.get(timeout=5)
        if maxlength is not None and len(b) > maxlength:
            raise OSError('bad message length')
        return b


def pair():
    a, b = queue.Queue(), queue.Queue()
    return End(a, b), End(b, a)


class Script:
    """a peer that sends prepared messages and records what it receives"""
    def __init__(self, replies):
        self.replies, self.sent = list(replies), []

    def send_bytes(self, b):
        self.sent.append(bytes(b))

    def recv_bytes(self, maxlength=None):
        r = self.replies.pop(0)
        r = r(self.sent) if callable(r) else r
        if maxlength is not None and len(r) > maxlength:
            raise OSError('bad message length')
        return r


def outcome(f, *a):
    try:
        f(*a)
        return 'ok'
    except AuthenticationError:
        return 'auth'
    except Exception as e:       # noqa
        return type(e).__name__


def scen_deliver():
    out = []
    key = b'secret'
    good = lambda sent: hmac.new(key, sent[0][len(C.CHALLENGE):], 'md5').digest()
    cases = [('correct digest', good, 'ok', C.WELCOME),
             ('digest under another key', lambda s: hmac.new(b'secreu', s[0][len(C.CHALLENGE):], 'md5').digest(), 'auth', C.FAILURE),
             ('empty response', b'', 'auth', C.FAILURE),
             ('the challenge echoed back', lambda s: s[0], 'auth', C.FAILURE),
             ('WELCOME as response', C.WELCOME, 'auth', C.FAILURE),
             ('correct digest with a trailing byte', lambda s: good(s) + b'\0', 'auth', C.FAILURE),
             ('oversized response', b'x' * 300, 'OSError', None)]
    challenges = set()
    for name, reply, want, verdict in cases:
        c = Script([reply])
        got = outcome(C.deliver_challenge, c, key)
        if got != want:
            out.append('deliver_challenge, peer sends %s: %s (expected %s)' % (name, got, want))
        if not c.sent or not c.sent[0].startswith(C.CHALLENGE) or len(c.sent[0]) != len(C.CHALLENGE) + 20:
            out.append('deliver_challenge: first message is %r' % (c.sent[:1],))
        elif c.sent[0] in challenges:
            out.append('deliver_challenge reused the challenge %r' % (c.sent[0],))
        else:
            challenges.add(c.sent[0])
        if verdict is not None and c.sent[1:] != [verdict]:
            out.append('deliver_challenge, peer sends %s: verdict sent %r' % (name, c.sent[1:]))
    return out


def scen_answer():
    out = []
    key = b'secret'
    ch = C.CHALLENGE + b'm' * 20
    for verdict, want in ((C.WELCOME, 'ok'), (C.FAILURE, 'auth'), (b'', 'auth'), (b'#WELCOME#x', 'auth'), (C.CHALLENGE, 'auth')):
        c = Script([ch, verdict])
        got = outcome(C.answer_challenge, c, key)
        if got != want:
            out.append('answer_challenge, verdict %r: %s (expected %s)' % (verdict, got, want))
        if c.sent != [hmac.new(key, b'm' * 20, 'md5').digest()]:
            out.append('answer_challenge answered %r' % (c.sent,))
    # challenges whose first bytes occur in the CHALLENGE marker itself (any byte value may come out of os.urandom)
    for lead in (b'#', b'C', b'NE', b'#CHALLENGE#', b'E' * 20):
        m = (lead + b'z' * 20)[:20]
        c = Script([C.CHALLENGE + m, C.WELCOME])
        got = outcome(C.answer_challenge, c, key)
        if got != 'ok' or c.sent != [hmac.new(key, m, 'md5').digest()]:
            out.append('answer_challenge, challenge %r: %s, answered with the digest of something else' % (m, got))
    c = Script([b'#CHALLENGX#' + b'm' * 20, C.WELCOME])
    if outcome(C.answer_challenge, c, key) != 'AssertionError' or c.sent:
        out.append('answer_challenge accepted a message that is not a challenge (sent %r)' % (c.sent,))
    return out


def run_pair(kL, kC, listener, client):
    a, b = pair()
    res = {}
    tL = threading.Thread(target=lambda: res.__setitem__('L', outcome(listener, a, kL)), daemon=True)
    tC = threading.Thread(target=lambda: res.__setitem__('C', outcome(client, b, kC)), daemon=True)
    tL.start(); tC.start(); tL.join(12); tC.join(12)
    return res.get('L', 'hung'), res.get('C', 'hung')


def via_accept(conn, key):
    lst = C.Listener.__new__(C.Listener)
    lst._authkey = key

    class L:
        def accept(self):
            return conn
    lst._listener = L()
    r = lst.accept()
    assert r is conn


def via_client(conn, key):
    saved = C.SocketClient, C.address_type
    C.SocketClient, C.address_type = (lambda address: conn), (lambda address: 'AF_UNIX')
    try:
        r = C.Client('addr', authkey=key)
        assert r is conn
    finally:
        C.SocketClient, C.address_type = saved


def scen_handshake():
    out = []
    for kL in KEYS:
        for kC in KEYS:
            L, Cl = run_pair(kL, kC, via_accept, via_client)
            if kL == kC and (L, Cl) != ('ok', 'ok'):
                out.append('equal keys %r: listener %s, client %s' % (kL[:8], L, Cl))
            if kL != kC and (L == 'ok' or Cl == 'ok'):
                out.append('keys %r / %r differ: listener %s, client %s' % (kL[:8], kC[:8], L, Cl))
    return out


def scen_rogue_listener():
    """a listener without the key: challenges, welcomes whatever digest comes back, then hangs up (or sends rubbish)
    instead of answering the client's challenge -- Client() must not hand out a connection"""
    out = []
    for ending in ('eof', 'rubbish', 'failure'):
        class Rogue(Script):
            def recv_bytes(self, maxlength=None):
                if not self.replies:
                    raise EOFError
                return Script.recv_bytes(self, maxlength)
        replies = [C.CHALLENGE + b'x' * 20, C.WELCOME]
        if ending == 'rubbish':
            replies.append(b'\0' * 16)
            replies.append(C.FAILURE)
        if ending == 'failure':
            replies.append(b'')
        res = outcome(via_client_any, Rogue(replies), b'secret')
        if res == 'ok':
            out.append('Client() handed out a connection to a listener that never proved it holds the key (%s after the welcome)' % ending)
    return out


def via_client_any(conn, key):
    saved = C.SocketClient, C.address_type
    C.SocketClient, C.address_type = (lambda address: conn), (lambda address: 'AF_UNIX')
    try:
        C.Client('addr', authkey=key)
    finally:
        C.SocketClient, C.address_type = saved


def scen_types():
    out = []
    for bad in ('text', 5, bytearray(b'k'), ['k']):
        try:
            C.Listener(authkey=bad).close()
            out.append('Listener(authkey=%r) was constructed' % (bad,))
        except TypeError:
            pass
        except Exception as e:       # noqa
            out.append('Listener(authkey=%r): %r' % (bad, e))
        saved = C.SocketClient, C.address_type
        C.SocketClient, C.address_type = (lambda address: Script([])), (lambda address: 'AF_UNIX')
        try:
            C.Client('addr', authkey=bad)
            out.append('Client(authkey=%r) returned a connection' % (bad,))
        except TypeError:
            pass
        except Exception as e:       # noqa
            out.append('Client(authkey=%r): %r' % (bad, e))
        finally:
            C.SocketClient, C.address_type = saved
    return out


def main():
    data = json.load(open(sys.argv[1]))
    fn = data['function']
    print('replay of %s / %s' % (fn, data['obligation']))
    bad = scen_deliver() + scen_answer() + scen_handshake() + scen_types() + scen_rogue_listener()
    for b in bad[:8]:
        print('  violation on real code: ' + b)
    print('REPRODUCED on real code' if bad else 'not reproduced')
    sys.exit(1 if bad else 0)


main()
