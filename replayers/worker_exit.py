"""Replay / bounded cross-check for pool.Worker._do_exit on the real code: a
Worker allocated with __new__, os._exit / time.sleep replaced by recorders
(nothing really exits), an exit callback and a result queue that record the
order of events; every combination of exit status (None / 0 / 1 / 155 / -15),
pending exception (yes / no), with / without callback, callback raising or
not, queue put failing or not.

Checked: the exit callback runs exactly once with (pid, status) *before* the
death notice is sent (the parent answers the notice with a TERM: a callback
after it would be cut short); the death notice carries (pid, status); the
process always ends in os._exit(status) unless the callback itself raised.
"""
import itertools
import json
import sys

import billiard.pool as pool


class Exited(BaseException):
    pass


def run(status, exc, with_cb, cb_raises, put_fails):
    log = []

    def fake_exit(code):
        log.append(('exit', code))
        raise Exited()
    real_exit, real_sleep = pool.os._exit, pool.time.sleep
    pool.os._exit, pool.time.sleep = fake_exit, (lambda s: log.append(('sleep', s)))
    try:
        w = pool.Worker.__new__(pool.Worker)

        class Q:
            def put(self, m):
                log.append(('put', m))
                if put_fails:
                    raise IOError('pipe closed')
        w.outq = Q()

        def cb(pid, code):
            log.append(('callback', pid, code))
            if cb_raises:
                raise RuntimeError('exit callback failed')
        w.on_exit = cb if with_cb else None
        try:
            w._do_exit(4242, status, exc)
            log.append(('returned',))
        except Exited:
            pass
        except BaseException as e:       # noqa
            log.append(('raised', type(e).__name__))
    finally:
        pool.os._exit, pool.time.sleep = real_exit, real_sleep
    want = status if status is not None else (1 if exc else 0)
    bad = []
    cbs = [e for e in log if e[0] == 'callback']
    puts = [e for e in log if e[0] == 'put']
    if with_cb and cbs != [('callback', 4242, want)]:
        bad.append('exit callback calls: %r (expected one, with status %r)' % (cbs, want))
    if with_cb and cb_raises:
        return bad, log                 # the callback's exception propagates: nothing more is promised
    if with_cb and puts and log.index(cbs[0]) > log.index(puts[0]):
        bad.append('the death notice was sent before the exit callback ran: %r' % (log,))
    if puts != [('put', (pool.DEATH, (4242, want)))]:
        bad.append('death notices sent: %r' % (puts,))
    if log[-1] != ('exit', want):
        bad.append('the worker did not end in os._exit(%r): %r' % (want, log[-3:]))
    return bad, log


def run_call(outcome):
    """Worker.__call__ on the real code with workloop / after_fork / _do_exit replaced by recorders: which status and
    exception reach _do_exit"""
    import billiard.common as common
    log = []
    real_sys_exit = sys.exit

    class W(pool.Worker):
        def _make_child_methods(self):
            log.append(('setup', 1))

        def after_fork(self):
            log.append(('setup', 2))

        def on_loop_start(self, pid):
            log.append(('setup', 3))

        def workloop(self, pid=None):
            if outcome == 'returns':
                return 155
            if outcome == 'signal':
                # what common._shutdown_cleanup does when the termination signal arrives inside the loop
                sys.exit(-241)
            if outcome == 'error':
                raise KeyError('loop failed')
            raise KeyboardInterrupt()

        def _do_exit(self, pid, exitcode, exc=None):
            log.append(('do_exit', exitcode, type(exc).__name__ if exc is not None else None))
            raise Exited()
    w = W.__new__(W)
    real_error = pool.error
    pool.error = lambda *a, **k: None
    try:
        try:
            w()
            log.append(('returned',))
        except Exited:
            pass
        except BaseException as e:       # noqa
            log.append(('raised', type(e).__name__))
    finally:
        sys.exit = real_sys_exit
        pool.error = real_error
    want = {'returns': (155, None), 'signal': (-241, None), 'error': (None, 'KeyError'), 'interrupt': (None, None)}[outcome]
    exits = [e for e in log if e[0] == 'do_exit']
    bad = []
    if [e[1] for e in log if e[0] == 'setup'] != [1, 2, 3]:
        bad.append('set-up steps before the loop: %r' % (log,))
    if not exits or exits[0][1:] != want:
        bad.append('the worker loop %s: _do_exit got %r (expected status %r, exception %r)' % (
            outcome, exits[:1], want[0], want[1]))
    return bad


def main():
    data = json.load(open(sys.argv[1]))
    print('replay of %s / %s' % (data['function'], data['obligation']))
    found = 0
    for outcome in ('returns', 'signal', 'error', 'interrupt'):
        bad = run_call(outcome)
        if bad:
            found += 1
            for b in bad:
                print('  violation on real code: ' + b)
    for status, exc, with_cb, cb_raises, put_fails in itertools.product(
            (None, 0, 1, 155, -15), (None, ValueError('x')), (True, False), (False, True), (False, True)):
        bad, log = run(status, exc, with_cb, cb_raises, put_fails)
        if bad:
            found += 1
            if found <= 2:
                print('  scenario: status %r, pending exception %r, callback %s%s, put %s' % (
                    status, exc, with_cb, ' (raises)' if cb_raises else '', 'fails' if put_fails else 'ok'))
                for b in bad:
                    print('    violation on real code: ' + b)
    print('REPRODUCED on real code' if found else 'not reproduced')
    sys.exit(1 if found else 0)


main()
