"""Replay for pool.Worker.workloop on the real code: a real Worker with
scripted receive / put callables.  The termination signal is simulated the
way billiard's own handler (common._shutdown_cleanup) acts: it sets
common._should_have_exited[0] and raises SystemExit inside the running task.

Obligations replayed: protocol.* (what the worker put / ran / took after what).
"""
import json
import sys

import billiard.common as common
import billiard.pool as pool


def run(scenario):
    """-> (events, outcome) ; events: ('take',) ('ack', job) ('run', job) ('ready', job, ok) ..."""
    events = []
    common._should_have_exited[0] = False
    tasks = list(scenario['tasks'])

    def task_fn(kind):
        def f():
            events.append(('run', kind))
            if kind == 'term':
                events.append(('TERM',))
                common._should_have_exited[0] = True
                raise SystemExit(-241)
            if kind == 'raise':
                raise ValueError('boom')
            return 1
        return f

    def wait_for_job():
        events.append(('take',))
        if not tasks:
            raise SystemExit(0)
        job, kind = tasks.pop(0)
        return (pool.TASK, (job, None, task_fn(kind), (), {}))

    class Q:
        def put(self, msg):
            tag, body = msg
            events.append(('ack' if tag == pool.ACK else 'ready', body[0]))

    w = pool.Worker.__new__(pool.Worker)
    w.outq, w.inq, w.synq = Q(), None, None
    w.inqW_fd = w.synqW_fd = None
    w.maxtasks = scenario.get('maxtasks')
    w.max_memory_per_child = None
    w.on_ready_counter = None
    w.wait_for_job, w.wait_for_syn = wait_for_job, None
    try:
        rc = w.workloop(pid=4242)
        outcome = ('return', rc)
    except BaseException as e:       # noqa
        outcome = ('raise', repr(e))
    finally:
        common._should_have_exited[0] = False
    return events, outcome


def main():
    data = json.load(open(sys.argv[1]))
    ob = data['obligation']
    print('replay of %s / %s' % (data['function'], ob))
    scenario = {'tasks': [(1, 'term'), (2, 'ok')]}
    events, outcome = run(scenario)
    print('  scenario: job 1 is interrupted by the termination signal, job 2 is queued behind it')
    print('  events: %s' % (events,))
    print('  outcome: %s' % (outcome,))
    i = events.index(('TERM',)) if ('TERM',) in events else None
    after = events[i + 1:] if i is not None else []
    bad = None
    if any(e[0] == 'ready' for e in after) or any(e[0] == 'ack' for e in after):
        bad = 'the worker went on sending messages after the termination signal: %s' % (after,)
    if any(e[0] == 'take' for e in after):
        bad = (bad + '; ' if bad else '') + 'it took a further job after the termination signal'
    if 'termination' in ob or 'exit_flag' in ob or ob.startswith('loop0.preserve'):
        if bad:
            print('  violation on real code: ' + bad)
            print('REPRODUCED on real code')
            sys.exit(1)
    print('not reproduced')
    sys.exit(0)


main()
