"""Replay / bounded search for pool.Worker.workloop on the real code: a real
Worker object with scripted receive / put / syn callables, run in-process.

The termination signal is simulated the way billiard's own handler
(common._shutdown_cleanup) acts: it sets common._should_have_exited[0] and
raises SystemExit at the point of delivery (inside the task, or inside the
send of the result).

Search space (bounded; this is the replay side, the proof is pyvc's): every
sequence of up to 3 jobs, each one of
    ok           runs and returns
    raise        the task raises ValueError
    unpicklable  the first put of its result raises (result cannot be encoded)
    refused      the parent answers the ACK with NACK (job cancelled)
    term         the termination signal arrives inside the task
    term_send    the termination signal arrives while the result is being sent
with quota None / 1 / 2 / 3, with and without the ACK handshake.  For every
run the clauses of the worker protocol (C03), of the quota (C09) and of prompt
termination (C05/C08) are evaluated on the recorded events.
"""
import itertools
import pickle
import json
import sys

import billiard.common as common
import billiard.pool as pool

UNPICKLABLE = (ValueError, RuntimeError, TypeError, AttributeError, NotImplementedError, pickle.PicklingError)
KINDS = ('ok', 'raise', 'unpicklable', 'refused', 'term', 'term_send')


def run(kinds, maxtasks, handshake):
    """-> (events, outcome, ensured)"""
    events = []
    ensured = []
    common._should_have_exited[0] = False
    tasks = [(100 + n, k) for n, k in enumerate(kinds)]
    kind_of = dict(tasks)

    def signal():
        events.append(('TERM',))
        common._should_have_exited[0] = True
        raise SystemExit(-241)

    def task_fn(job, kind):
        def f():
            events.append(('run', job))
            if kind == 'term':
                signal()
            if kind == 'raise':
                raise ValueError('boom')
            return 1
        return f

    clock = [1000.0]
    arrived = {}

    def wait_for_job():
        events.append(('take',))
        clock[0] += 7.0                   # the worker was idle for a while before something arrived
        if not tasks:
            raise SystemExit(0)           # the queue is closed: the worker is told to stop
        job, kind = tasks.pop(0)
        arrived[job] = clock[0]
        return (pool.TASK, (job, None, task_fn(job, kind), (), {}))

    def wait_for_syn():
        job = [e[1] for e in events if e[0] == 'ack'][-1]
        events.append(('syn', job))
        return (pool.NACK if kind_of[job] == 'refused' else pool.ACK, (job,))

    first_ready = set()

    class Q:
        def put(self, msg):
            tag, body = msg
            job = body[0]
            if tag == pool.ACK:
                events.append(('ack', job))
                if body[2] < arrived.get(job, 0) or body[3] != 4242:
                    events.append(('bad_ack', job, body[2], arrived.get(job), body[3]))
                return
            if job not in first_ready:
                first_ready.add(job)
                if kind_of[job] == 'unpicklable':
                    events.append(('put_failed', job))
                    # serialisation fails with whatever the object's reduce raises: not only pickle's own errors
                    raise UNPICKLABLE[job % len(UNPICKLABLE)]('cannot pickle result')
                if kind_of[job] == 'term_send':
                    signal()
            events.append(('ready', job, body[2][0]))
            if job in first_ready and kind_of[job] == 'unpicklable':
                ok, rec = body[2]
                if ok or getattr(rec, 'type', None) is not pool.MaybeEncodingError:
                    events.append(('not_an_encoding_error', job))

    w = pool.Worker.__new__(pool.Worker)
    w.outq, w.inq, w.synq = Q(), None, (object() if handshake else None)
    w.inqW_fd = w.synqW_fd = None
    w.maxtasks = maxtasks
    w.max_memory_per_child = None
    w.on_ready_counter = None
    w.wait_for_job, w.wait_for_syn = wait_for_job, (wait_for_syn if handshake else None)
    w._ensure_messages_consumed = lambda completed: ensured.append(completed)
    try:
        rc = w.workloop(pid=4242, now=lambda: clock[0])
        outcome = ('return', rc)
    except BaseException as e:       # noqa
        outcome = ('raise', type(e).__name__)
    finally:
        common._should_have_exited[0] = False
    return events, outcome, ensured


def judge(kinds, maxtasks, handshake, events, outcome, ensured):
    bad = []
    ran = [e[1] for e in events if e[0] == 'run']
    acks = [e[1] for e in events if e[0] == 'ack']
    readies = [e[1] for e in events if e[0] == 'ready']
    kind_of = {100 + n: k for n, k in enumerate(kinds)}
    # --- termination: nothing after the signal
    if ('TERM',) in events:
        after = events[events.index(('TERM',)) + 1:]
        if any(e[0] in ('ready', 'ack', 'take', 'run') for e in after):
            bad.append('after the termination signal the worker still did %r' % (after,))
        if outcome[0] != 'raise':
            bad.append('the termination signal did not end the loop: %r' % (outcome,))
    # --- protocol: ack, then (if not refused) run once, then exactly one ready
    for job in acks:
        refused = handshake and kind_of[job] == 'refused'
        if refused and job in ran:
            bad.append('job %d was refused by the parent but was run' % job)
        if ran.count(job) > 1 or readies.count(job) > 1:
            bad.append('job %d was run %d times and answered %d times' % (job, ran.count(job), readies.count(job)))
        interrupted = kind_of[job] in ('term', 'term_send')
        if job in ran and not interrupted and readies.count(job) != 1:
            bad.append('job %d was run but %d results were sent' % (job, readies.count(job)))
        if job in ran and events.index(('ack', job)) > events.index(('run', job)):
            bad.append('job %d was run before it was acknowledged' % job)
    for e in events:
        if e[0] == 'bad_ack':
            bad.append('the ACK of job %d carries acceptance time %r and pid %r; the job reached the worker at %r (pid 4242)' % e[1:])
        if e[0] == 'not_an_encoding_error':
            bad.append('job %d: the result could not be serialised, but what was sent instead is not an encoding-error failure' % e[1])
    if outcome[0] == 'raise' and outcome[1] != 'SystemExit':
        bad.append('the worker loop was left by %s (an unserialisable result must not kill the worker)' % outcome[1])
    for job in ran:
        if job not in acks:
            bad.append('job %d was run without an ACK' % job)
    # --- quota
    if maxtasks is not None:
        if len(ran) > maxtasks:
            bad.append('executed %d jobs with a quota of %d' % (len(ran), maxtasks))
        if outcome == ('return', pool.EX_RECYCLE) and len(readies) != maxtasks:
            bad.append('left with the recycle status after %d results, quota %d' % (len(readies), maxtasks))
        wanted = [k for k in kinds if k != 'refused' or not handshake]
        if ('TERM',) not in events and len(wanted) >= maxtasks and outcome != ('return', pool.EX_RECYCLE):
            bad.append('quota %d reached but the worker did not leave with the recycle status: %r' % (maxtasks, outcome))
    elif outcome[0] == 'return':
        bad.append('a worker without quota left the loop normally: %r' % (outcome,))
    # --- results consumed before exit: checked once, with the number of results sent
    if len(ensured) != 1:
        bad.append('_ensure_messages_consumed called %d times' % len(ensured))
    elif ensured[0] != len(readies):
        bad.append('sent %d READY messages but waits for %d to be consumed before exiting' % (len(readies), ensured[0]))
    return bad


def main():
    data = json.load(open(sys.argv[1]))
    print('replay of %s / %s' % (data['function'], data['obligation']))
    found = 0
    runs = 0
    for n in range(0, 4):
        for kinds in itertools.product(KINDS, repeat=n):
            for maxtasks in (None, 1, 2, 3):
                for handshake in (False, True):
                    if not handshake and 'refused' in kinds:
                        continue
                    runs += 1
                    events, outcome, ensured = run(kinds, maxtasks, handshake)
                    bad = judge(kinds, maxtasks, handshake, events, outcome, ensured)
                    if bad:
                        found += 1
                        if found <= 3:
                            print('  scenario: jobs=%r quota=%r handshake=%r' % (kinds, maxtasks, handshake))
                            print('    events: %r -> %r' % (events, outcome))
                            for b in bad:
                                print('    violation on real code: ' + b)
    print('  %d scenarios run on the real code, %d violate the worker contract' % (runs, found))
    print('REPRODUCED on real code' if found else 'not reproduced')
    sys.exit(1 if found else 0)


main()
