"""Replay / bounded cross-check for C15 on the real code (one process): shared
RawValue / RawArray objects of several type codes and lengths are created,
filled with 0xFF bytes, dropped (their storage goes back to the heap) and
created again -- a new object must read zero / its initialiser whatever the
recycled memory held; two live objects never share storage (writing one leaves
every other one unchanged); RawArray(initialiser) holds exactly the initialiser.
"""
import ctypes
import gc
import json
import sys

import billiard.sharedctypes as SC


def raw_bytes(obj):
    return bytes((ctypes.c_ubyte * ctypes.sizeof(obj)).from_address(ctypes.addressof(obj)))


def dirty(obj):
    ctypes.memset(ctypes.addressof(obj), 0xFF, ctypes.sizeof(obj))


def scen():
    bad = []
    codes = ['b', 'h', 'i', 'l', 'd', ctypes.c_ulonglong]
    # recycle: create, dirty, drop, create again
    for rounds in range(3):
        objs = [SC.RawValue(c) for c in codes] + [SC.RawArray(c, n) for c in codes for n in (0, 1, 3, 17)]
        for o in objs:
            if any(raw_bytes(o)):
                bad.append('a new %s is not zero-filled: %r' % (type(o).__name__, raw_bytes(o)[:16]))
                break
        for o in objs:
            dirty(o)
        del objs, o
        gc.collect()
    # an initialiser that does not cover every byte (a structure created with fewer arguments than fields), on
    # recycled storage: the rest must still read zero
    class Point(ctypes.Structure):
        _fields_ = [('x', ctypes.c_int), ('y', ctypes.c_int), ('z', ctypes.c_double)]
    for rounds in range(3):
        olds = [SC.RawValue(Point) for _ in range(8)]
        for o in olds:
            dirty(o)
        del olds, o
        gc.collect()
        news = [SC.RawValue(Point, 7) for _ in range(8)] + [SC.Value(Point, 3, 4, lock=False) for _ in range(4)]
        for o in news:
            if (o.x, o.y, o.z) not in ((7, 0, 0.0), (3, 4, 0.0)):
                bad.append('a new shared Point created with a partial initialiser holds %r on recycled storage '
                           '(expected zero in the fields not given)' % ((o.x, o.y, o.z),))
                break
        for o in news:
            dirty(o)
        del news, o
        gc.collect()
    # initial values
    v = SC.RawValue('i', 42)
    if v.value != 42:
        bad.append("RawValue('i', 42) holds %r" % v.value)
    for init in ([], [7], [1, 2, 3], list(range(40))):
        a = SC.RawArray('i', init)
        if list(a) != init or len(a) != len(init):
            bad.append("RawArray('i', %r) holds %r" % (init, list(a)))
    # isolation
    live = [SC.RawArray('B', 8) for _ in range(20)] + [SC.RawValue('d') for _ in range(5)]
    for k, o in enumerate(live):
        dirty(o)
        for j, other in enumerate(live):
            if j > k and any(raw_bytes(other)):
                bad.append('writing object %d changed object %d: they share storage' % (k, j))
                return bad
    # the block goes back to the heap when the object is dropped
    from billiard.heap import BufferWrapper
    heap = BufferWrapper._heap
    before = len(heap._allocated_blocks)
    tmp = SC.RawArray('B', 100)
    during = len(heap._allocated_blocks)
    del tmp
    gc.collect()
    SC.RawValue('b')          # drains a possibly pending free
    after = len(heap._allocated_blocks)
    if during != before + 1 or after > before + 1:
        bad.append('live blocks before/during/after a temporary object: %d/%d/%d' % (before, during, after))
    return bad


def scen_locks():
    """the synchronized wrappers: the lock given is the lock used, every access to the shared object happens with it
    held, and it is free afterwards"""
    import billiard
    bad = []
    ctx = billiard.get_context()
    lock = ctx.RLock()
    v = SC.Value('i', 5, lock=lock)
    if v.get_lock() is not lock:
        bad.append('Value(..., lock=L).get_lock() is not L')
    seen = []

    class Spy:
        def __init__(self, real, lk):
            object.__setattr__(self, '_r', real)
            object.__setattr__(self, '_l', lk)

        def __getattr__(self, n):
            seen.append(('get', n, self._l._semlock._is_mine()))
            return getattr(self._r, n)

        def __setattr__(self, n, x):
            seen.append(('set', n, self._l._semlock._is_mine()))
            setattr(self._r, n, x)

        def __getitem__(self, i):
            seen.append(('getitem', i, self._l._semlock._is_mine()))
            return self._r[i]

        def __setitem__(self, i, x):
            seen.append(('setitem', i, self._l._semlock._is_mine()))
            self._r[i] = x

        def __len__(self):
            return len(self._r)
    v._obj = Spy(v._obj, lock)
    v.value = 7
    got = v.value
    a = SC.Array('i', [1, 2, 3], lock=lock)
    a._obj = Spy(a._obj, lock)
    a[1] = 20
    got_a = a[1]
    s = SC.Array('c', 4, lock=lock)
    s._obj = Spy(s._obj, lock)
    s.value = b'ab'
    got_s = (s.value, s.raw[:2])
    if (got, got_a, got_s) != (7, 20, (b'ab', b'ab')):
        bad.append('values read back through the wrappers: %r' % ((got, got_a, got_s),))
    loose = [e for e in seen if not e[2]]
    if loose or len(seen) < 7:
        bad.append('accesses to the shared object and whether the wrapper lock was held: %r' % (seen,))
    if lock._semlock._is_mine() or lock._semlock._count() != 0:
        bad.append('the wrapper lock is still held after the accessors returned')
    for what, obj in (('Value i', SC.RawValue('i')), ("Array i", SC.RawArray('i', 3)), ("Array c", SC.RawArray('c', 4)),
                      ("Array c (bytes)", SC.RawArray('c', b'hello'))):
        wrapped = SC.synchronized(obj, lock)
        if wrapped.get_lock() is not lock:
            bad.append('synchronized(%s, lock=L): the wrapper uses another lock than L -- two processes that hold "the" lock '
                       'of this object no longer exclude each other' % what)
        if wrapped.get_obj() is not obj:
            bad.append('synchronized(%s): wraps another object' % what)
    w = SC.Value('d', 1.5)
    if w.get_lock() is None or w.acquire != w.get_lock().acquire or w.release != w.get_lock().release:
        bad.append('Value without a lock: acquire/release are not bound to get_lock()')
    return bad


def main():
    data = json.load(open(sys.argv[1]))
    print('replay of %s / %s' % (data['function'], data['obligation']))
    bad = scen() + scen_locks()
    for b in bad[:8]:
        print('  violation on real code: ' + b)
    print('REPRODUCED on real code' if bad else 'not reproduced')
    sys.exit(1 if bad else 0)


main()
