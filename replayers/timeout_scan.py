"""Replay / bounded search for pool.TimeoutHandler.handle_timeouts on the real
code: a real TimeoutHandler over a cache of real handles, a scripted clock,
on_hard_timeout / on_soft_timeout replaced by recorders (they are under
contract on their own).

Model replay (escaping exception): a cache holding one handle of the kind the
obligation was generated for (apply / map / imap), pool default limits set.
Search mode: all combinations of per-job / pool soft and hard limits from a
small set, one accepted job, scans at increasing clock values; checks
  - a job past its hard limit is failed in the scan that sees it (C05),
  - no hard timeout before the limit, no soft timeout before the limit,
  - the soft limit is signalled at most once (C06).
Bounded, and reported as such."""
import itertools
import json
import os
import sys

import billiard.pool as pool


class Clock:
    def __init__(self):
        self.t = 100.0

    def __call__(self):
        return self.t


def make_handle(kind, cache, acc=None, timeout=None, soft=None):
    if kind == 'map':
        return pool.MapResult(cache, 2, 4, None, None)
    if kind == 'imap':
        return pool.IMapIterator(cache)
    if kind == 'imapu':
        return pool.IMapUnorderedIterator(cache)
    r = pool.ApplyResult(cache, None, timeout=timeout, soft_timeout=soft)
    if acc is not None:
        r._ack(None, acc, 4242, None)
    return r


def scan_setup(t_soft, t_hard, cache):
    th = pool.TimeoutHandler.__new__(pool.TimeoutHandler)
    th.processes, th.cache, th.t_soft, th.t_hard = [], cache, t_soft, t_hard
    th._state = pool.RUN
    th._it = None
    log = {'hard': [], 'soft': []}

    def on_hard(job):
        log['hard'].append(job._job)
        job._set(job._job, (False, 'TimeLimitExceeded'))

    def on_soft(job):
        log['soft'].append(job._job)
    th.on_hard_timeout, th.on_soft_timeout = on_hard, on_soft
    return th, log


def replay_kind(kind):
    clock = Clock()
    pool.monotonic = clock
    cache = {}
    h = make_handle(kind, cache)
    if kind == 'map':
        h._ack(0, 50.0, 4242)
    th, log = scan_setup(1.0, 20.0, cache)
    try:
        next(th.handle_timeouts())
    except StopIteration:
        return None
    except BaseException as e:
        return '%s handle in the cache, pool limits soft=1.0 hard=20.0: the scan raises %r ' \
               '(in the TimeoutHandler thread this ends the whole process: PoolThread.run -> os._exit(1))' % (kind, e)
    return None


def search():
    vals = [None, 2.0, 5.0]
    for pj_soft, pj_hard, t_soft, t_hard in itertools.product(vals, repeat=4):
        soft = pj_soft if pj_soft is not None else t_soft
        hard = pj_hard if pj_hard is not None else t_hard
        clock = Clock()
        pool.monotonic = clock
        cache = {}
        job = make_handle('apply', cache, acc=100.0, timeout=pj_hard, soft=pj_soft)
        th, log = scan_setup(t_soft, t_hard, cache)
        it = th.handle_timeouts()
        for t in (100.5, 101.0, 102.5, 103.0, 104.0, 105.5, 106.0, 110.0):
            clock.t = t
            before_h, before_s = len(log['hard']), len(log['soft'])
            was_ready = job.ready()
            next(it)
            conf = {'per_job_soft': pj_soft, 'per_job_hard': pj_hard, 'pool_soft': t_soft, 'pool_hard': t_hard,
                    'accepted_at': 100.0, 'scan_at': t}
            if len(log['hard']) > before_h and not (hard and t >= 100.0 + hard):
                return conf, 'hard timeout before the hard limit expired'
            if len(log['soft']) > before_s and not (soft and t >= 100.0 + soft):
                return conf, 'soft timeout before the soft limit expired'
            if hard and t >= 100.0 + hard and not was_ready and job._job in cache and len(log['hard']) == before_h:
                return conf, 'job past its hard limit was not failed by the scan that saw it'
            if len(log['soft']) > 1:
                return conf, 'soft limit signalled %d times for one job' % len(log['soft'])
            if job._job not in cache:
                break
    return None, None


def main():
    data = json.load(open(sys.argv[1]))
    print('replay of %s / %s' % (data['function'], data['obligation']))
    if os.environ.get('PYVC_SEARCH'):
        found, bad = search()
        if found:
            print('  bounded search (limits from {None, 2, 5} per job and pool, scans at 8 instants): FAILING INPUT')
            print('  input: %s' % json.dumps(found))
            print('  violation on real code: %s' % bad)
            print('REPRODUCED on real code')
            data['failing_input_found_by_bounded_search'] = found
            data['violation'] = bad
            json.dump(data, open(sys.argv[1], 'w'), indent=1, default=str)
            sys.exit(1)
        print('  bounded search found no failing input\nnot reproduced')
        sys.exit(0)
    kind = data['function'].split('@')[1] if '@' in data['function'] else 'apply'
    if data['obligation'].startswith('noraise'):
        bad = replay_kind(kind)
        if bad:
            print('  ' + bad)
            print('REPRODUCED on real code')
            sys.exit(1)
    print('not reproduced')
    sys.exit(0)


main()
