"""Replay / bounded search for pool.TimeoutHandler.handle_timeouts on the real
code: a real TimeoutHandler over a cache of real handles, a scripted clock,
on_hard_timeout / on_soft_timeout replaced by recorders (they are under
contract on their own).

Model replay (escaping exception): a cache holding one handle of the kind the
obligation was generated for (apply / map / imap), pool default limits set.
Search mode: all combinations of per-job / pool soft and hard limits from a
small set, one accepted job, scans at increasing clock values; checks
  - a job past its hard limit is failed in the scan that sees it (C05),
  - no hard timeout before the limit, no soft timeout before the limit,
  - the soft limit is signalled at most once (C06).
Bounded, and reported as such."""
import itertools
import json
import os
import sys

import billiard.pool as pool


class Clock:
    def __init__(self):
        self.t = 100.0

    def __call__(self):
        return self.t


def make_handle(kind, cache, acc=None, timeout=None, soft=None):
    if kind == 'map':
        return pool.MapResult(cache, 2, 4, None, None)
    if kind == 'imap':
        return pool.IMapIterator(cache)
    if kind == 'imapu':
        return pool.IMapUnorderedIterator(cache)
    r = pool.ApplyResult(cache, None, timeout=timeout, soft_timeout=soft)
    if acc is not None:
        r._ack(None, acc, 4242, None)
    return r


def scan_setup(t_soft, t_hard, cache):
    th = pool.TimeoutHandler.__new__(pool.TimeoutHandler)
    th.processes, th.cache, th.t_soft, th.t_hard = [], cache, t_soft, t_hard
    th._state = pool.RUN
    th._it = None
    log = {'hard': [], 'soft': []}

    def on_hard(job):
        log['hard'].append(job._job)
        job._set(job._job, (False, 'TimeLimitExceeded'))

    def on_soft(job):
        log['soft'].append(job._job)
    th.on_hard_timeout, th.on_soft_timeout = on_hard, on_soft
    return th, log


def replay_kind(kind):
    clock = Clock()
    pool.monotonic = clock
    cache = {}
    h = make_handle(kind, cache)
    if kind == 'map':
        h._ack(0, 50.0, 4242)
    th, log = scan_setup(1.0, 20.0, cache)
    try:
        next(th.handle_timeouts())
    except StopIteration:
        return None
    except BaseException as e:
        return '%s handle in the cache, pool limits soft=1.0 hard=20.0: the scan raises %r ' \
               '(in the TimeoutHandler thread this ends the whole process: PoolThread.run -> os._exit(1))' % (kind, e)
    return None


def search():
    """one or two accepted jobs in the cache, each with its own per-job limits (or none), pool defaults, 8 scans"""
    vals = [None, 2.0, 5.0]
    for t_soft, t_hard in itertools.product(vals, repeat=2):
        for limits in ([(a, b)] for a in vals for b in vals):
            r = search_one(t_soft, t_hard, limits)
            if r[0]:
                return r
    for t_soft, t_hard in itertools.product(vals, repeat=2):
        for l1 in itertools.product(vals, repeat=2):
            for l2 in itertools.product(vals, repeat=2):
                r = search_one(t_soft, t_hard, [l1, l2])
                if r[0]:
                    return r
    return None, None


def search_one(t_soft, t_hard, limits):
    clock = Clock()
    pool.monotonic = clock
    cache = {}
    jobs = [make_handle('apply', cache, acc=100.0, timeout=pj_hard, soft=pj_soft) for pj_soft, pj_hard in limits]
    eff = [((ps if ps is not None else t_soft), (ph if ph is not None else t_hard)) for ps, ph in limits]
    th, log = scan_setup(t_soft, t_hard, cache)
    it = th.handle_timeouts()
    for t in (100.5, 101.0, 102.5, 103.0, 104.0, 105.5, 106.0, 110.0):
        clock.t = t
        before = (list(log['hard']), list(log['soft']))
        was_ready = [j.ready() for j in jobs]
        in_cache = [j._job in cache for j in jobs]
        next(it)
        for n, job in enumerate(jobs):
            soft, hard = eff[n]
            conf = {'jobs': [{'per_job_soft': a, 'per_job_hard': b} for a, b in limits], 'pool_soft': t_soft,
                    'pool_hard': t_hard, 'accepted_at': 100.0, 'scan_at': t, 'job': n}
            new_h = log['hard'].count(job._job) - before[0].count(job._job)
            new_s = log['soft'].count(job._job) - before[1].count(job._job)
            if new_h and not (hard and t >= 100.0 + hard):
                return conf, 'hard timeout before the hard limit of this job expired'
            if new_s and not (soft and t >= 100.0 + soft):
                return conf, 'soft timeout for a job whose soft limit has not expired (or that has none)'
            if hard and t >= 100.0 + hard and not was_ready[n] and in_cache[n] and not new_h:
                return conf, 'job past its hard limit was not failed by the scan that saw it'
            if soft and t >= 100.0 + soft and not was_ready[n] and in_cache[n] and not new_h and \
                    log['soft'].count(job._job) == 0 and not (hard and t >= 100.0 + hard):
                return conf, 'job past its soft limit was not signalled by the scan that saw it'
            if log['soft'].count(job._job) > 1:
                return conf, 'soft limit signalled %d times for one job' % log['soft'].count(job._job)
    return None, None


def main():
    data = json.load(open(sys.argv[1]))
    print('replay of %s / %s' % (data['function'], data['obligation']))
    if os.environ.get('PYVC_SEARCH'):
        found, bad = search()
        if found:
            print('  bounded search (limits from {None, 2, 5} per job and pool, scans at 8 instants): FAILING INPUT')
            print('  input: %s' % json.dumps(found))
            print('  violation on real code: %s' % bad)
            print('REPRODUCED on real code')
            data['failing_input_found_by_bounded_search'] = found
            data['violation'] = bad
            json.dump(data, open(sys.argv[1], 'w'), indent=1, default=str)
            sys.exit(1)
        print('  bounded search found no failing input\nnot reproduced')
        sys.exit(0)
    kind = data['function'].split('@')[1] if '@' in data['function'] else 'apply'
    if data['obligation'].startswith('noraise'):
        bad = replay_kind(kind)
        if bad:
            print('  ' + bad)
            print('REPRODUCED on real code')
            sys.exit(1)
    print('not reproduced')
    sys.exit(0)


main()
