"""Replay for the C07 functions on the real code: Pool.close, Pool.join,
TaskHandler.tell_others, Worker._ensure_messages_consumed and the result
handler's on_ready, each on objects allocated with __new__ and scripted
collaborators (threads that record when they were stopped, workers that record
when they were joined, queues that count sentinels, a scripted clock).

The scenario is chosen from the function whose obligation was refuted; the
clauses of the property are evaluated on what the real code did.
"""
import json
import sys
import threading

import billiard.pool as pool


class Seq:
    n = 0

    @classmethod
    def tick(cls):
        cls.n += 1
        return cls.n


class FakeThread:
    def __init__(self, name):
        self.name, self.stopped_at, self._state = name, 0, pool.RUN

    def stop(self, timeout=None):
        self.stopped_at = self.stopped_at or Seq.tick()

    def close(self):
        self._state = pool.CLOSE


class FakeWorker:
    def __init__(self, started=True):
        self._popen = object() if started else None
        self.joined_at = 0

    def join(self):
        self.joined_at = Seq.tick()


class CountingQueue:
    def __init__(self, fail_at=None):
        self.items, self.fail_at = [], fail_at

    def put(self, x):
        if self.fail_at is not None and len(self.items) >= self.fail_at:
            raise IOError('closed')
        self.items.append(x)


def mkpool(workers):
    p = pool.Pool.__new__(pool.Pool)
    p._state = pool.RUN
    p._worker_handler, p._task_handler, p._result_handler = FakeThread('sup'), FakeThread('task'), FakeThread('result')
    p._pool = list(workers)
    p._taskqueue = CountingQueue()
    p._putlock = pool.LaxBoundedSemaphore(3)
    return p


def scen_join():
    out = []
    for workers in ([], [FakeWorker()], [FakeWorker(), FakeWorker(False), FakeWorker()]):
        Seq.n = 0
        p = mkpool(workers)
        p._state = pool.CLOSE
        p.join()
        a, b, c = p._worker_handler.stopped_at, p._task_handler.stopped_at, p._result_handler.stopped_at
        if not (0 < a < b < c):
            out.append('join() with %d workers stopped the helpers in the order supervisor=%d feeder=%d result=%d '
                       '(0 = never)' % (len(workers), a, b, c))
        for i, w in enumerate(workers):
            if w._popen is not None and not w.joined_at > c:
                out.append('join(): started worker #%d joined at %d, result thread stopped at %d' % (i, w.joined_at, c))
    p = mkpool([])
    try:
        p.join()
        out.append('join() on a running pool did not raise')
    except AssertionError:
        pass
    return out


def scen_close():
    out = []
    p = mkpool([FakeWorker()])
    p._putlock.acquire(); p._putlock.acquire()
    Seq.n = 0
    p.close()
    if p._state != pool.CLOSE or p._worker_handler._state != pool.CLOSE or p._taskqueue.items != [None]:
        out.append('close() on a running pool: state=%r supervisor=%r sentinels=%r' % (
            p._state, p._worker_handler._state, p._taskqueue.items))
    if p._task_handler._state != pool.RUN or p._result_handler._state != pool.RUN:
        out.append('close() changed the state of the feeder / result thread (feeder=%r result=%r): the feeder stops before '
                   'the tasks submitted earlier were handed to the workers' % (p._task_handler._state, p._result_handler._state))
    if p._putlock._value != p._putlock._initial_value:
        out.append('close() left the submission semaphore at %d of %d' % (p._putlock._value, p._putlock._initial_value))
    n = Seq.n
    p.close()
    if p._taskqueue.items != [None] or Seq.n != n:
        out.append('second close() was not a no-op: sentinels=%r' % (p._taskqueue.items,))
    return out


def scen_tell():
    out = []
    for n in (0, 1, 3):
        th = pool.TaskHandler.__new__(pool.TaskHandler)
        th.outqueue = CountingQueue()
        sent = CountingQueue()
        th.put = sent.put
        th.pool = [FakeWorker() for _ in range(n)]
        th.tell_others()
        if th.outqueue.items != [None] or sent.items != [None] * n:
            out.append('tell_others() with %d workers: %d sentinel(s) to the result thread, %d to the workers' % (
                n, len(th.outqueue.items), len(sent.items)))
    return out


def scen_consumed():
    out = []
    sleeps = []
    real_sleep = pool.time.sleep

    class C:
        value = 5
    try:
        pool.time.sleep = lambda s: sleeps.append(s)
        w = pool.Worker.__new__(pool.Worker)
        w.on_ready_counter = C()
        r = w._ensure_messages_consumed(5)
        if not r or sleeps:
            out.append('_ensure_messages_consumed(5) with counter 5: returned %r after %d sleeps' % (r, len(sleeps)))
        r = w._ensure_messages_consumed(6)
        if r or len(sleeps) > 300:
            out.append('_ensure_messages_consumed(6) with counter 5: returned %r after %d sleeps' % (r, len(sleeps)))
    finally:
        pool.time.sleep = real_sleep
    return out


def scen_on_ready():
    out = []

    class C:
        def __init__(self):
            self.value = 0

        def get_lock(self):
            return threading.Lock()
    for success in (True, False):
        cache = {}
        counters = {4242: C(), 7: C()}
        rh = pool.ResultHandler.__new__(pool.ResultHandler)
        rh.on_ready_counters = counters
        # the closure is created by _make_methods; build it the way __init__ does
        rh.cache, rh.putlock, rh.restart_state = cache, None, None
        rh.join_exited_workers, rh.on_job_ready = None, None
        rh.check_timeouts = None
        rh._make_methods()
        job = pool.ApplyResult(cache, None)
        job._ack(None, 900.0, 4242, None)
        try:
            rh.state_handlers[pool.READY](job._job, None, (success, 'v'), None)
        except BaseException:
            pass
        if counters[4242].value != 1 or counters[7].value != 0:
            out.append('result of a job accepted by worker 4242: counters after on_ready are 4242:%d 7:%d' % (
                counters[4242].value, counters[7].value))
    return out


def scen_on_ready_map():
    """two workers, one chunk each; the second worker's result arrives first"""
    out = []

    class C:
        def __init__(self):
            self.value = 0

        def get_lock(self):
            return threading.Lock()
    cache = {}
    counters = {11: C(), 12: C()}
    rh = pool.ResultHandler.__new__(pool.ResultHandler)
    rh.on_ready_counters = counters
    rh.cache, rh.putlock, rh.restart_state = cache, None, None
    rh.join_exited_workers, rh.on_job_ready, rh.check_timeouts = None, None, None
    rh._make_methods()
    m = pool.MapResult(cache, 1, 2, None, None)
    m._ack(0, 900.0, 11)
    m._ack(1, 901.0, 12)
    rh.state_handlers[pool.READY](m._job, 1, (True, ['r1']), None)       # sent by worker 12
    if counters[12].value != 1 or counters[11].value != 0:
        out.append('map of 2 chunks (worker 11 has chunk 0, worker 12 chunk 1): the result of chunk 1, sent by worker 12, is '
                   'credited as 11:%d 12:%d -- worker 12 will wait out its exit guard (30 s) for a credit that went to 11' % (
                       counters[11].value, counters[12].value))
    return out


def scen_drain():
    """finish_at_shutdown on a real ResultHandler: scripted poll / tick / clock"""
    out = []
    for state, script, workers_gone_after, clock_step in (
            (pool.CLOSE, ['task', None, 'idle', 'task', 'task'], None, 1.0),        # drained by results
            (pool.CLOSE, ['idle'] * 12, 3, 1.0),                                     # all workers gone: 5 s of grace
            (pool.CLOSE, ['idle'] * 40, 3, 0.2),                                     # ... measured on the clock, not in rounds
            (pool.TERMINATE, ['task'], None, 1.0),                                   # told to stop
            (pool.CLOSE, ['task', 'eof'], None, 1.0),                                # connection lost
            (pool.RUN, ['task', 'task', 'task'], None, 1.0)):                        # (body() left its loop on CoroStop)
        clock = [100.0]
        real_mono = pool.monotonic
        pool.monotonic = lambda: clock[0]
        try:
            cache = {k: object() for k in range(3)}
            rh = pool.ResultHandler.__new__(pool.ResultHandler)
            log = {'dispatched': [], 'ticks': [], 'polls': 0, 'checks': 0, 'first_gone': None}
            pending = list(script)

            def poll(timeout):
                log['polls'] += 1
                clock[0] += clock_step
                if not pending:
                    return False, None
                x = pending.pop(0)
                if x == 'eof':
                    raise EOFError()
                if x == 'idle':
                    return False, None
                if x is None:
                    return True, None
                return True, ('msg', log['polls'])

            def on_state_change(task):
                log['dispatched'].append(task)
                if cache:
                    cache.pop(min(cache))          # one job gets its result

            def tick(shutdown=False):
                log['ticks'].append(shutdown)
                if workers_gone_after is not None and len(log['ticks']) >= workers_gone_after:
                    if log['first_gone'] is None:
                        log['first_gone'] = clock[0]
                    raise pool.WorkersJoined()
            rh.get, rh.outqueue, rh.cache, rh.poll = (lambda: None), object(), cache, poll
            rh.join_exited_workers, rh.check_timeouts, rh.on_state_change = tick, (lambda: log.__setitem__('checks', log['checks'] + 1)), on_state_change
            rh._state = state
            rh.finish_at_shutdown()
            what = 'state %s, messages %r, workers gone after tick %r' % (state, script, workers_gone_after)
            reads = [x for x in script[:log['polls']] if x == 'task']
            if len(log['dispatched']) != len(reads):
                out.append('%s: %d messages read, %d dispatched' % (what, len(reads), len(log['dispatched'])))
            if not all(log['ticks']):
                out.append('%s: the supervision tick was not told that the pool is shutting down' % what)
            if log['checks'] != log['polls']:
                out.append('%s: %d rounds, %d time-limit checks' % (what, log['polls'], log['checks']))
            gave_up = log['first_gone'] is not None and clock[0] - log['first_gone'] > 5.0
            eof = 'eof' in script[:log['polls']]
            if cache and state != pool.TERMINATE and not eof and not gave_up:
                out.append('%s: the result handler stopped draining with %d unresolved jobs in the cache (clock %.1f, all '
                           'workers gone at %r)' % (what, len(cache), clock[0], log['first_gone']))
        finally:
            pool.monotonic = real_mono
    return out


SCEN = {'pool.ResultHandler.finish_at_shutdown': scen_drain, 'pool.Pool.join': scen_join, 'pool.Pool.close': scen_close, 'pool.TaskHandler.tell_others': scen_tell,
        'pool.Worker._ensure_messages_consumed': scen_consumed}


def main():
    data = json.load(open(sys.argv[1]))
    fn = data['function']
    base = fn.split('@')[0]
    print('replay of %s / %s' % (fn, data['obligation']))
    scen = scen_on_ready_map if fn.endswith('on_ready@map') else (scen_on_ready if fn.endswith('on_ready') else SCEN.get(base))
    if scen is None:
        print('no scenario for this function')
        sys.exit(0)
    bad = scen()
    for b in bad:
        print('  violation on real code: ' + b)
    print('REPRODUCED on real code' if bad else 'not reproduced')
    sys.exit(1 if bad else 0)


main()
