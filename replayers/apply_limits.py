"""Replay / bounded cross-check for the limit handling of pool.Pool.apply_async
on the real code: a Pool allocated with __new__ (threads=False, a recording
_quick_put), every combination of pool default and per-job value for the soft
and the hard limit from {None, 2.0, 10.0}.

Checked on the handle that apply_async returns and on the task that is sent: the
per-job limit is stored when one is given, the pool default otherwise (C06: "a
per-job limit takes precedence over the pool default"), independently for the
two limits.
"""
import itertools
import json
import sys

import billiard.pool as pool


def run(pool_soft, pool_hard, job_soft, job_hard):
    p = pool.Pool.__new__(pool.Pool)
    p._state = pool.RUN
    p._cache = {}
    p._putlock = None
    p.putlocks = False
    p.threads = False
    p.synack = False
    p.soft_timeout, p.timeout = pool_soft, pool_hard
    p.lost_worker_timeout = 10.0
    p.on_timeout_set = p.on_timeout_cancel = None
    sent = []
    p._quick_put = sent.append
    r = p.apply_async(len, ((),), soft_timeout=job_soft, timeout=job_hard)
    want_soft = job_soft if job_soft else pool_soft
    want_hard = job_hard if job_hard else pool_hard
    bad = []
    if r._soft_timeout != want_soft:
        bad.append('pool default soft limit %r, per-job %r: the job carries %r (expected %r)' % (
            pool_soft, job_soft, r._soft_timeout, want_soft))
    if r._timeout != want_hard:
        bad.append('pool default hard limit %r, per-job %r: the job carries %r (expected %r)' % (
            pool_hard, job_hard, r._timeout, want_hard))
    if len(sent) != 1:
        bad.append('%d task messages sent' % len(sent))
    return bad


def main():
    data = json.load(open(sys.argv[1]))
    print('replay of %s / %s' % (data['function'], data['obligation']))
    found = []
    vals = (None, 2.0, 10.0)
    for combo in itertools.product(vals, repeat=4):
        found += run(*combo)
    for b in found[:4]:
        print('  violation on real code: ' + b)
    print('REPRODUCED on real code' if found else 'not reproduced')
    sys.exit(1 if found else 0)


main()
