"""Replay / bounded cross-check for pool.TimeoutHandler.on_hard_timeout (and
_trywaitkill) on the real code: a real TimeoutHandler over scripted worker
handles and real ApplyResult handles; os.getpgid / os.killpg / pool._kill are
replaced by recorders, so no signal leaves this process.

Scenarios (every combination of):
  job state      unresolved / already resolved with a value / already failed
  worker         in the process list / not in it
  TERM outcome   the worker goes away within the grace wait / it does not /
                 signalling raises OSError / the process is already gone
                 (looking its group up raises)
and the checks
  - a resolved job keeps its value, no callback runs, its worker gets no signal;
  - an unresolved job is failed with TimeLimitExceeded(its limit), exactly
    once, leaves the cache, the timeout callback runs once (soft=False);
  - its worker gets TERM first and KILL only if TERM did not end it.
"""
import itertools
import json
import os
import signal
import sys

import billiard.pool as pool
from billiard.exceptions import TimeLimitExceeded


class FakePopen:
    def __init__(self, dies):
        self.dies = dies

    def wait(self, timeout=None):
        return -15 if self.dies else None        # the exit status after TERM


class FakeWorker:
    def __init__(self, pid, dies, log, term_raises):
        self.pid, self._name, self.name = pid, 'W%d' % pid, 'W%d' % pid
        self._popen = FakePopen(dies)
        self.log, self.term_raises = log, term_raises

    def terminate(self):
        self.log.append(('TERM', self.pid))
        if self.term_raises:
            raise OSError(3, 'No such process')


def run(state, listed, term):
    log = []
    real = os.getpgid, os.killpg, pool._kill
    def getpgid(pid):
        if term == 'gone':                           # the worker has exited and been reaped in the meantime
            raise ProcessLookupError(3, 'No such process')
        return 1                                     # the worker is not a group leader
    os.getpgid = getpgid
    os.killpg = lambda pg, sig: log.append(('KILLPG', pg, sig))
    pool._kill = lambda pid, sig: log.append(('KILL' if sig == signal.SIGKILL else 'SIG%d' % sig, pid))
    try:
        cache = {}
        calls = []
        job = pool.ApplyResult(cache, lambda *a: calls.append(('cb',)), timeout=2.5,
                               timeout_callback=lambda *a, **k: calls.append(('timeout_cb', a, k)),
                               error_callback=lambda *a: calls.append(('error_cb',)))
        job._ack(None, 100.0, 4242, None)
        if state == 'value':
            job._set(job._job, (True, 'the value'))
        elif state == 'failed':
            try:
                raise KeyError('earlier failure')
            except KeyError:
                job._set(job._job, (False, pool.ExceptionInfo()))
        before = (job.ready(), job._success if job.ready() else None, job._value if job.ready() else None, list(calls))
        w = FakeWorker(4242, dies=(term == 'dies'), log=log, term_raises=(term == 'oserror'))
        th = pool.TimeoutHandler([FakeWorker(7, True, log, False)] + ([w] if listed else []), cache, None, None)
        bad = []
        try:
            th.on_hard_timeout(job)
        except Exception as e:       # noqa
            bad.append('on_hard_timeout raised %r (job %s, worker listed %s, TERM outcome %s): the scan, and with it every '
                       'later time limit, dies with it' % (e, state, listed, term))
            return bad
        if state != 'open':
            if (job.ready(), job._success, job._value, calls) != before:
                bad.append('a job that already had its result (%s) was changed by on_hard_timeout: now success=%r value=%r, '
                           'callbacks run %r' % (state, job._success, job._value, calls[len(before[3]):]))
            if log:
                bad.append('a job that already had its result (%s): its worker was signalled %r' % (state, log))
        else:
            if not job.ready() or job._success or not isinstance(job._value.exception.exc, TimeLimitExceeded) \
                    or job._value.exception.exc.args != (2.5,):
                bad.append('an unresolved job past its hard limit was not failed with TimeLimitExceeded(2.5): %r' % (
                    (job.ready(), getattr(job, '_success', None), getattr(job, '_value', None)),))
            if job._job in cache:
                bad.append('the failed job is still in the cache')
            if [c[0] for c in calls].count('timeout_cb') != 1:
                bad.append('timeout callback ran %d times' % [c[0] for c in calls].count('timeout_cb'))
            sig = [e for e in log if e[-1] == 4242 or (len(e) > 1 and e[1] == 4242)]
            want = []
            if listed and term != 'gone':
                want = [('TERM', 4242)] + ([] if term == 'dies' else [('KILL', 4242)])
            if sig != want or any(e[1] == 7 for e in log):
                bad.append('signals sent: %r, expected %r (worker listed: %s, TERM outcome: %s)' % (log, want, listed, term))
        return bad
    finally:
        os.getpgid, os.killpg, pool._kill = real


def main():
    data = json.load(open(sys.argv[1]))
    print('replay of %s / %s' % (data['function'], data['obligation']))
    found = 0
    for state, listed, term in itertools.product(('open', 'value', 'failed'), (True, False), ('dies', 'stays', 'oserror', 'gone')):
        bad = run(state, listed, term)
        if bad:
            found += 1
            if found <= 3:
                print('  scenario: job %s, worker listed=%s, TERM %s' % (state, listed, term))
                for b in bad:
                    print('    violation on real code: ' + b)
    print('REPRODUCED on real code' if found else 'not reproduced')
    sys.exit(1 if found else 0)


main()
