"""Replay / bounded cross-check for C20 on the real code, without a server
process: a managers.Server allocated with __new__ (tables, RLock, registry with
one type), driven through create / incref / decref by every sequence of up to 5
operations on up to two objects (one of them possibly a singleton that
every create() of its type returns again), compared with a reference count model; and
handle_request over scripted connections with a correct key, a wrong key, a
non-public method name and a raising method.
"""
import itertools
import json
import sys
import threading

import billiard.connection as connection
import billiard.managers as M


class Referent:
    def ping(self):
        return 'pong'


def mkserver():
    s = M.Server.__new__(M.Server)
    single = Referent()
    # 'single': the common register('get_queue', callable=lambda: q) pattern -- every create() returns the same referent
    s.registry = {'thing': (Referent, None, None, None), 'single': (lambda: single, None, None, None)}
    s.id_to_obj = {'0': (None, ())}
    s.id_to_refcount = {}
    s.mutex = threading.RLock()
    s.authkey = b'key'
    s.address = 'addr'
    return s


def scen_tables():
    bad = []
    for ops in itertools.product(('create', 'single', 'inc0', 'dec0', 'inc1', 'dec1'), repeat=5):
        s = mkserver()
        ids, ref = [], {}
        keep = []
        for op in ops:
            try:
                if op in ('create', 'single'):
                    ident, exposed = s.create(None, 'thing' if op == 'create' else 'single')
                    keep.append(s.id_to_obj[ident][0])       # keep the referent alive: ids are memory addresses
                    if ident not in ids:
                        ids.append(ident)
                    ref[ident] = ref.get(ident, 0) + 1
                    if 'ping' not in exposed:
                        bad.append('create() exposes %r' % (exposed,))
                else:
                    k = int(op[-1])
                    if k >= len(ids):
                        continue
                    ident = ids[k]
                    if op.startswith('inc'):
                        if ref.get(ident, 0) == 0:
                            try:
                                s.incref(None, ident)
                                bad.append('%r: incref of a disposed object succeeded' % (ops,))
                            except KeyError:
                                pass
                            continue
                        s.incref(None, ident)
                        ref[ident] += 1
                    else:
                        if ref.get(ident, 0) == 0:
                            try:
                                s.decref(None, ident)
                                bad.append('%r: decref of a disposed object succeeded' % (ops,))
                            except (KeyError, AssertionError):
                                pass
                            continue
                        s.decref(None, ident)
                        ref[ident] -= 1
            except Exception as e:       # noqa
                bad.append('%r: %s raised %r' % (ops, op, e))
                break
            live = {i for i, n in ref.items() if n > 0}
            if set(s.id_to_refcount) != live or set(s.id_to_obj) - {'0'} != live or \
                    any(s.id_to_refcount[i] != ref[i] for i in live):
                bad.append('%r after %s: counts %r, objects %r, expected %r' % (
                    ops, op, dict(s.id_to_refcount), sorted(set(s.id_to_obj) - {'0'}), {i: ref[i] for i in live}))
                break
        if len(bad) > 4:
            break
    return bad


class Script:
    def __init__(self, request, peer_key):
        self.request, self.peer_key = request, peer_key
        self.sent, self.closed, self.recvs = [], 0, 0

    def send(self, m):
        self.sent.append(m)

    def recv(self):
        self.recvs += 1
        return self.request

    def close(self):
        self.closed += 1


def scen_handle():
    bad = []
    calls = []
    real = connection.deliver_challenge, connection.answer_challenge

    def fake_deliver(c, key):
        if c.peer_key != key:
            raise connection.AuthenticationError('digest received was wrong')

    def fake_answer(c, key):
        if c.peer_key != key:
            raise connection.AuthenticationError('digest sent was rejected')
    connection.deliver_challenge, connection.answer_challenge = fake_deliver, fake_answer
    try:
        for peer_key, func, expect_call in ((b'key', 'dummy', True), (b'wrong', 'dummy', False), (b'key', 'serve_client', False),
                                             (b'key', 'boom', False)):
            s = mkserver()
            s.dummy = lambda c, *a, **k: calls.append('dummy')
            n = len(calls)
            c = Script((None, func, (), {}), peer_key)
            s.handle_request(c)
            called = len(calls) > n
            if called != expect_call:
                bad.append('handle_request(key %r, method %r): method %s' % (peer_key, func, 'ran' if called else 'did not run'))
            if peer_key != b'key' and c.recvs:
                bad.append('handle_request read a request from a peer that failed the challenge')
            if c.closed != 1 or len(c.sent) != 1:
                bad.append('handle_request(key %r, method %r): %d answers sent, closed %d times' % (peer_key, func, len(c.sent), c.closed))
            elif (c.sent[0][0] == '#RETURN') != expect_call:
                bad.append('handle_request(key %r, method %r) answered %r' % (peer_key, func, c.sent[0][0]))
    finally:
        connection.deliver_challenge, connection.answer_challenge = real
    return bad


class Thing:
    def __init__(self):
        self.calls = []

    def value(self, x):
        self.calls.append(('value', x))
        return ('the value', x)

    def boom(self):
        self.calls.append(('boom',))
        raise LookupError('from the referent')

    def secret(self):
        self.calls.append(('secret',))
        return 'must not be reachable'


class Wire:
    """a scripted connection for serve_client: requests, then end of stream"""
    def __init__(self, requests, fail_first_send_of=()):
        self.requests, self.sent, self.fail = list(requests), [], set(fail_first_send_of)
        self.n = 0
        self.closed = 0

    def recv(self):
        if not self.requests:
            raise EOFError
        self.n += 1
        return self.requests.pop(0)

    def send(self, m):
        if self.n in self.fail:
            self.fail.discard(self.n)
            raise TypeError('cannot pickle')
        self.sent.append((self.n, m))

    def close(self):
        self.closed += 1


def scen_serve():
    bad = []
    s = mkserver()
    s.stop_event = threading.Event()
    t = Thing()
    s.id_to_obj['t'] = (t, {'value', 'boom'}, {})
    s.id_to_refcount['t'] = 1
    reqs = [('t', 'value', (7,), {}), ('t', 'boom', (), {}), ('t', 'secret', (), {}), ('nope', 'value', (1,), {}),
            ('t', '__repr__', (), {}), 'malformed', ('t', 'value', (8,), {}), ('t', 'value', (9,), {})]
    w = Wire(reqs, fail_first_send_of=(7,))
    try:
        s.serve_client(w)
        bad.append('serve_client returned although the stream ended (expected SystemExit)')
    except SystemExit as e:
        if e.code not in (0, None):
            bad.append('serve_client left with exit status %r at end of stream' % (e.code,))
    if ('secret',) in t.calls:
        bad.append('a method that is not exposed was run on the referent')
    answers = {}
    for n, m in w.sent:
        answers.setdefault(n, []).append(m)
    if sorted(answers) != list(range(1, len(reqs) + 1)) or any(len(v) != 1 for v in answers.values()):
        bad.append('requests 1..%d were answered %r times' % (len(reqs), {n: len(v) for n, v in answers.items()}))
        return bad
    a = {n: v[0] for n, v in answers.items()}
    if a[1] != ('#RETURN', ('the value', 7)):
        bad.append('value(7) was answered with %r' % (a[1],))
    if a[2][0] != '#ERROR' or not isinstance(a[2][1], LookupError) or a[2][1].args != ('from the referent',):
        bad.append('the exception raised by the referent was answered with %r' % (a[2],))
    if a[3][0] != '#TRACEBACK' or a[4][0] != '#TRACEBACK' or a[6][0] != '#TRACEBACK':
        bad.append('unexposed method / unknown object / malformed request were answered with %r, %r, %r' % (a[3][0], a[4][0], a[6][0]))
    if a[5] != ('#RETURN', repr(t)):
        bad.append('__repr__ (served by the server itself) was answered with %r' % (a[5],))
    if a[7][0] != '#UNSERIALIZABLE':
        bad.append('an answer that could not be sent was followed by %r' % (a[7],))
    if a[8] != ('#RETURN', ('the value', 9)):
        bad.append('the request after an unserialisable answer was answered with %r' % (a[8],))
    if t.calls != [('value', 7), ('boom',), ('value', 8), ('value', 9)]:
        bad.append('calls made on the referent: %r' % (t.calls,))
    # the client side
    err = LookupError('x')
    for kind, body, want in (('#RETURN', 41, ('return', 41)), ('#ERROR', err, ('raise', err)),
                             ('#TRACEBACK', 'tb', ('raise', M.RemoteError)), ('#UNSERIALIZABLE', 'r', ('raise', M.RemoteError)),
                             ('#WHAT', None, ('raise', ValueError))):
        class C:
            def send(self, m):
                self.m = m

            def recv(self):
                return kind, body
        c = C()
        try:
            got = ('return', M.dispatch(c, 'id', 'meth', (1,), {'k': 2}))
        except Exception as e:      # noqa
            got = ('raise', e)
        ok = (got == want) if want[0] == 'return' or not isinstance(want[1], type) else \
            (got[0] == 'raise' and type(got[1]) is want[1])
        if want[0] == 'raise' and not isinstance(want[1], type):
            ok = got[0] == 'raise' and got[1] is want[1]
        if not ok:
            bad.append('dispatch on answer %r: %r' % (kind, got))
        if getattr(c, 'm', None) != ('id', 'meth', (1,), {'k': 2}):
            bad.append('dispatch sent %r' % (getattr(c, 'm', None),))
    return bad


def scen_proxy_refs():
    """the proxy side: _incref takes one reference and registers the finalizer; _decref gives it back unless the manager
    is known to be shut down -- also for a proxy without a manager object (state None: a pickled copy, a forked child)"""
    bad = []
    sent = []
    real_dispatch = M.dispatch
    M.dispatch = lambda c, id, name, args=(), kwds={}: sent.append((c, id, name, args))
    try:
        for label, state_value, want in (('no manager object', None, True), ('manager started', M.State.STARTED, True),
                                         ('manager shut down', M.State.SHUTDOWN, False), ('manager not started', M.State.INITIAL, False)):
            del sent[:]
            token = M.Token('list', ('addr', 1), 'ident-1')
            state = None
            if state_value is not None:
                state = M.State()
                state.value = state_value
            tls = threading.local()
            closed = []

            class Conn:
                def close(self):
                    closed.append(1)
            tls.connection = Conn()
            idset = {'ident-1'}
            conns = []
            M.BaseProxy._decref(token, b'key', state, tls, idset, lambda addr, authkey=None: conns.append((addr, authkey)) or 'conn')
            got = [(name, args) for (_, _, name, args) in sent]
            if (got == [('decref', ('ident-1',))]) != want or (not want and got):
                bad.append('releasing a proxy (%s): requests sent %r, connections made %r (expected %s decref)' % (
                    label, got, conns, 'one' if want else 'no'))
            if want and conns != [(('addr', 1), b'key')]:
                bad.append('releasing a proxy (%s): connected as %r' % (label, conns))
            if idset or not closed or hasattr(tls, 'connection'):
                bad.append('releasing the last proxy (%s): idset %r, thread connection closed %r, still set %s' % (
                    label, idset, closed, hasattr(tls, 'connection')))
        # _incref
        del sent[:]
        p = M.BaseProxy.__new__(M.BaseProxy)
        p._token = M.Token('list', ('addr', 1), 'ident-2')
        p._id, p._authkey, p._manager, p._tls, p._idset = 'ident-2', b'key', None, threading.local(), set()
        conns = []
        p._Client = lambda addr, authkey=None: conns.append((addr, authkey)) or 'conn'
        p._incref()
        if [(n, a) for (_, _, n, a) in sent] != [('incref', ('ident-2',))] or conns != [(('addr', 1), b'key')] or p._idset != {'ident-2'}:
            bad.append('_incref: requests %r, connections %r, idset %r' % (sent, conns, p._idset))
        fin = p._close
        if fin._callback is not M.BaseProxy._decref and getattr(fin._callback, '__func__', fin._callback) is not M.BaseProxy._decref:
            bad.append('_incref registered %r as finalizer' % (fin._callback,))
        elif fin._args[0] is not p._token or fin._args[2] is not None or fin._args[4] is not p._idset:
            bad.append('_incref registered the finalizer with %r' % (fin._args,))
        fin.cancel()
        # a second proxy of the same referent in this process (a pickled copy, a proxy received twice): the id is already
        # in the per-process id set; the new proxy still takes its own reference (its finalizer gives one back)
        del sent[:]
        p2 = M.BaseProxy.__new__(M.BaseProxy)
        p2._token = M.Token('list', ('addr', 1), 'ident-2')
        p2._id, p2._authkey, p2._manager, p2._tls, p2._idset = 'ident-2', b'key', None, threading.local(), {'ident-2'}
        p2._Client = lambda addr, authkey=None: 'conn'
        p2._incref()
        got = [(n, a) for (_, _, n, a) in sent]
        if got != [('incref', ('ident-2',))]:
            bad.append('_incref of a second proxy of an object this process already refers to: requests %r '
                       '(expected one incref: its finalizer will send a decref)' % (got,))
        p2._close.cancel()
    finally:
        M.dispatch = real_dispatch
    return bad


def scen_callmethod():
    """one call through a proxy whose answer is an object of its own (#PROXY): a proxy for that object, and the transit
    reference of *that* object given back; plain values handed on unchanged"""
    bad = []
    sent = []
    real_dispatch = M.dispatch
    M.dispatch = lambda c, id, name, args=(), kwds={}: sent.append((c, id, name, args))
    try:
        for kind in ('#RETURN', '#PROXY'):
            del sent[:]
            p = M.BaseProxy.__new__(M.BaseProxy)
            p._token = M.Token('parent', ('addr', 1), 'parent-id')
            p._id, p._authkey, p._serializer = 'parent-id', b'key', 'pickle'
            made, conns, reqs = [], [], []

            class Mgr:
                _registry = {'child': (None, None, None, lambda tok, ser, **kw: made.append((tok, kw)) or 'child-proxy')}
            p._manager = Mgr()
            child = M.Token('child', None, 'child-id')

            class Conn:
                def send(self, m):
                    reqs.append(m)

                def recv(self):
                    return ('#RETURN', 41) if kind == '#RETURN' else ('#PROXY', (('meth',), child))
            p._tls = threading.local()
            p._tls.connection = Conn()
            p._Client = lambda addr, authkey=None: conns.append((addr, authkey)) or 'conn'
            got = p._callmethod('meth', (1,), {'k': 2})
            if reqs != [('parent-id', 'meth', (1,), {'k': 2})]:
                bad.append('_callmethod sent %r' % (reqs,))
            if kind == '#RETURN':
                if got != 41 or sent or conns:
                    bad.append('_callmethod on a plain value: returned %r, extra requests %r' % (got, sent))
            else:
                if got != 'child-proxy' or len(made) != 1 or made[0][0] is not child or child.address != ('addr', 1):
                    bad.append('_callmethod on a returned object: result %r, proxies made %r' % (got, made))
                if [(n, a) for (_, _, n, a) in sent] != [('decref', ('child-id',))]:
                    bad.append('_callmethod on a returned object: the reference given back afterwards is %r (expected one '
                               'decref for the returned object child-id, not for the object the method was called on)' % (
                                   [(n, a) for (_, _, n, a) in sent],))
    finally:
        M.dispatch = real_dispatch
    return bad


def main():
    data = json.load(open(sys.argv[1]))
    print('replay of %s / %s' % (data['function'], data['obligation']))
    bad = scen_tables() + scen_handle() + scen_serve() + scen_proxy_refs() + scen_callmethod()
    for b in bad[:8]:
        print('  violation on real code: ' + b)
    print('REPRODUCED on real code' if bad else 'not reproduced')
    sys.exit(1 if bad else 0)


main()
