"""Replay for the C04 obligations about map / imap handles, on the real code,
without processes (Pool allocated with __new__, scripted worker handles).

D4  ordered imap: a worker dies holding item k; mark_as_worker_lost hands the
    loss record to IMapIterator._set(None, ...), which files it under
    _unsorted[None]; the consumer's next() never sees it.
D3  map with recycled workers: the worker that delivered chunk 0 exits with the
    recycle status (as it should after maxtasksperchild); chunk 1 is still
    running on a live worker; the supervision tick matches the exited worker
    against MapResult.worker_pids(), which still lists it, and the map is failed
    with WorkerLostError although no part of it was lost.
"""
import json
import sys

import billiard.pool as pool


class FakeWorker:
    def __init__(self, pid, exitcode=None):
        self.pid, self.exitcode, self._popen = pid, exitcode, object()
        self.name = 'W%d' % pid
        self._controlled_termination = False
        self._job_terminated = False

    def join(self):
        pass

    def _is_alive(self):
        return self.exitcode is None


def mkpool(workers):
    p = pool.Pool.__new__(pool.Pool)
    p._cache = {}
    p._pool = list(workers)
    p._poolctrl = {w.pid: None for w in workers}
    p._on_ready_counters = {w.pid: None for w in workers}
    p.on_process_down = None
    return p


def scen_imap(cls):
    out = []
    p = mkpool([])
    it = cls(p._cache, lost_worker_timeout=10.0)
    it._set_length(3)
    it._set(0, (True, 'r0'))
    p.mark_as_worker_lost(it, -9)          # the worker holding item 1 was killed
    got = []
    for _ in range(3):
        try:
            got.append(('ok', it.next(0)))
        except StopIteration:
            got.append('STOP')
            break
        except pool.TimeoutError:
            got.append('TIMEOUT')
            break
        except Exception as e:          # noqa
            got.append(('raised', type(e.args[0]).__name__ if e.args else type(e).__name__))
    if not any(isinstance(g, tuple) and g[0] == 'raised' for g in got):
        out.append('%s: item 0 delivered, worker of item 1 lost and reported: the consumer sees %r -- the loss record is '
                   'in _unsorted under key %r, never handed out' % (cls.__name__, got, list(it._unsorted)))
    return out


def scen_map():
    out = []
    clock = [1000.0]
    pool.monotonic = lambda: clock[0]
    for chunksize, length in ((1, 2), (2, 4), (2, 3), (3, 5)):
        clock[0] = 1000.0
        a, b = FakeWorker(11), FakeWorker(12)
        p = mkpool([a, b])
        m = pool.MapResult(p._cache, chunksize, length, None, None)
        m._ack(0, 900.0, a.pid)
        m._ack(1, 901.0, b.pid)
        what = 'map of %d items in chunks of %d' % (length, chunksize)
        if not (len(m._worker_pid) == len(m._accepted) == len(m._time_accepted) == length):
            out.append('%s: after the two chunks were accepted the ownership record has %d / %d / %d entries for %d items' % (
                what, len(m._worker_pid), len(m._accepted), len(m._time_accepted), length))
            break
        owners = [a.pid] * min(chunksize, length) + [b.pid] * max(0, min(2 * chunksize, length) - chunksize)
        if m._worker_pid[:len(owners)] != owners:
            out.append('%s: owners recorded after the ACKs of chunks 0 and 1: %r (expected %r)' % (what, m._worker_pid, owners))
            break
        m._set(0, (True, ['r%d' % k for k in range(chunksize)]))   # worker A delivered its chunk ...
        a.exitcode = pool.EX_RECYCLE           # ... and exits normally (maxtasksperchild reached)
        p._join_exited_workers()
        clock[0] += 60                         # well past the lost-worker timeout
        p._join_exited_workers()
        what = 'map of %d items in chunks of %d' % (length, chunksize)
        if m._worker_lost or (m.ready() and not m.successful()):
            out.append('%s: worker 11 delivered chunk 0 and exited with the recycle status, chunk 1 still running on '
                       'live worker 12; after the tick the map is %s' % (
                           what, 'failed: %r' % (m._value.exception,) if m.ready() else 'marked lost: %r' % (m._worker_lost,)))
        elif set(m.worker_pids()) != {b.pid}:
            out.append('%s: worker_pids() after chunk 0 was delivered: %r' % (what, m.worker_pids()))
        if out:
            break
    return out


def main():
    data = json.load(open(sys.argv[1]))
    fn, ob = data['function'], data['obligation']
    print('replay of %s / %s' % (fn, ob))
    if 'MapResult' in fn:
        bad = scen_map()
    elif '@imapu' in fn or 'Unordered' in fn:
        bad = scen_imap(pool.IMapUnorderedIterator)
    else:
        bad = scen_imap(pool.IMapIterator)
    for b in bad:
        print('  violation on real code: ' + b)
    print('REPRODUCED on real code' if bad else 'not reproduced')
    sys.exit(1 if bad else 0)


main()
