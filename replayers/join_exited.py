"""Replay for pool.Pool._join_exited_workers on the real code: a Pool allocated
with __new__, scripted worker handles (pid / exitcode / _popen), real
ApplyResult handles in the cache, a scripted clock.

The scenario is chosen from the obligation that was refuted:
  *lost_jobs_fail_after_the_grace_period   an unresolved job whose worker was detected lost more than the
                                           timeout ago, with and without `shutdown` and workers left
  *lost_only_if* / *no_job_reported_lost*  one worker exits, the job belongs to another, live one
  *job_of_a_reaped_worker_is_marked        the worker that accepted the job exits
  *a_loss_record_is_never_replaced         the owner exits, then other workers are recycled every 6 s
"""
import json
import os
import sys

import billiard.pool as pool


class FakeWorker:
    def __init__(self, pid, exitcode=None):
        self.pid, self.exitcode, self._popen = pid, exitcode, object()
        self.name = 'W%d' % pid
        self._controlled_termination = False
        self._job_terminated = False

    def join(self):
        pass

    def _is_alive(self):
        return self.exitcode is None


def mkpool(workers):
    p = pool.Pool.__new__(pool.Pool)
    p._cache = {}
    p._pool = list(workers)
    p._poolctrl = {w.pid: None for w in workers}
    p._on_ready_counters = {w.pid: None for w in workers}
    p.on_process_down = None
    return p


def scenarios(ob):
    clock = [1000.0]
    pool.monotonic = lambda: clock[0]
    out = []
    if 'grace_period' in ob:
        for shutdown, workers in ((True, []), (False, []), (True, [FakeWorker(7)]), (False, [FakeWorker(7)])):
            p = mkpool(workers)
            job = pool.ApplyResult(p._cache, None, lost_worker_timeout=10.0)
            job._ack(None, 900.0, 4242, None)
            job._worker_lost = (950.0, -9)          # detected 50 s ago, timeout 10 s
            try:
                p._join_exited_workers(shutdown=shutdown)
            except pool.WorkersJoined:
                pass
            if not job.ready():
                out.append('shutdown=%s, %d worker(s) left: job lost 50 s ago (timeout 10 s) is still unresolved '
                           'after the tick -- the caller waits forever' % (shutdown, len(workers)))
    elif 'registries' in ob or 'frame.Pool' in ob:
        dead = FakeWorker(99, exitcode=155)
        p = mkpool([FakeWorker(4242), dead])
        before = (p._on_ready_counters, p._poolctrl, p._pool, p._cache)
        p._join_exited_workers()
        after = (p._on_ready_counters, p._poolctrl, p._pool, p._cache)
        for name, a, b in zip(('_on_ready_counters', '_poolctrl', '_pool', '_cache'), before, after):
            if a is not b:
                out.append('reaping worker 99 replaced Pool.%s by a new object: the result handler / supervisor keep '
                           'using the old one (now %r, pool has %r)' % (name, a, b))
    elif 'never_replaced' in ob:
        # the owner of the job is killed and reaped (loss recorded at t); afterwards other workers keep being
        # recycled, one every 6 s: the record must keep its time and status, and the job must fail once its
        # timeout (10 s) is over
        owner = FakeWorker(1, exitcode=-9)
        others = [FakeWorker(10 + k) for k in range(6)]
        p = mkpool([owner] + others)
        job = pool.ApplyResult(p._cache, None, lost_worker_timeout=10.0)
        job._ack(None, 999.0, 1, None)
        p._join_exited_workers()
        first = job._worker_lost
        for w in others:
            clock[0] += 6.0
            w.exitcode = 155
            p._join_exited_workers()
            if not job.ready() and job._worker_lost != first:
                out.append('job lost with its worker at t=1000 (record %r): reaping recycled worker %d at t=%.0f replaced the '
                           'record by %r -- the grace period starts again and the exit status is forgotten' % (
                               first, w.pid, clock[0], job._worker_lost))
                break
        if not out and not job.ready():
            out.append('job lost at t=1000 with a timeout of 10 s is still unresolved at t=%.0f' % clock[0])
    elif 'exit_status' in ob:
        # which worker died decides the status in the record, wherever it stands in the worker list and whoever else
        # exits in the same tick
        for owner_at, statuses in ((0, [-9, None, None]), (2, [None, None, -9]), (1, [None, 3, None]), (0, [-9, 70, None]),
                                   (1, [70, -9, None])):
            ws = [FakeWorker(100 + i, exitcode=st) for i, st in enumerate(statuses)]
            p = mkpool(ws)
            job = pool.ApplyResult(p._cache, None)
            job._ack(None, 900.0, 100 + owner_at, None)
            p._join_exited_workers()
            want = statuses[owner_at]
            if job._worker_lost is None or job._worker_lost[1] != want:
                out.append('workers %r exit with %r in one tick; the job of worker %d got the loss record %r (expected status %r)' % (
                    [w.pid for w in ws], statuses, 100 + owner_at, job._worker_lost, want))
                break
    elif 'reaps_nothing' in ob:
        # D12: the worker that accepted the job was reaped before its ACK was handled; no other worker exits afterwards
        p = mkpool([FakeWorker(7), FakeWorker(8)])
        job = pool.ApplyResult(p._cache, None, lost_worker_timeout=10.0)
        job._ack(None, 999.0, 4242, None)           # 4242 is not in the pool any more
        for tick in range(30):
            clock[0] += 5.0
            p._join_exited_workers()
        if not job.ready() and not job._worker_lost:
            out.append('job accepted by worker 4242, which had been reaped before its ACK was handled; no other worker exits: '
                       'after 30 ticks (150 s, lost-worker timeout 10 s) the job has no loss record -- the caller waits forever')
    elif 'vanished_worker' in ob or 'gone_worker' in ob:
        # the worker that accepted the job was reaped in an earlier tick, before its ACK was handled; a later tick
        # reaps another worker: the job must get its loss record then
        other = FakeWorker(99, exitcode=155)
        p = mkpool([FakeWorker(7), other])
        job = pool.ApplyResult(p._cache, None)
        job._ack(None, 900.0, 4242, None)           # 4242 is not in the pool any more
        p._join_exited_workers()
        if not job.ready() and not job._worker_lost:
            out.append('job accepted by worker 4242, which is no longer in the pool; worker 99 reaped in this tick: the job '
                       'got no loss record (it will never fail with WorkerLostError)')
    elif 'reaped_worker_is_marked' in ob:
        dead = FakeWorker(4242, exitcode=-9)
        p = mkpool([FakeWorker(7), dead])
        job = pool.ApplyResult(p._cache, None)
        job._ack(None, 900.0, 4242, None)
        p._join_exited_workers()
        if not job.ready() and not job._worker_lost:
            out.append('worker 4242 (owner of the job) exited with -9 and was reaped, but the job was not marked lost')
    else:
        dead = FakeWorker(99, exitcode=155)
        p = mkpool([FakeWorker(4242), dead])
        job = pool.ApplyResult(p._cache, None)
        job._ack(None, 900.0, 4242, None)
        p._join_exited_workers()
        if job._worker_lost or job.ready():
            out.append('worker 99 exited (recycle); the job accepted by live worker 4242 was marked lost: %r' % (job._worker_lost,))
    return out


def main():
    data = json.load(open(sys.argv[1]))
    ob = data['obligation']
    print('replay of %s / %s' % (data['function'], ob))
    if 'bounded_cross_check' in ob or os.environ.get('PYVC_SEARCH'):
        # thorough tier, or a proof step that no longer goes through: every scenario group
        bad = []
        known = data.get('known_finding_obligations', [])
        if known:
            print('  known findings skipped: %s' % ', '.join(known))
        for name in ('grace_period', 'registries', 'never_replaced', 'vanished_worker', 'reaps_nothing', 'exit_status', 'reaped_worker_is_marked', 'other'):
            # (a scenario group is left out only for the recorded finding it reproduces: D12 <-> reaps_nothing)
            if name == 'reaps_nothing' and any(k.endswith('in_a_tick_that_reaps_nothing') for k in known):
                continue
            bad += scenarios(name)
    else:
        bad = scenarios(ob)
    for b in bad:
        print('  violation on real code: ' + b)
    print('REPRODUCED on real code' if bad else 'not reproduced')
    sys.exit(1 if bad else 0)


main()
