"""Replay / bounded cross-check for C17 on the real code (threads of one process,
generous time-outs): Event set / clear / is_set / wait sequences against a
reference flag, the flag semaphore never above 1; Condition: notify with 0..3
sleeping threads wakes exactly min(1, n), notify_all wakes all, a timed wait
that expires returns False and is not counted as a sleeper by the next notify,
wait without the lock asserts.
"""
import itertools
import json
import sys
import threading
import time

import billiard


def flag_value(ev):
    return ev._flag._semlock._get_value()


def scen_event(ctx):
    bad = []
    for ops in itertools.product(('set', 'clear', 'is_set', 'wait0'), repeat=4):
        ev = ctx.Event()
        ref = False
        for op in ops:
            if op == 'set':
                ev.set(); ref = True
            elif op == 'clear':
                ev.clear(); ref = False
            elif op == 'is_set':
                if ev.is_set() != ref:
                    bad.append('%r: is_set() = %r, expected %r' % (ops, not ref, ref))
            else:
                if ev.wait(0) != ref:
                    bad.append('%r: wait(0) = %r, expected %r' % (ops, not ref, ref))
            if flag_value(ev) != (1 if ref else 0):
                bad.append('%r: after %s the flag semaphore holds %d' % (ops, op, flag_value(ev)))
            if bad:
                return bad
    ev = ctx.Event()
    out = []
    t = threading.Thread(target=lambda: out.append(ev.wait(5)), daemon=True)
    t.start(); time.sleep(0.1); ev.set(); t.join(5)
    if out != [True]:
        bad.append('a waiter blocked before set() got %r' % (out,))
    t0 = time.monotonic()
    ev2 = ctx.Event()
    if ev2.wait(0.2) is not False or time.monotonic() - t0 < 0.19:
        bad.append('wait(0.2) on an event that is never set: returned early or True')
    return bad


def scen_condition(ctx):
    bad = []
    for n in range(0, 4):
        for how in ('notify', 'notify_all'):
            cond = ctx.Condition()
            woken = []
            started = []

            def sleeper(k):
                with cond:
                    started.append(k)
                    woken.append((k, cond.wait(3)))
            ts = [threading.Thread(target=sleeper, args=(k,), daemon=True) for k in range(n)]
            for t in ts:
                t.start()
            t0 = time.monotonic()
            while time.monotonic() - t0 < 3:
                with cond:
                    if len(started) == n and cond._sleeping_count._semlock._get_value() - \
                            cond._woken_count._semlock._get_value() == n:
                        break
                time.sleep(0.01)
            with cond:
                getattr(cond, how)()
            time.sleep(0.3)
            got = len([1 for _, r in woken if r])
            want = min(1, n) if how == 'notify' else n
            if got != want:
                bad.append('%s() with %d waiters woke %d (expected %d)' % (how, n, got, want))
            with cond:
                cond.notify_all()
            for t in ts:
                t.join(5)
    cond = ctx.Condition()
    with cond:
        r = cond.wait(0.1)            # nobody notifies: times out
    if r is not False:
        bad.append('a timed wait nobody notified returned %r' % (r,))
    with cond:
        cond.notify()                 # must write the timed-out waiter off, not hang or leave a token
        if cond._wait_semaphore._semlock._get_value() != 0:
            bad.append('notify() after a timed-out wait left a wake-up token behind')
    try:
        cond.wait(0)
        bad.append('wait() without holding the lock did not raise')
    except AssertionError:
        pass
    return bad


class Hooked:
    """a real billiard semaphore with a callback before / after release (to pin one schedule down)"""
    def __init__(self, real, before=None, after=None):
        self._real, self._semlock, self._before, self._after = real, real._semlock, before, after

    def acquire(self, *a):
        return self._real.acquire(*a)

    def release(self):
        if self._before:
            self._before()
        self._real.release()
        if self._after:
            self._after()

    def get_value(self):
        return self._real.get_value()


def scen_timeouts_inside_notify(ctx):
    """k timed waiters time out while notify_all() / notify() sits between taking them off the sleeper count and handing
    out the first wake-up token: afterwards no token may be left and the three counters are zero"""
    bad = []
    for kind in ('notify_all', 'notify'):
        for k in (1, 2, 3):
            cond = ctx.Condition()
            st = {'acks': 0, 'tokens': 0}
            guard = threading.Lock()
            all_out = threading.Event()
            need = k if kind == 'notify_all' else 1

            def after_ack():
                with guard:
                    st['acks'] += 1
                    if st['acks'] >= need:
                        all_out.set()

            def before_token():
                with guard:
                    st['tokens'] += 1
                    first = st['tokens'] == 1
                if first:
                    all_out.wait(5)
            cond._woken_count = Hooked(cond._woken_count, after=after_ack)
            cond._wait_semaphore = Hooked(cond._wait_semaphore, before=before_token)
            res = []

            def waiter():
                with cond:
                    res.append(cond.wait(0.3))
            ts = [threading.Thread(target=waiter, daemon=True) for _ in range(k)]
            for t in ts:
                t.start()
            t0 = time.monotonic()
            while cond._sleeping_count.get_value() < k and time.monotonic() - t0 < 5:
                time.sleep(0.005)
            with cond:
                getattr(cond, kind)()
            for t in ts:
                t.join(5)
            # let waiters that were not notified (notify wakes one) run into their timeout
            vals = (cond._sleeping_count.get_value(), cond._woken_count.get_value(), cond._wait_semaphore.get_value())
            if any(t.is_alive() for t in ts):
                bad.append('%s with %d timed waiters: a waiter never returned' % (kind, k))
                continue
            try:
                with cond:
                    cond.notify_all()          # reconciles what the timed-out waiters left (asserts a consistent state)
                    late = cond.wait(0.1)
            except AssertionError:
                bad.append('%s while %d waiters timed out: the next notify_all() found a wake-up token left over '
                           '(sleeping, woken, tokens after the call: %r)' % (kind, k, vals))
                continue
            if late:
                bad.append('%s while %d waiters timed out: a later wait(0.1) with no notifier returned True -- a wake-up '
                           'token was left over (sleeping, woken, tokens after the call: %r)' % (kind, k, vals))
            elif kind == 'notify_all' and vals[2] != 0:
                bad.append('notify_all while %d waiters timed out left %d wake-up tokens' % (k, vals[2]))
    return bad


def scen_announce_under_lock(ctx):
    """a waiter is held up for a moment just before it announces itself as a sleeper; a notifier that comes along in that
    moment must not overlook it (the waiter still holds the condition's lock while it announces)"""
    bad = []
    for kind in ('notify', 'notify_all', 'event'):
        ev = ctx.Event() if kind == 'event' else None
        cond = ev._cond if ev else ctx.Condition()
        state = {'first': True}
        at_announce = threading.Event()

        def before_announce():
            if state['first']:
                state['first'] = False
                at_announce.set()
                time.sleep(0.3)
        cond._sleeping_count = Hooked(cond._sleeping_count, before=before_announce)
        res = []

        def waiter():
            if ev:
                res.append(ev.wait(3))
            else:
                with cond:
                    res.append(cond.wait(3))
        t = threading.Thread(target=waiter, daemon=True)
        t.start()
        if not at_announce.wait(5):
            bad.append('%s: the waiter never reached its announcement' % kind)
            continue
        if ev:
            ev.set()
        else:
            with cond:
                getattr(cond, kind)()
        t.join(6)
        if res != [True]:
            bad.append('%s issued while a waiter was inside wait() (just before announcing itself): the waiter was not '
                       'woken (wait returned %r) -- lost wake-up' % (kind, res))
    return bad


def scen_clear_inside_is_set(ctx):
    """is_set() / wait() test the flag in two steps (take the token, put it back); a clear() that comes in between must
    wait for them (the condition's lock): afterwards the event is clear"""
    bad = []
    for reader in ('is_set', 'wait'):
        ev = ctx.Event()
        ev.set()
        real = ev._flag
        in_gap = threading.Event()
        st = {'first': True}

        class Gap:
            _semlock = real._semlock

            def acquire(self, *a):
                r = real.acquire(*a)
                if r and st['first'] and threading.current_thread().name == 'reader':
                    st['first'] = False
                    in_gap.set()
                    time.sleep(0.3)         # the reader sits between its two steps
                return r

            def release(self):
                return real.release()

            def get_value(self):
                return real.get_value()
        ev._flag = Gap()
        t = threading.Thread(target=(ev.is_set if reader == 'is_set' else lambda: ev.wait(1)), name='reader', daemon=True)
        t.start()
        if not in_gap.wait(5):
            bad.append('%s: the reader never took the flag token' % reader)
            continue
        ev.clear()
        t.join(5)
        ev._flag = real
        if ev.is_set():
            bad.append('clear() returned while %s() was between its two steps on the flag; afterwards the event is still '
                       'set -- the clear was lost' % reader)
    return bad


def scen_timeouts_then_notify(ctx):
    """k timed waits expire with no notify in between, then one thread waits and notify() is called: it is woken"""
    bad = []
    for k in (1, 2, 3):
        cond = ctx.Condition()
        for _ in range(k):
            with cond:
                if cond.wait(0.01):
                    bad.append('a timed wait with nobody notifying returned True')
        res = []

        def waiter():
            with cond:
                res.append(cond.wait(3))
        t = threading.Thread(target=waiter, daemon=True)
        t.start()
        t0 = time.monotonic()
        while time.monotonic() - t0 < 3:
            with cond:
                if cond._sleeping_count._semlock._get_value() - cond._woken_count._semlock._get_value() == 1:
                    break
            time.sleep(0.01)
        time.sleep(0.2)          # the waiter is blocked on the wait semaphore by now
        with cond:
            cond.notify()
        t.join(5)
        if res != [True]:
            bad.append('after %d expired timed waits, the only waiter was not woken by notify(): %r (sleeping %d, woken %d)' % (
                k, res, cond._sleeping_count._semlock._get_value(), cond._woken_count._semlock._get_value()))
    return bad


def main():
    data = json.load(open(sys.argv[1]))
    print('replay of %s / %s' % (data['function'], data['obligation']))
    ctx = billiard.get_context()
    bad = scen_event(ctx) + scen_condition(ctx) + scen_timeouts_inside_notify(ctx) + scen_announce_under_lock(ctx) + scen_clear_inside_is_set(ctx) + scen_timeouts_then_notify(ctx)
    for b in bad[:8]:
        print('  violation on real code: ' + b)
    print('REPRODUCED on real code' if bad else 'not reproduced')
    sys.stdout.flush()
    import os
    os._exit(1 if bad else 0)


main()
