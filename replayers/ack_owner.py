"""Replay / bounded cross-check for the parent side of the handshake
(ApplyResult._ack through the result handler's on_ack) on the real code: real
handles with no / a well-behaved / a raising accept callback, with and without
the SYN/ACK handshake, cancelled or not.

Checked: whenever the job is not refused (NACK sent to a worker that waits for
it), the worker that accepted it is recorded as its owner together with the
acceptance time -- that record is what the supervision tick matches exited
workers against; the accept callback runs once with (pid, time); a cancelled
job with the handshake on is refused and gets no owner.
"""
import itertools
import json
import sys

import billiard.pool as pool
from billiard.common import restart_state


def run(callback, synack, cancelled, resolved_first=False):
    cache = {}
    calls, acks = [], []

    def cb(pid, t):
        calls.append((pid, t))
        if callback == 'raises':
            raise RuntimeError('accept callback failed')
    job = pool.ApplyResult(cache, None, accept_callback=None if callback == 'none' else cb,
                           send_ack=(lambda resp, pid, jid, fd: acks.append((resp, pid, jid))) if synack else None)
    if cancelled:
        job._cancelled = True
    if resolved_first:
        job._set(job._job, (True, 'the result overtook the ACK'))
    rh = pool.ResultHandler.__new__(pool.ResultHandler)
    rh.cache, rh.putlock, rh.restart_state = cache, None, restart_state(5, 10.0)
    rh.on_ready_counters = {}
    rh.join_exited_workers = rh.on_job_ready = rh.check_timeouts = None
    rh._make_methods()
    rh.state_handlers[pool.ACK](job._job, None, 900.0, 4242, 7 if synack else None)
    refused = synack and acks and acks[-1][0] == pool.NACK
    bad = []
    what = 'accept callback %s, handshake %s, cancelled %s' % (callback, 'on' if synack else 'off', cancelled)
    if not refused and not (cancelled and synack):
        if job._worker_pid != 4242 or job._time_accepted != 900.0:
            bad.append('%s: the job was accepted by worker 4242 (which runs it) but its recorded owner is %r, acceptance time '
                       '%r: if that worker dies the job is never reported lost' % (what, job._worker_pid, job._time_accepted))
    if cancelled and synack and (job._worker_pid or acks != [(pool.NACK, 4242, job._job)]):
        bad.append('%s: a cancelled job must be refused and get no owner: owner %r, answers %r' % (what, job._worker_pid, acks))
    if callback != 'none' and not (cancelled and synack) and calls != [(4242, 900.0)]:
        bad.append('%s: accept callback calls %r' % (what, calls))
    if resolved_first and not (cancelled and synack) and job._job in cache:
        bad.append('%s: the result arrived before the ACK; after the ACK the resolved job is still in the cache (a late '
                   'duplicate result would be accepted and change the outcome)' % what)
    return bad


def main():
    data = json.load(open(sys.argv[1]))
    print('replay of %s / %s' % (data['function'], data['obligation']))
    found = []
    for callback, synack, cancelled in itertools.product(('none', 'ok', 'raises'), (False, True), (False, True)):
        found += run(callback, synack, cancelled)
        found += run(callback, synack, cancelled, resolved_first=True)
    for b in found[:4]:
        print('  violation on real code: ' + b)
    print('REPRODUCED on real code' if found else 'not reproduced')
    sys.exit(1 if found else 0)


main()
