"""Replay for C10 / pool.TaskHandler.body: a job that took a slot cannot be
sent (put raises); it is resolved with the failure -- is its slot given back?"""
from _lib import replay_main
import billiard.pool as pool


def build(model, data):
    sem = pool.LaxBoundedSemaphore(2)
    sem.acquire()                       # the slot apply_async took for the job
    cache = {}
    j = pool.ApplyResult({}, None)
    j._cache = cache
    j._job = 7
    cache[7] = j

    class Q:
        def __init__(self):
            self.items = [([(pool.TASK, (7, None, len, ((),), {}))], None), None]

        def get(self):
            return self.items.pop(0)

    def put(task):
        if task is not None:
            raise ValueError('cannot pickle task')
    th = pool.TaskHandler.__new__(pool.TaskHandler)
    th.taskqueue, th.put, th.outqueue, th.pool, th.cache = Q(), put, Q(), [], cache
    th._state = pool.RUN
    th.tell_others = lambda: None

    def custom(outcome, result, exc):
        print('  job resolved: %s; free slots: %d of %d; no worker ever had the job' % (
            j.ready(), sem._value, sem._initial_value))
        return j.ready() and sem._value < sem._initial_value
    return {'call': th.body, 'env': {}, 'custom': custom}


replay_main(build)
