"""Replay / bounded cross-check for C16 on the real code, in one process: real
billiard Queue / JoinableQueue objects (pipe + feeder thread), sequences of
put / get with capacities 1..3, items of several sizes (one larger than the pipe
buffer), timed and non-blocking calls on full / empty queues, task_done / join
counting.  Checked: everything put comes out once, unchanged, in order;
Full / Empty exactly when the capacity / emptiness says so; a timed get on an
empty queue raises Empty not before its timeout; task_done beyond the number of
puts raises ValueError; join() returns at once when nothing is unfinished.
"""
import itertools
import json
import queue as stdq
import sys
import threading
import time

import billiard


def scen():
    bad = []
    ctx = billiard.get_context()
    items = [0, 'x', b'y' * 10, list(range(50)), 'big' * 50000]
    # FIFO / exactly once / unchanged
    q = ctx.Queue()
    for it in items:
        q.put(it)
    got = [q.get(timeout=10) for _ in items]
    if got != items:
        bad.append('put %d items, got back %r' % (len(items), [str(g)[:10] for g in got]))
    try:
        q.get(block=False)
        bad.append('non-blocking get on an empty queue returned an item')
    except stdq.Empty:
        pass
    t0 = time.monotonic()
    try:
        q.get(timeout=0.3)
        bad.append('timed get on an empty queue returned an item')
    except stdq.Empty:
        if time.monotonic() - t0 < 0.29:
            bad.append('timed get(0.3) on an empty queue raised Empty after %.3f s' % (time.monotonic() - t0))
    # capacity
    for cap in (1, 2, 3):
        q = ctx.Queue(cap)
        for k in range(cap):
            q.put(k, block=False)
        try:
            q.put('over', block=False)
            bad.append('Queue(%d): put number %d did not raise Full' % (cap, cap + 1))
        except stdq.Full:
            pass
        t0 = time.monotonic()
        try:
            q.put('over', timeout=0.2)
            bad.append('Queue(%d): timed put on a full queue succeeded' % cap)
        except stdq.Full:
            if time.monotonic() - t0 < 0.19:
                bad.append('Queue(%d): timed put(0.2) raised Full after %.3f s' % (cap, time.monotonic() - t0))
        if q.get(timeout=10) != 0:
            bad.append('Queue(%d): first item out is not the first put' % cap)
        try:
            q.put('fits', block=False)         # one place was given back
        except stdq.Full:
            bad.append('Queue(%d): a get did not give a place back' % cap)
        rest = []
        try:
            while True:
                rest.append(q.get(timeout=0.5))
        except stdq.Empty:
            pass
        if rest != list(range(1, cap)) + ['fits']:
            bad.append('Queue(%d): remaining items %r' % (cap, rest))
    # JoinableQueue
    jq = ctx.JoinableQueue()
    done = []
    t = threading.Thread(target=lambda: (jq.join(), done.append(1)), daemon=True)
    t.start(); t.join(2)
    if not done:
        bad.append('JoinableQueue.join() blocks although nothing was put')
    for k in range(3):
        jq.put(k)
    for k in range(3):
        jq.get(timeout=10)
    done = []
    t = threading.Thread(target=lambda: (jq.join(), done.append(1)), daemon=True)
    t.start(); t.join(0.3)
    if done:
        bad.append('JoinableQueue.join() returned with 3 unfinished tasks')
    jq.task_done(); jq.task_done()
    t.join(0.3)
    if done:
        bad.append('JoinableQueue.join() returned with 1 unfinished task')
    jq.task_done()
    t.join(5)
    if not done:
        bad.append('JoinableQueue.join() did not return after the last task_done()')
    try:
        jq.task_done()
        bad.append('task_done() called more often than put() did not raise')
    except ValueError:
        pass
    # a put that is refused (bounded queue at capacity) is not an unfinished task
    bq = ctx.JoinableQueue(1)
    bq.put('only')
    refused = 0
    for attempt in (lambda: bq.put_nowait('x'), lambda: bq.put('y', True, 0.05), lambda: bq.put('z', False)):
        try:
            attempt()
            bad.append('JoinableQueue(1): a put into the full queue did not raise Full')
        except stdq.Full:
            refused += 1
    got = bq.get(timeout=10)
    bq.task_done()
    done = []
    t = threading.Thread(target=lambda: (bq.join(), done.append(1)), daemon=True)
    t.start(); t.join(3)
    if got != 'only' or not done:
        bad.append('JoinableQueue(1): %d puts were refused with Full, the one item (%r) was taken and marked done, but join() '
                   'does not return: refused puts were counted as unfinished tasks' % (refused, got))
    try:
        bq.task_done()
        bad.append('JoinableQueue(1): a task_done() beyond the accepted puts did not raise (refused puts were counted)')
    except ValueError:
        pass
    return bad


def scen_joiners(ctx):
    """every caller blocked in join() returns once the last task is done"""
    bad = []
    jq = ctx.JoinableQueue()
    jq.put('only')
    done = []
    ts = [threading.Thread(target=lambda k=k: (jq.join(), done.append(k)), daemon=True) for k in range(3)]
    for t in ts:
        t.start()
    time.sleep(0.3)
    jq.get(timeout=10)
    jq.task_done()
    for t in ts:
        t.join(3)
    if sorted(done) != [0, 1, 2]:
        bad.append('JoinableQueue: three callers were blocked in join(); after the last task_done() only %r returned' % (sorted(done),))
    return bad


def scen_get_modes(ctx):
    """every way of taking an item out gives its place back: after maxsize items were put and taken -- in each mix of
    blocking, timed and non-blocking gets -- maxsize further puts must be accepted at once"""
    bad = []
    for modes in itertools.product(('block', 'timed', 'nowait'), repeat=2):
        q = ctx.Queue(2)
        q.put('a'); q.put('b')
        got = []
        for m in modes:
            t0 = time.monotonic()
            while True:
                try:
                    got.append(q.get() if m == 'block' else q.get(True, 2.0) if m == 'timed' else q.get_nowait())
                    break
                except stdq.Empty:
                    if time.monotonic() - t0 > 5:
                        break
                    time.sleep(0.01)
        if got != ['a', 'b']:
            bad.append('Queue(2), gets %r: got %r' % (modes, got))
            continue
        try:
            q.put_nowait('c'); q.put_nowait('d')
        except stdq.Full:
            bad.append('Queue(2): after two items were put and taken out again (%s / %s get) the empty queue refuses a put '
                       'with Full: a get did not give its place back' % modes)
        try:
            while True:
                q.get(True, 0.3)            # leave nothing for the feeder to write into a closed pipe
        except stdq.Empty:
            pass
        q.close(); q.join_thread()
    return bad


def scen_simple(ctx):
    """SimpleQueue: every pipe operation happens with its lock held, the locks are free afterwards, objects round-trip"""
    bad = []
    sq = ctx.SimpleQueue()
    held = []

    class Spy:
        def __init__(self, real, lock, what):
            self.real, self.lock, self.what = real, lock, what

        def recv_bytes(self, *a):
            held.append((self.what, self.lock is None or self.lock._semlock._is_mine()))
            return self.real.recv_bytes(*a)

        def send_bytes(self, *a):
            held.append((self.what, self.lock is None or self.lock._semlock._is_mine()))
            return self.real.send_bytes(*a)

        def __getattr__(self, n):
            return getattr(self.real, n)
    sq._reader = Spy(sq._reader, sq._rlock, 'read')
    sq._writer = Spy(sq._writer, sq._wlock, 'write')
    items = [0, 'x', (1, [2, 3]), None, {'k': b'v'}]
    for it in items:
        sq.put(it)
    got = [sq.get() for _ in items]
    if got != items:
        bad.append('SimpleQueue: put %r, got %r' % (items, got))
    if len(held) != 2 * len(items) or not all(h for _, h in held):
        bad.append('SimpleQueue: pipe operations and whether their lock was held: %r' % (held,))
    for name, lock in (('reader', sq._rlock), ('writer', sq._wlock)):
        if lock is not None:
            if not lock.acquire(False):
                bad.append('SimpleQueue: the %s lock is still held after the operations' % name)
            else:
                lock.release()
    return bad


def scen_close():
    """the stop request of close() goes behind everything already buffered (the feeder stops at it)"""
    import collections
    import threading
    import billiard.queues as Q
    bad = []
    for n in range(0, 4):
        buf = collections.deque('item%d' % k for k in range(n))
        cond = threading.Condition(threading.Lock())
        Q.Queue._finalize_close(buf, cond)
        want = ['item%d' % k for k in range(n)] + [Q._sentinel]
        if list(buf) != want:
            bad.append('close() with %d objects still buffered: the buffer is %r -- the feeder stops at the sentinel, '
                       'what is behind it is never sent' % (n, ['<sentinel>' if x is Q._sentinel else x for x in buf]))
    return bad


def main():
    data = json.load(open(sys.argv[1]))
    print('replay of %s / %s' % (data['function'], data['obligation']))
    bad = scen_close() + scen() + scen_simple(billiard.get_context()) + scen_get_modes(billiard.get_context()) + scen_joiners(billiard.get_context())
    for b in bad[:8]:
        print('  violation on real code: ' + b)
    print('REPRODUCED on real code' if bad else 'not reproduced')
    sys.stdout.flush()
    import os
    os._exit(1 if bad else 0)      # feeder threads / helper processes are not waited for


main()
