"""Replay / bounded search for connection.Connection._send/_recv/_send_bytes/
_recv_bytes on the real code, with os.write / os.read scripted to return the
short counts and errors of a schedule.

Model replay: the schedule is what the solver's counter-model recorded for the
externals (ext:write_n#k, ext:write_errno#k, ext:read_n#k ...).
Search mode (PYVC_SEARCH=1; used when only loop-invariant obligations fail, so
the counter-model is a loop-head state, not an input): all messages of length
0..5 under all schedules of short writes/reads and EINTRs up to a bound.  The
search is *bounded* and is reported as such."""
import errno
import itertools
import json
import os
import struct
import sys

import billiard.connection as connection

STEP_LIMIT = 64
connection.Connection._close = lambda self, *a: None    # scripted handles: nothing to close


class Script:
    def __init__(self, schedule, stream=b''):
        self.schedule = list(schedule)     # ints (short count) or ('err', errno)
        self.wire = bytearray()
        self.stream = stream
        self.rpos = 0
        self.steps = 0

    def _next(self, default):
        self.steps += 1
        if self.steps > STEP_LIMIT:
            raise RuntimeError('step limit: loop does not terminate')
        return self.schedule.pop(0) if self.schedule else default

    def write(self, h, buf):
        buf = bytes(buf)
        step = self._next(len(buf))
        if isinstance(step, tuple):
            raise OSError(step[1], 'scripted')
        n = min(max(step, 1 if buf else 0), len(buf))
        self.wire += buf[:n]
        return n

    def read(self, h, k):
        step = self._next(k)
        if isinstance(step, tuple):
            raise OSError(step[1], 'scripted')
        avail = len(self.stream) - self.rpos
        n = min(max(step, 1), k, avail) if avail > 0 else 0
        chunk = self.stream[self.rpos:self.rpos + n]
        self.rpos += n
        return chunk


def conn():
    c = connection.Connection.__new__(connection.Connection)
    c._handle, c._readable, c._writable = 9, True, True
    return c


def check_send(fn, payload, schedule):
    """-> None if fine, else a description of the violation"""
    s = Script(schedule)
    c = conn()
    try:
        if fn == '_send':
            c._send(payload, write=s.write)
            expect = payload
        else:
            real = connection.Connection._send
            connection.Connection._send = lambda self, buf, write=None: real(self, buf, s.write)
            try:
                c._send_bytes(memoryview(payload) if len(payload) % 2 else payload)
            finally:
                connection.Connection._send = real
            expect = struct.pack('!i', len(payload)) + payload
    except OSError as e:
        if e.errno == errno.EINTR:
            return 'EINTR escaped: %r' % e
        return None if bytes(s.wire) == expect[:len(s.wire)] else 'wrong bytes before error'
    except RuntimeError as e:
        return str(e)
    if bytes(s.wire) != expect:
        return 'wire %r != message %r' % (bytes(s.wire), expect)
    return None


def check_recv(fn, payload, schedule, cut=None, tail=b''):
    """tail: bytes of the next message, already queued behind this one (only with a complete stream)"""
    data = payload if fn == '_recv' else struct.pack('!i', len(payload)) + payload
    stream = data + tail if cut is None else data[:cut]
    s = Script(schedule, stream)
    c = conn()
    try:
        if fn == '_recv':
            got = c._recv(len(payload), read=s.read).getvalue()
        else:
            real = connection.Connection._recv
            connection.Connection._recv = lambda self, size, read=None: real(self, size, s.read)
            try:
                r = c._recv_bytes()
                got = r.getvalue()
            finally:
                connection.Connection._recv = real
    except EOFError:
        if cut is not None and (cut == 0 or (fn == '_recv_bytes' and cut == 0)):
            return None
        if cut is not None and s.rpos == len(stream) and (s.rpos == 0 or (fn == '_recv_bytes' and s.rpos == 4)):
            return None
        return 'EOFError although %d bytes of the message had been read' % s.rpos if cut is not None else 'EOFError on a complete stream'
    except OSError as e:
        if e.errno == errno.EINTR:
            return 'EINTR escaped'
        return None if (cut is not None or e.errno is not None) else 'OSError on a complete stream: %r' % e
    except RuntimeError as e:
        return str(e)
    if cut is not None and cut < len(data):
        return 'short stream delivered %r' % got
    if got != payload:
        return 'received %r != sent %r%s' % (got, payload, ' (the next message %r was queued behind it)' % tail if tail else '')
    if cut is None and s.rpos != len(data):
        return 'consumed %d bytes of the stream for a message of %d (the next message %r was queued behind it)' % (
            s.rpos, len(data), tail)
    return None


def check_limits():
    """a receiver's size limit is never exceeded: _recv_bytes(maxsize) hands out None (-> recv_bytes raises
    "bad message length") for every message longer than maxsize, for every maxsize including 0"""
    for maxsize in (0, 1, 4):
        for ln in (0, 1, 2, 5, 9):
            payload = bytes(range(65, 65 + ln))
            s = Script([], struct.pack('!i', ln) + payload)
            c = conn()
            real = connection.Connection._recv
            connection.Connection._recv = lambda self, size, read=None: real(self, size, s.read)
            try:
                r = c._recv_bytes(maxsize)
            finally:
                connection.Connection._recv = real
            if ln > maxsize and r is not None:
                return 'a message of %d bytes was handed out although the receiver allows at most %d' % (ln, maxsize)
            if ln <= maxsize and (r is None or r.getvalue() != payload):
                return 'a message of %d bytes (limit %d) was not delivered' % (ln, maxsize)
    return None


def check_objects():
    """send(obj) / recv() over a real pipe: one framed message per object, objects come back equal and in order"""
    import pickle
    r, w = os.pipe()
    cw, cr = connection.Connection(w, readable=False), connection.Connection(r, writable=False)
    try:
        objs = [0, 'text', (1, [2, 3]), {'k': b'v'}, None, b'x' * 70000 if False else b'x' * 1000]
        sent = []
        real = connection.Connection._send_bytes
        connection.Connection._send_bytes = lambda self, buf: (sent.append(bytes(buf)), real(self, buf))[1]
        try:
            for o in objs:
                cw.send(o)
        finally:
            connection.Connection._send_bytes = real
        if len(sent) != len(objs) or any(pickle.loads(b) != o for b, o in zip(sent, objs)):
            return 'send() of %d objects made %d framed messages / wrong payloads' % (len(objs), len(sent))
        got = [cr.recv() for _ in objs]
        if got != objs:
            return 'objects received %r, sent %r' % (got, objs)
        try:
            cr.send(1)
            return 'send() on a read-only connection did not raise'
        except OSError:
            pass
        try:
            cw.recv()
            return 'recv() on a write-only connection did not raise'
        except OSError:
            pass
    finally:
        cw.close()
        cr.close()
    return None


def check_into():
    """recv_bytes_into(buf, offset) over a real pipe: the message lands at the offset and nowhere else, or is refused
    whole (BufferTooShort carrying it) when it does not fit behind the offset"""
    for bufsize in (0, 4, 8):
        for offset in range(0, bufsize + 1):
            for ln in (0, 1, 4, 5, 8, 9):
                r, w = os.pipe()
                cw, cr = connection.Connection(w, readable=False), connection.Connection(r, writable=False)
                try:
                    msg = bytes(range(65, 65 + ln))
                    cw.send_bytes(msg)
                    cw.send_bytes(b'next')
                    buf = bytearray(b'.' * bufsize)
                    try:
                        n = cr.recv_bytes_into(buf, offset)
                        got = ('ok', n)
                    except connection.BufferTooShort as e:
                        got = ('short', e.args[0])
                    fits = offset + ln <= bufsize
                    if fits and (got != ('ok', ln) or bytes(buf) != b'.' * offset + msg + b'.' * (bufsize - offset - ln)):
                        return 'buffer of %d bytes, offset %d, message of %d: %r, buffer %r' % (bufsize, offset, ln, got, bytes(buf))
                    if not fits and (got != ('short', msg) or bytes(buf) != b'.' * bufsize):
                        return ('buffer of %d bytes, offset %d, message of %d bytes does not fit behind the offset: %r, '
                                'buffer now %r (expected BufferTooShort carrying the message, buffer untouched)' % (
                                    bufsize, offset, ln, got, bytes(buf)))
                    if cr.recv_bytes() != b'next':
                        return 'the message after it was not received intact'
                finally:
                    cw.close()
                    cr.close()
    return None


def search(fn):
    steps = [1, 2, 3, ('err', errno.EINTR)]
    for ln in range(0, 6):
        payload = bytes(range(65, 65 + ln))
        for depth in range(0, 5):
            for sched in itertools.product(steps, repeat=depth):
                if fn in ('_send', '_send_bytes'):
                    bad = check_send(fn, payload, sched)
                    if bad:
                        return {'payload': list(payload), 'schedule': [list(x) if isinstance(x, tuple) else x for x in sched]}, bad
                else:
                    total = ln if fn == '_recv' else ln + 4
                    for cut in [None, 'next'] + list(range(0, total)):
                        tail = b'\x00\x00\x00\x02ZZ' if cut == 'next' else b''
                        bad = check_recv(fn, payload, sched, None if cut == 'next' else cut, tail)
                        if bad:
                            return {'payload': list(payload), 'schedule': [list(x) if isinstance(x, tuple) else x for x in sched],
                                    'stream_cut_at': cut, 'queued_behind': list(tail)}, bad
    return None, None


def schedule_from_model(model, prefix):
    out = []
    keys = sorted((k for k in model if k.startswith('ext:' + prefix)), key=lambda k: int(k.split('#')[1]))
    for k in keys:
        v = model[k]
        out.append(('err', v) if 'errno' in k else v)
    return out


def check_wide():
    """send_bytes of bytes-like objects with items wider than a byte: offset and size count bytes of the content"""
    import array
    for code in ('i', 'd', 'H'):
        a = array.array(code, range(1, 8))
        raw = a.tobytes()
        for offset, size in ((0, None), (len(a) + 1, None), (len(raw) - 3, 3), (len(raw), None), (2, len(a) + 5)):
            r, wr = connection.Pipe(duplex=False)
            try:
                want = raw[offset:] if size is None else raw[offset:offset + size]
                try:
                    wr.send_bytes(a, offset) if size is None else wr.send_bytes(a, offset, size)
                except ValueError as e:
                    return "send_bytes(array(%r) of %d items = %d bytes, offset %d, size %r) refused: %s" % (
                        code, len(a), len(raw), offset, size, e)
                got = r.recv_bytes()
                if got != want:
                    return "send_bytes(array(%r) of %d items = %d bytes, offset %d, size %r) delivered %d bytes, expected %d" % (
                        code, len(a), len(raw), offset, size, len(got), len(want))
            finally:
                r.close()
                wr.close()
    return None


def main():
    data = json.load(open(sys.argv[1]))
    fn = data['function'].rsplit('.', 1)[1].split('@')[0]
    print('replay of %s / %s' % (data['function'], data['obligation']))
    if fn == 'send_bytes':
        bad = check_wide()
        if bad:
            print('  violation on real code: %s' % bad)
        print('REPRODUCED on real code' if bad else 'not reproduced')
        sys.exit(1 if bad else 0)
    if fn == 'recv_bytes_into':
        bad = check_into()
        if bad:
            print('  violation on real code: %s' % bad)
        print('REPRODUCED on real code' if bad else 'not reproduced')
        sys.exit(1 if bad else 0)
    if fn in ('send', 'recv'):
        bad = check_objects()
        if bad:
            print('  violation on real code: %s' % bad)
        print('REPRODUCED on real code' if bad else 'not reproduced')
        sys.exit(1 if bad else 0)
    if fn == '_recv_bytes':
        bad = check_limits()
        if bad:
            print('  violation on real code: %s' % bad)
            print('REPRODUCED on real code')
            sys.exit(1)
    if os.environ.get('PYVC_SEARCH'):
        found, bad = search(fn)
        if found:
            print('  bounded search (messages of 0..5 bytes, <= 4 short writes/reads/EINTRs, every cut point): FAILING INPUT')
            print('  input: %s' % json.dumps(found))
            print('  violation on real code: %s' % bad)
            print('REPRODUCED on real code')
            data['failing_input_found_by_bounded_search'] = found
            data['violation'] = bad
            json.dump(data, open(sys.argv[1], 'w'), indent=1, default=str)
            sys.exit(1)
        print('  bounded search found no failing input')
        print('not reproduced')
        sys.exit(0)
    model = data['model'] or {}
    buf = model.get('buf')
    payload = bytes(b & 0xff for b in buf['bytes']) if isinstance(buf, dict) and 'bytes' in buf else b'ABCDE'
    if fn in ('_send', '_send_bytes'):
        sched = []
        for k in sorted((k for k in model if k.startswith('ext:write')), key=lambda k: int(k.split('#')[1])):
            sched.append(('err', model[k]) if 'errno' in k else model[k])
        bad = check_send(fn, payload, sched)
    else:
        sched = []
        for k in sorted((k for k in model if k.startswith('ext:read')), key=lambda k: int(k.split('#')[1])):
            sched.append(('err', model[k]) if 'errno' in k else model[k])
        size = model.get('size', len(payload))
        payload = bytes(range(65, 65 + max(0, min(size if isinstance(size, int) else 5, 40))))
        send = model.get('g.send', 0) - model.get('g.rpos', 0)
        cut = None if not isinstance(send, int) or send >= len(payload) else max(send, 0)
        bad = check_recv(fn, payload, sched, cut)
    print('  message %r, schedule %r' % (payload, sched))
    if bad:
        print('  violation on real code: %s' % bad)
        print('REPRODUCED on real code')
        sys.exit(1)
    print('not reproduced')
    sys.exit(0)


main()
