"""Replay for the C09 pool-size functions on the real code: a Pool allocated
with __new__, process handles that take a new pid in start() instead of
forking, a context whose Value/Event are plain objects, a counting semaphore.

Scenarios cover: every pool size 0..4 against every target size 0..5, slot
indices in every arrangement with holes, grow/shrink by 0..3 with busy and
idle workers.  The clauses of the property are evaluated on what the real code
did.
"""
import itertools
import json
import sys

import billiard.pool as pool


class FakeValue:
    def __init__(self):
        self.value = 0


class Ctx:
    def Event(self):
        return object()

    def Value(self, code):
        return FakeValue()


class FakeProc:
    next_pid = [5000]
    forks = [0]

    def __init__(self, worker=None, index=None, started=False):
        self.worker, self.index = worker, index
        self.pid, self.exitcode, self._popen = None, None, None
        self.name = 'Process-1'
        self.daemon = False
        self._controlled_termination = False
        self._job_terminated = False
        self.stopped = 0
        if started:
            self.start()

    def start(self):
        FakeProc.next_pid[0] += 1
        FakeProc.forks[0] += 1
        self.pid, self._popen = FakeProc.next_pid[0], object()

    def join(self, timeout=None):
        pass

    def _is_alive(self):
        return self.exitcode is None

    def terminate_controlled(self):
        self._controlled_termination = True
        self.stopped += 1


class Sem:
    def __init__(self):
        self.grown = self.shrunk = self.released = 0

    def grow(self):
        self.grown += 1

    def shrink(self):
        self.shrunk += 1

    def release(self):
        self.released += 1


def mkpool(indices, processes, putlock=True):
    p = pool.Pool.__new__(pool.Pool)
    p._ctx = Ctx()
    p._state = pool.RUN
    p._processes = processes
    p._cache = {}
    p._pool = [FakeProc(index=i, started=True) for i in indices]
    p._poolctrl = {w.pid: None for w in p._pool}
    p._on_ready_counters = {w.pid: FakeValue() for w in p._pool}
    p._inqueue = p._outqueue = object()
    p._initializer, p._initargs, p._maxtasksperchild = None, (), None
    p._on_process_exit = None
    p.threads, p._wrap_exception, p._max_memory_per_child = True, True, None
    p.allow_restart = False
    p.on_process_up = p.on_process_down = None
    p.WorkerProcess = FakeProc
    p.Worker = lambda *a, **k: object()
    p.restart_state = pool.restart_state(10 ** 6, 1)
    p._putlock = Sem() if putlock else None
    return p


def invariant(p):
    bad = []
    idx = [w.index for w in p._pool]
    pids = [w.pid for w in p._pool]
    if len(set(idx)) != len(idx):
        bad.append('slot indices not distinct: %r' % (idx,))
    if len(set(pids)) != len(pids) or None in pids:
        bad.append('pids not distinct: %r' % (pids,))
    for w in p._pool:
        if w.pid not in p._poolctrl or w.pid not in p._on_ready_counters:
            bad.append('worker %r not registered' % (w.pid,))
    return bad


def arrangements():
    for size in range(0, 5):
        for idx in itertools.permutations(range(size + 2), size):
            yield list(idx)


def scen_avail():
    out = []
    for idx in arrangements():
        for processes in range(0, 7):
            p = mkpool(idx, processes)
            try:
                r = p._avail_index()
            except AssertionError:
                if len(idx) < processes:
                    out.append('_avail_index() refused with %d workers of %d' % (len(idx), processes))
                continue
            except StopIteration:
                out.append('_avail_index() raised StopIteration with indices %r of %d' % (idx, processes))
                continue
            if len(idx) >= processes:
                out.append('_avail_index() returned %r for a full pool (%d of %d)' % (r, len(idx), processes))
            elif not (0 <= r < processes) or r in idx:
                out.append('_avail_index() = %r with indices %r, size %d' % (r, idx, processes))
            if len(out) > 5:
                return out
    return out


def scen_create():
    out = []
    for idx in ([], [0], [2, 0]):
        p = mkpool(idx, 5)
        before = list(p._pool)
        forks = FakeProc.forks[0]
        ctrl = dict(p._poolctrl)
        w = p._create_worker_process(4)
        if p._pool[:-1] != before or p._pool[-1] is not w or len(p._pool) != len(before) + 1:
            out.append('_create_worker_process: worker list %d -> %d, new one last: %s' % (
                len(before), len(p._pool), p._pool and p._pool[-1] is w))
        if w.index != 4 or w.pid is None or FakeProc.forks[0] != forks + 1:
            out.append('_create_worker_process(4): index=%r pid=%r forks=+%d' % (w.index, w.pid, FakeProc.forks[0] - forks))
        if w.pid not in p._poolctrl or w.pid not in p._on_ready_counters or p._on_ready_counters[w.pid].value != 0:
            out.append('_create_worker_process: new worker %r not registered' % (w.pid,))
        if set(p._poolctrl) - {w.pid} != set(ctrl):
            out.append('_create_worker_process: other registry entries changed')
        out += invariant(p)
    return out


def scen_repopulate(tick=False):
    out = []
    for idx in arrangements():
        if len(idx) > 3:
            continue
        for processes in range(0, 6):
            for state in (pool.RUN, pool.CLOSE):
                p = mkpool(idx, processes)
                p._state = state
                n0, forks = len(p._pool), FakeProc.forks[0]
                if tick:
                    p._maintain_pool()
                else:
                    p._repopulate_pool([])
                n1 = len(p._pool)
                what = '%s with %d workers, size %d, state %d' % ('_maintain_pool' if tick else '_repopulate_pool', n0, processes, state)
                if state == pool.RUN and n1 != max(n0, processes):
                    out.append('%s: %d workers afterwards' % (what, n1))
                if n1 > max(n0, processes) or n1 < n0:
                    out.append('%s: %d workers afterwards (above the size / shrank)' % (what, n1))
                if FakeProc.forks[0] - forks != n1 - n0:
                    out.append('%s: %d forks for %d new workers' % (what, FakeProc.forks[0] - forks, n1 - n0))
                out += ['%s: %s' % (what, b) for b in invariant(p)]
                if len(out) > 5:
                    return out
    return out


def scen_tick_slots():
    """one slot of the submission semaphore goes back for every reaped worker, whatever its exit status"""
    out = []
    for codes in itertools.product((None, 0, 155, 1, -9), repeat=2):
        p = mkpool([0, 1], 2)
        for w, c in zip(p._pool, codes):
            w.exitcode = c
        reaped = sum(1 for c in codes if c is not None)
        p._maintain_pool()
        if p._putlock.released != reaped:
            out.append('_maintain_pool reaped %d workers (exit statuses %r) and released %d slots' % (
                reaped, codes, p._putlock.released))
    return out


def scen_grow():
    out = []
    for n in range(0, 4):
        for lock in (True, False):
            p = mkpool([0, 1], 2, lock)
            p.grow(n)
            if p._processes != 2 + n or (lock and p._putlock.grown != n):
                out.append('grow(%d): size 2 -> %d, semaphore grown %s times' % (n, p._processes, lock and p._putlock.grown))
    return out


class Job:
    def __init__(self, pid):
        self.pid = pid

    def worker_pids(self):
        return [self.pid] if self.pid else []


def scen_shrink():
    out = []
    for busy in itertools.product((False, True), repeat=3):
        for n in range(0, 4):
            p = mkpool([0, 1, 2], 3)
            for k, (w, b) in enumerate(zip(p._pool, busy)):
                if b:
                    p._cache[k] = Job(w.pid)
            idle = [w for w, b in zip(p._pool, busy) if not b]
            try:
                p.shrink(n)
                raised = False
            except ValueError:
                raised = True
            stopped = [w for w in p._pool if w.stopped]
            what = 'shrink(%d) with busy=%r' % (n, busy)
            if any(w.stopped > 1 for w in p._pool) or any(w not in idle for w in stopped):
                out.append('%s stopped a busy worker or one twice' % what)
            if 3 - p._processes != len(stopped) or p._putlock.shrunk != len(stopped):
                out.append('%s: size 3 -> %d, semaphore shrunk %d, %d stopped' % (what, p._processes, p._putlock.shrunk, len(stopped)))
            want = max(n, 1)
            if not raised and len(stopped) != want:
                out.append('%s returned after stopping %d' % (what, len(stopped)))
            if raised and len(stopped) >= want:
                out.append('%s raised ValueError after stopping %d' % (what, len(stopped)))
            if len(out) > 5:
                return out
    return out


def scen_active():
    out = []
    p = mkpool([0, 1], 2)
    a, b = p._pool
    p._cache = {1: Job(a.pid), 2: Job(None), 3: Job(0)}
    if p._worker_active(a) is not True or p._worker_active(b) is not False:
        out.append('_worker_active: owner -> %r, idle -> %r' % (p._worker_active(a), p._worker_active(b)))
    if list(p._iterinactive()) != [b]:
        out.append('_iterinactive() yielded %r' % ([w.pid for w in p._iterinactive()],))
    return out


SCEN = {'pool.Pool._avail_index': scen_avail, 'pool.Pool._create_worker_process': scen_create,
        'pool.Pool._repopulate_pool': scen_repopulate,
        'pool.Pool._maintain_pool': lambda: scen_repopulate(True) + scen_tick_slots(),
        'pool.Pool.grow': scen_grow, 'pool.Pool.shrink': scen_shrink, 'pool.Pool._worker_active': scen_active,
        'pool.Pool._iterinactive': scen_active}


def main():
    data = json.load(open(sys.argv[1]))
    fn = data['function']
    print('replay of %s / %s' % (fn, data['obligation']))
    scen = SCEN.get(fn)
    if scen is None:
        print('no scenario for this function')
        sys.exit(0)
    bad = scen()
    for b in bad[:8]:
        print('  violation on real code: ' + b)
    print('REPRODUCED on real code' if bad else 'not reproduced')
    sys.exit(1 if bad else 0)


main()
