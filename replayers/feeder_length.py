"""Replay for C02 (feeder variant) on the real code: the real TaskHandler.body run
synchronously over a scripted task queue; every two-job history of task
sequences of lengths 0..3, the second one an imap (with set_length); the length
announced must be the number of tasks of that very sequence."""
import itertools
import json
import sys

import billiard.pool as P


class Queue:
    def __init__(self, items):
        self.items = list(items)

    def get(self):
        return self.items.pop(0) if self.items else None


def run(lengths):
    announced = []
    sent = []
    seqs = []
    for j, n in enumerate(lengths):
        tasks = [(P.TASK, (j, k, None, (), {})) for k in range(n)]
        seqs.append((iter(tasks), (lambda n_, j_=j: announced.append((j_, n_)))))
    th = P.TaskHandler.__new__(P.TaskHandler)
    th.taskqueue, th.put, th.outqueue, th.pool, th.cache = Queue(seqs), sent.append, Queue([]), [], {}
    th._state = P.RUN
    th.outqueue.put = lambda x: None
    th.body()
    return announced, sent


def main():
    data = json.load(open(sys.argv[1]))
    print('replay of %s / %s' % (data['function'], data['obligation']))
    bad = []
    for lengths in itertools.product(range(0, 4), repeat=2):
        announced, sent = run(lengths)
        want = [(j, n) for j, n in enumerate(lengths)]
        if announced != want:
            bad.append('task sequences of lengths %r: lengths announced %r (expected %r) -- an iterator told a wrong length '
                       'never stops or stops early' % (list(lengths), announced, want))
        if len(sent) != sum(lengths):
            bad.append('task sequences of lengths %r: %d tasks sent' % (list(lengths), len(sent)))
    for b in bad[:5]:
        print('  violation on real code: ' + b)
    print('REPRODUCED on real code' if bad else 'not reproduced')
    sys.exit(1 if bad else 0)


main()
