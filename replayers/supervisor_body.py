"""Replay / bounded cross-check for pool.Supervisor.body on the real code: a
Supervisor allocated with __new__ over a stub pool whose _maintain_pool
records which restart limiter is installed at each tick; time.sleep inside
billiard.pool is replaced by a recorder (nothing really sleeps).

Checked, for 1..4 worker slots: during the ten start-up ticks the limiter in
force is a fresh restart_state admitting 10 * slots restarts per 1 second
(C11: "a burst limit of ten restarts per worker slot per second"); afterwards
the pool's own limiter is back, the same object as before; a
RestartFreqExceeded from a tick closes and joins the pool and propagates.
"""
import json
import sys

import billiard.pool as pool
from billiard.common import restart_state
from billiard.exceptions import RestartFreqExceeded


class StubPool:
    def __init__(self, n, fail_at=None, stop_after=14):
        self._processes, self._state = n, pool.RUN
        self.restart_state = self.own = restart_state(n * 3, 60)
        self.seen, self.fail_at, self.stop_after = [], fail_at, stop_after
        self.closed = self.joined = 0

    def _maintain_pool(self):
        self.seen.append(self.restart_state)
        if self.fail_at is not None and len(self.seen) == self.fail_at:
            raise RestartFreqExceeded('scripted')
        if len(self.seen) >= self.stop_after:
            self._state = pool.CLOSE

    def close(self):
        self.closed += 1

    def join(self):
        self.joined += 1


def run(n, fail_at=None):
    real_sleep = pool.time.sleep
    pool.time.sleep = lambda s: None
    try:
        p = StubPool(n, fail_at)
        sup = pool.Supervisor.__new__(pool.Supervisor)
        sup.pool, sup._state = p, pool.RUN
        raised = None
        try:
            sup.body()
        except RestartFreqExceeded as e:
            raised = e
    finally:
        pool.time.sleep = real_sleep
    bad = []
    burst = p.seen[:10]
    if fail_at is None:
        if len(p.seen) < 11:
            bad.append('%d slots: only %d ticks ran' % (n, len(p.seen)))
        for k, st in enumerate(burst):
            if st is p.own or (st.maxR, st.maxT) != (10 * n, 1):
                bad.append('%d slots: start-up tick %d ran with a limiter of %r restarts per %r s (expected %d per 1 s, a '
                           'fresh one)' % (n, k + 1, st.maxR, st.maxT, 10 * n))
                break
        if any(st is not p.own for st in p.seen[10:]) or p.restart_state is not p.own:
            bad.append('%d slots: after the start-up burst the pool\'s own limiter is not back in force' % n)
        if raised or p.closed or p.joined:
            bad.append('%d slots: body() raised %r / closed %d / joined %d without a refused restart' % (n, raised, p.closed, p.joined))
    else:
        if raised is None or (p.closed, p.joined) != (1, 1):
            bad.append('%d slots: a refused restart at tick %d: raised %r, pool closed %d and joined %d times' % (
                n, fail_at, raised, p.closed, p.joined))
    return bad


def main():
    data = json.load(open(sys.argv[1]))
    print('replay of %s / %s' % (data['function'], data['obligation']))
    bad = []
    for n in (1, 2, 3, 4):
        bad += run(n)
        bad += run(n, fail_at=3)
        bad += run(n, fail_at=12)
    for b in bad[:6]:
        print('  violation on real code: ' + b)
    print('REPRODUCED on real code' if bad else 'not reproduced')
    sys.exit(1 if bad else 0)


main()
