"""Replay for C10 / pool.Pool.apply_async (threads=False): the slot is taken,
the handle created, then _quick_put raises -- is the slot given back?"""
from _lib import replay_main
import billiard.pool as pool


def build(model, data):
    p = pool.Pool.__new__(pool.Pool)
    p._state = pool.RUN
    p._cache = {}
    p._putlock = pool.LaxBoundedSemaphore(2)
    p.putlocks = True
    p.threads = False
    p.synack = False
    p.soft_timeout = p.timeout = None
    p.lost_worker_timeout = 10.0
    p.on_timeout_set = p.on_timeout_cancel = None

    def quick_put(msg):
        raise ValueError('cannot pickle task')
    p._quick_put = quick_put

    def custom(outcome, result, exc):
        sem = p._putlock
        print('  apply_async raised %r; jobs left in cache: %d; free slots: %d of %d' % (
            exc, len(p._cache), sem._value, sem._initial_value))
        if data['obligation'].startswith('raises.AnyException.slot_given_back'):
            return outcome == 'raise' and sem._value < sem._initial_value
        return False
    return {'call': lambda: p.apply_async(len, ((),)), 'env': {}, 'custom': custom}


replay_main(build)
