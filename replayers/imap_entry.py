"""Replay / bounded cross-check for Pool.imap / Pool.imap_unordered on the real
code, without worker processes: a Pool allocated with __new__ (state RUN, real
cache, a queue.Queue as task queue); the results of the chunks are delivered to
the registered handle by hand, as the result handler would (one failing chunk at
every position); the iterator the caller got back is then drained, going on
after every exception.

Checked: one task sequence is queued; every value of every successful chunk is
handed out (in input order for imap); the failing chunk raises once, at its
position; and the iterator goes on with the remaining chunks afterwards.
"""
import itertools
import json
import queue
import sys

import billiard.pool as pool


def mkpool():
    p = pool.Pool.__new__(pool.Pool)
    p._state = pool.RUN
    p._cache = {}
    p._taskqueue = queue.Queue()
    p.lost_worker_timeout = 10.0
    return p


def f(x):
    return x * 10


def drain(it, limit):
    got = []
    for _ in range(limit):
        try:
            got.append(('ok', it.next(timeout=0.05) if hasattr(it, 'next') else next(it)))
        except StopIteration:
            got.append(('stop',))
            break
        except pool.TimeoutError:
            got.append(('timeout',))
            break
        except Exception as e:       # noqa
            # (the iterators raise Exception(record): "an error carrying the original exception record")
            rec = e.args[0] if e.args else None
            got.append(('err', getattr(getattr(rec, 'type', None), '__name__', type(e).__name__)))
    return got


def run(method, n, chunksize, fail_chunk):
    p = mkpool()
    it = getattr(p, method)(f, range(n), chunksize=chunksize)
    bad = []
    if p._taskqueue.qsize() != 1:
        bad.append('%d task sequences queued' % p._taskqueue.qsize())
    handle = list(p._cache.values())[0]
    tasks, set_length = p._taskqueue.get()
    tasks = list(tasks)
    set_length(len(tasks))
    want = []
    for i in range(len(tasks)):
        chunk = list(range(n))[i * chunksize:(i + 1) * chunksize]
        if i == fail_chunk:
            try:
                raise KeyError('item of chunk %d' % i)
            except KeyError:
                obj = (False, pool.ExceptionInfo())
            want.append(('err', 'KeyError'))
        else:
            obj = (True, f(chunk[0])) if chunksize == 1 else (True, [f(x) for x in chunk])
            want += [('ok', f(x)) for x in chunk]
        handle._set(i, obj)
    want.append(('stop',))
    got = drain(it, n + 5)
    if got != want:
        bad.append('%s(f, range(%d), chunksize=%d), chunk %s fails: the caller gets %r, expected %r' % (
            method, n, chunksize, fail_chunk, got, want))
    return bad


def main():
    data = json.load(open(sys.argv[1]))
    fn = data['function']
    print('replay of %s / %s' % (fn, data['obligation']))
    method = 'imap_unordered' if 'unordered' in fn else 'imap'
    known = data.get('known_finding_obligations', [])
    skip_chunked = any('failing_chunk' in k for k in known) and 'bounded_cross_check' in data['obligation']
    if skip_chunked:
        print('  known findings skipped: %s' % ', '.join(known))
    found = 0
    for n, chunksize in itertools.product((0, 1, 4, 5), (1, 2, 3)):
        nchunks = -(-n // chunksize)
        for fail_chunk in [None] + list(range(nchunks)):
            if skip_chunked and chunksize != 1 and fail_chunk is not None:
                continue
            bad = run(method, n, chunksize, fail_chunk)
            if bad:
                found += 1
                if found <= 3:
                    for b in bad:
                        print('  violation on real code: ' + b)
    print('REPRODUCED on real code' if found else 'not reproduced')
    sys.exit(1 if found else 0)


main()
