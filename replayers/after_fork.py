"""Replay / bounded cross-check for pool.Worker.after_fork and
pool.soft_timeout_sighandler on the real code: a Worker allocated with __new__,
signal.signal and reset_signals replaced by recorders inside billiard.pool
(no handler of this process is touched), the exit flag set as if inherited from
a parent that was terminating.

Checked, with and without an initializer and for both protection levels: the
exit flag is cleared before the termination handlers are installed; these are
installed once with the worker's protection level; afterwards the soft-timeout
signal gets soft_timeout_sighandler and SIGINT is ignored; the initializer runs
once, first; the two unused pipe ends are closed; the handler raises
SoftTimeLimitExceeded.
"""
import itertools
import json
import signal
import sys

import billiard.common as common
import billiard.pool as pool
from billiard.exceptions import SoftTimeLimitExceeded


class End:
    def __init__(self, log, name):
        self.log, self.name = log, name

    def close(self):
        self.log.append(('close', self.name))


class Q:
    def __init__(self, log, name):
        self._writer, self._reader = End(log, name + '.writer'), End(log, name + '.reader')


def run(with_init, protection):
    log = []

    class FakeSignal:
        SIGINT, SIG_IGN, SIG_DFL = signal.SIGINT, signal.SIG_IGN, signal.SIG_DFL

        @staticmethod
        def signal(num, handler):
            log.append(('signal', num, handler, common._should_have_exited[0]))
    real_signal, real_reset = pool.signal, pool.reset_signals
    pool.signal = FakeSignal
    pool.reset_signals = lambda *a, **k: log.append(('reset', a, k, common._should_have_exited[0]))
    common._should_have_exited[0] = True          # inherited from a parent that was shutting down
    try:
        w = pool.Worker.__new__(pool.Worker)
        w.inq, w.outq = Q(log, 'inq'), Q(log, 'outq')
        w.initializer = (lambda *a: log.append(('init', a))) if with_init else None
        w.initargs = (1, 'two')
        w.sigprotection = protection
        w.after_fork()
        flag_after = common._should_have_exited[0]
    finally:
        pool.signal, pool.reset_signals = real_signal, real_reset
        common._should_have_exited[0] = False
    bad = []
    resets = [e for e in log if e[0] == 'reset']
    if flag_after:
        bad.append('the exit flag inherited from the parent is still set after after_fork()')
    if len(resets) != 1 or resets[0][2].get('full', (resets[0][1] + (False,))[0] if resets[0][1] else False) != protection:
        bad.append('reset_signals calls: %r (expected one, full=%r)' % ([(e[1], e[2]) for e in resets], protection))
    elif resets[0][3]:
        bad.append('the termination handlers were installed while the inherited exit flag was still set (a signal arriving '
                   'now would be taken for a second one: os._exit without the exit callback)')
    soft = [e for e in log if e[0] == 'signal' and e[1] == pool.SIG_SOFT_TIMEOUT]
    if [e[2] for e in soft] != [pool.soft_timeout_sighandler]:
        bad.append('handlers installed for the soft-timeout signal: %r' % ([e[2] for e in soft],))
    elif resets and log.index(soft[0]) < log.index(resets[0]):
        bad.append('the soft-timeout handler was installed before the termination handlers')
    if [e[2] for e in log if e[0] == 'signal' and e[1] == signal.SIGINT] != [signal.SIG_IGN]:
        bad.append('SIGINT disposition set: %r' % ([e[2] for e in log if e[0] == 'signal' and e[1] == signal.SIGINT],))
    inits = [e for e in log if e[0] == 'init']
    if inits != ([('init', (1, 'two'))] if with_init else []):
        bad.append('initializer calls: %r' % (inits,))
    elif inits and resets and log.index(inits[0]) > log.index(resets[0]):
        bad.append('the initializer ran after the handlers were installed')
    if sorted(e[1] for e in log if e[0] == 'close') != ['inq.writer', 'outq.reader']:
        bad.append('pipe ends closed: %r' % ([e[1] for e in log if e[0] == 'close'],))
    return bad


def main():
    data = json.load(open(sys.argv[1]))
    print('replay of %s / %s' % (data['function'], data['obligation']))
    found = 0
    for with_init, protection in itertools.product((False, True), (False, True)):
        bad = run(with_init, protection)
        if bad:
            found += 1
            if found <= 2:
                print('  scenario: initializer %s, sigprotection %s' % (with_init, protection))
                for b in bad:
                    print('    violation on real code: ' + b)
    try:
        pool.soft_timeout_sighandler(pool.SIG_SOFT_TIMEOUT, None)
        print('  violation on real code: soft_timeout_sighandler returned')
        found += 1
    except SoftTimeLimitExceeded:
        pass
    except BaseException as e:       # noqa
        print('  violation on real code: soft_timeout_sighandler raised %r (expected SoftTimeLimitExceeded)' % (e,))
        found += 1
    print('REPRODUCED on real code' if found else 'not reproduced')
    sys.exit(1 if found else 0)


main()
