"""Replay / run-time cross-check for C12 on the real code: real tracebacks of
every depth from 1 to limit + 4 for small frame limits (and one beyond the
recursion limit with the default), the stand-in chain compared with the
original entry by entry, formatted by the standard traceback module, pickled
and unpickled three times; ExceptionInfo built from a handled exception;
the rebuilt exception's type, args and cause.  (Bounded: the proof is pyvc's.)"""
import json
import pickle
import sys
import traceback

import billiard.einfo as E


def make_tb(depth):
    def rec(n):
        if n <= 1:
            raise KeyError('k', 7)
        rec(n - 1)
    try:
        rec(depth)
    except KeyError:
        return sys.exc_info()


def chain(t):
    out = []
    while t is not None:
        out.append(t)
        t = t.tb_next
    return out


def scen():
    bad = []
    for limit in (0, 1, 3):
        for depth in range(1, limit + 6):
            typ, val, tb = make_tb(depth)
            orig = chain(tb)
            n = len(orig)
            t = E.Traceback(tb, max_frames=limit)
            got = chain(t)
            room = limit + 2
            want = min(n, room) + (1 if n > room else 0)
            if len(got) != want:
                bad.append('limit %d, %d entries: chain of %d nodes (expected %d)' % (limit, n, len(got), want))
                continue
            for k, (a, b) in enumerate(zip(got[:min(n, room)], orig)):
                if type(a) is not E.Traceback or a.tb_lineno != b.tb_lineno or a.tb_lasti != b.tb_lasti or \
                        a.tb_frame.f_code.co_name != b.tb_frame.f_code.co_name or a.tb_frame.f_lineno != b.tb_frame.f_lineno:
                    bad.append('limit %d, %d entries: node %d does not copy entry %d' % (limit, n, k, k))
            if n > room and type(got[-1]) is not E._Truncated:
                bad.append('limit %d, %d entries: no truncation marker' % (limit, n))
            try:
                text = ''.join(traceback.format_tb(t))
                if 'rec' not in text:
                    bad.append('formatted stand-in does not name the raising frame')
                p = t
                for _ in range(3):
                    p = pickle.loads(pickle.dumps(p))
                if ''.join(traceback.format_tb(p)) != text or len(chain(p)) != len(got):
                    bad.append('limit %d, %d entries: not stable under 3 pickle round trips' % (limit, n))
            except Exception as e:      # noqa
                bad.append('limit %d, %d entries: %r when formatting / pickling the stand-in' % (limit, n, e))
    # beyond the recursion limit with the default frame limit
    typ, val, tb = make_tb(sys.getrecursionlimit() - 50)
    t = E.Traceback(tb)
    if len(chain(t)) > E.DEFAULT_MAX_FRAMES + 3:
        bad.append('deep traceback: %d nodes with the default limit %d' % (len(chain(t)), E.DEFAULT_MAX_FRAMES))
    # the text of the record is the full formatted traceback of the original exception, also beyond the frame limit
    for depth in (1, 3, E.DEFAULT_MAX_FRAMES + 10):
        info = make_tb(depth)
        ei = E.ExceptionInfo(info)
        want = ''.join(traceback.format_exception(*info))
        if ei.traceback != want:
            bad.append('ExceptionInfo of a %d-entry traceback: the text is not the formatted original traceback (it ends %r)' % (
                depth, ei.traceback[-60:]))
    # ExceptionInfo and the rebuilt exception
    try:
        raise KeyError('k', 7)
    except KeyError:
        ei = E.ExceptionInfo()
    if ei.type is not KeyError or 'KeyError' not in ei.traceback or type(ei.tb) is not E.Traceback:
        bad.append('ExceptionInfo: type %r, text %r' % (ei.type, ei.traceback[-40:]))
    r = pickle.loads(pickle.dumps(ei))
    exc = r.exception
    if type(exc) is not KeyError or not isinstance(exc.__cause__, E.RemoteTraceback) or 'KeyError' not in str(exc.__cause__):
        bad.append('rebuilt exception %r has cause %r (expected the remote traceback)' % (exc, exc.__cause__))
    for _ in range(2):
        r = pickle.loads(pickle.dumps(r))
    exc = r.exception
    # (the cause is an attribute of the exception object, not part of the record: further trips keep the record's fields)
    if type(exc) is not KeyError or exc.args != ('k', 7) or r.traceback != ei.traceback or r.type is not KeyError:
        bad.append('after 3 round trips: exception %r args %r type %r' % (type(exc), getattr(exc, 'args', None), r.type))
    try:
        ''.join(traceback.format_tb(r.tb))
    except Exception as e:      # noqa
        bad.append('traceback object of a rebuilt record cannot be formatted: %r' % (e,))
    return bad


def scen_encoding_error():
    """the record of an unserialisable result must itself pickle, whatever the serialiser raised and whatever the result
    was -- also an error that carries the unpicklable object"""
    import pickle
    import threading
    from billiard.pool import MaybeEncodingError
    bad = []

    class Carrying(Exception):
        def __init__(self, obj):
            Exception.__init__(self, 'cannot encode', obj)
            self.obj = obj
    lock = threading.Lock()
    for what, exc, value in (('PicklingError with a text', pickle.PicklingError('nope'), 'v'),
                             ('error carrying the unpicklable object', Carrying(lock), lock),
                             ('error whose argument is a generator', ValueError((x for x in ())), [lock])):
        rec = MaybeEncodingError(exc, value)
        if rec.exc != repr(exc) or rec.value != repr(value) or rec.args != (repr(exc), repr(value)):
            bad.append('MaybeEncodingError(%s): attributes %r / %r, arguments %r (expected the two reprs)' % (
                what, rec.exc, rec.value, rec.args))
        try:
            back = pickle.loads(pickle.dumps(rec))
            if (back.exc, back.value) != (rec.exc, rec.value):
                bad.append('MaybeEncodingError(%s) changed in a pickle round trip' % what)
        except Exception as e:      # noqa
            bad.append('MaybeEncodingError(%s) cannot be pickled itself: %r -- the encoding-error report cannot be sent, '
                       'the worker dies and the job is lost' % (what, e))
    return bad


def main():
    data = json.load(open(sys.argv[1]))
    print('replay of %s / %s' % (data['function'], data['obligation']))
    bad = scen() + scen_encoding_error()
    for b in bad[:8]:
        print('  violation on real code: ' + b)
    print('REPRODUCED on real code' if bad else 'not reproduced')
    sys.exit(1 if bad else 0)


main()
