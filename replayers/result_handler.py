"""Replay / bounded cross-check for the closures ResultHandler._make_methods
builds (on_ack, on_ready) on the real code: a ResultHandler allocated with
__new__ over a real cache, a real restart_state and a recording put-lock.

on_ack  -- for a job in the cache / a job no longer in the cache / a handle
           without _ack (imap): the restart budget is restored (R == 0) in
           every case, the owner and acceptance time are recorded on an apply
           handle exactly when the job is there, nothing else changes;
on_ready -- for a job in the cache (unresolved / resolved) and a job that is
           gone: the slot is released exactly for an unresolved job in the
           cache, the result is stored once, a second result does not replace
           the first.
"""
import json
import sys

import billiard.pool as pool
from billiard.common import restart_state


class PutLock:
    def __init__(self):
        self.releases = 0

    def release(self):
        self.releases += 1


def mk(cache):
    rh = pool.ResultHandler.__new__(pool.ResultHandler)
    rh.cache, rh.putlock, rh.restart_state = cache, PutLock(), restart_state(5, 10.0)
    rh.on_ready_counters = {}
    rh.join_exited_workers, rh.on_job_ready, rh.check_timeouts = None, None, None
    rh._make_methods()
    return rh


def scen():
    bad = []
    for where in ('in cache', 'gone', 'imap handle', 'resolved'):
        cache = {}
        rh = mk(cache)
        rh.restart_state.R = 3          # three restarts charged so far
        accepted = []
        job = pool.ApplyResult(cache, None, accept_callback=lambda pid, t: accepted.append((pid, t)))
        jid = job._job
        if where == 'gone':
            del cache[jid]
        elif where == 'imap handle':
            cache[jid] = pool.IMapIterator({})
        elif where == 'resolved':
            job._set(jid, (True, 'v'))
            cache[jid] = job            # (kept, e.g. by a callback still running)
        rh.state_handlers[pool.ACK](jid, None, 900.0, 4242, None)
        if rh.restart_state.R != 0:
            bad.append('on_ack for a job that is %s: the restart budget was not restored (R == %r after a worker accepted a '
                       'job)' % (where, rh.restart_state.R))
        if where == 'in cache' and (job._worker_pid != 4242 or job._time_accepted != 900.0 or accepted != [(4242, 900.0)]):
            bad.append('on_ack for a job in the cache: owner %r, time %r, accept callback calls %r' % (
                job._worker_pid, job._time_accepted, accepted))
        if where == 'gone' and (job._accepted or accepted):
            bad.append('on_ack for a job that is gone from the cache touched the handle')
    # (a resolved handle is never in the cache -- _set removes it -- so a second result only ever meets "gone")
    for where in ('unresolved', 'gone'):
        cache = {}
        rh = mk(cache)
        job = pool.ApplyResult(cache, None)
        jid = job._job
        job._ack(None, 900.0, 4242, None)
        if where == 'gone':
            job._set(jid, (True, 'first'))
        rh.state_handlers[pool.READY](jid, None, (True, 'second'), None)
        want_rel = 1 if where == 'unresolved' else 0
        if rh.putlock.releases != want_rel:
            bad.append('on_ready for a job that is %s: the slot was released %d times (expected %d)' % (
                where, rh.putlock.releases, want_rel))
        if where == 'unresolved' and (not job.ready() or job._value != 'second' or jid in cache):
            bad.append('on_ready for an unresolved job: ready=%r value=%r still cached=%r' % (
                job.ready(), getattr(job, '_value', None), jid in cache))
        if where == 'gone' and job._value != 'first':
            bad.append('a second result for a job that already had one replaced it by %r' % (job._value,))
    return bad


def main():
    data = json.load(open(sys.argv[1]))
    print('replay of %s / %s' % (data['function'], data['obligation']))
    bad = scen()
    for b in bad[:8]:
        print('  violation on real code: ' + b)
    print('REPRODUCED on real code' if bad else 'not reproduced')
    sys.exit(1 if bad else 0)


main()
