"""Generic concretiser: turns the counter-model of a function's inputs into
real billiard objects (allocated with __new__, fields set from the model),
calls the real function and evaluates the contract clause on the result.

Foreign callables in the model (opaque `Val!val!N`) become recording stubs
that return None; externals are not scripted here, so a counterexample that
depends on what an external returned may not reproduce (reported as such)."""
import importlib
import inspect

from _lib import replay_main, G


class Stub:
    """an opaque callable / value of the model"""
    def __init__(self, name):
        self.name = name
        self.calls = []

    def __call__(self, *a, **k):
        self.calls.append((a, k))
        return None

    def __repr__(self):
        return '<%s>' % self.name

    # lock-like, condition-like
    def __enter__(self):
        return self

    def __exit__(self, *a):
        return False

    def acquire(self, *a, **k):
        return True

    def release(self, *a, **k):
        pass

    def notify(self, *a):
        pass

    notify_all = notifyAll = notify

    def get_lock(self):
        return self


def _mk(cls_path):
    mod, name = cls_path.rsplit('.', 1)
    return getattr(importlib.import_module(mod), name)


class Plain:
    pass


CLASSES = {
    'Sem': 'billiard.pool.LaxBoundedSemaphore',
    'restart_state': 'billiard.common.restart_state',
    'Job': 'billiard.pool.ApplyResult',
    'Pool': 'billiard.pool.Pool',
    'TimeoutHandler': 'billiard.pool.TimeoutHandler',
    'ResultHandler': 'billiard.pool.ResultHandler',
    'TaskHandler': 'billiard.pool.TaskHandler',
    'Supervisor': 'billiard.pool.Supervisor',
    'Heap': 'billiard.heap.Heap',
}


class Builder:
    def __init__(self):
        self.memo = {}
        self.stubs = {}

    def conv(self, v):
        if isinstance(v, str) and v.startswith('Val!'):
            return self.stubs.setdefault(v, Stub(v))
        if isinstance(v, list):
            return tuple(self.conv(x) for x in v)
        if isinstance(v, dict) and 'bytes' in v:
            return bytes(b & 0xff for b in v['bytes'])
        if isinstance(v, dict) and '$cls' in v:
            key = (v['$cls'], v['$id'])
            if key in self.memo:
                return self.memo[key]
            cls = v['$cls']
            if cls.startswith('list<'):
                obj = [self.conv(x) for x in v.get('items', [])]
                self.memo[key] = obj
                return obj
            if cls.startswith('dict<'):
                obj = {}
                self.memo[key] = obj
                for k, x in v.get('entries', {}).items():
                    obj[int(k)] = self.conv(x)
                return obj
            if cls.startswith('set<'):
                obj = set(int(k) for k in v.get('entries', {}))
                self.memo[key] = obj
                return obj
            if cls == 'Event':
                import threading
                obj = threading.Event()
                if v.get('flag'):
                    obj.set()
                self.memo[key] = obj
                return obj
            real = _mk(CLASSES[cls]) if cls in CLASSES else Plain
            obj = real.__new__(real)
            self.memo[key] = obj
            for f, x in v.items():
                if f.startswith('$'):
                    continue
                if f == '_callbacks_propagate':
                    x = []
                try:
                    setattr(obj, f, self.conv(x))
                except AttributeError:
                    pass
            if cls == 'Job' and not hasattr(obj, '_mutex'):
                import threading
                obj._mutex = threading.Lock()        # not part of the model: the handle's own lock (free)
            return obj
        return v


def resolve(qualname):
    parts = qualname.split('.')
    mod = importlib.import_module('billiard.' + parts[0])
    obj = mod
    for p in parts[1:]:
        if p == '<locals>':
            return None
        obj = getattr(obj, p)
    return obj


def build(model, data):
    b = Builder()
    env = {}
    for k, v in model.items():
        if k.startswith('g.') or k.startswith('ext:'):
            continue
        env[k] = b.conv(v)
    env['g'] = G(**{k[2:]: v for k, v in model.items() if k.startswith('g.')})
    fn = resolve(data['function'].split('@')[0])
    if fn is None:
        raise SystemExit(2)
    sig = inspect.signature(fn)
    kwargs = {p: env[p] for p in sig.parameters if p in env}
    if data['function'].split('@')[0].startswith('pool.LaxBoundedSemaphore') and 'self' in env:
        import threading
        s = env['self']
        if not isinstance(getattr(s, '_cond', None), type(threading.Condition())):
            s._cond = threading.Condition(threading.Lock())
    return {'call': lambda: fn(**kwargs), 'env': env}


if __name__ == '__main__':
    replay_main(build)
