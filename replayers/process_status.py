"""Replay for C19 on the real code.  Two parts:

1. scripted os.waitpid / connection.wait: popen_fork.Popen.poll / wait and the
   BaseProcess accessors on objects allocated with __new__, for every wait
   status of a small set (exit 0, 1, 3, 255; signals 9, 15), EINTR storms,
   ECHILD, "still running", zero / positive / no timeout;
2. real children (fork start method, a few tens of ms each): return, raise,
   sys.exit() with no argument / an int / a message / an object, SIGKILL,
   SIGTERM; exit codes compared with the statement of the property; start()
   twice; join() then active_children().
"""
import errno
import json
import os
import signal
import sys
import time

import billiard.popen_fork as pf
import billiard.process as bp

WNOHANG = os.WNOHANG


def status_exit(n):
    return (n & 0xff) << 8


def status_signal(s):
    return s


class FakeOS:
    """stands in for the `os` module inside popen_fork"""
    def __init__(self, script):
        self.script, self.calls = list(script), []
        for name in ('WIFSIGNALED', 'WTERMSIG', 'WIFEXITED', 'WEXITSTATUS', 'WNOHANG', 'kill', 'close'):
            setattr(self, name, getattr(os, name))

    def waitpid(self, pid, flag):
        self.calls.append(flag)
        step = self.script.pop(0)
        if isinstance(step, BaseException):
            raise step
        return step


def mkpopen(pid=777):
    p = pf.Popen.__new__(pf.Popen)
    p.pid, p.returncode, p.sentinel = pid, None, 99
    return p


def scen_poll():
    out = []
    real_os = pf.os
    try:
        cases = [('exit 0', status_exit(0), 0), ('exit 1', status_exit(1), 1), ('exit 3', status_exit(3), 3),
                 ('exit 255', status_exit(255), 255), ('SIGKILL', status_signal(9), -9), ('SIGTERM', status_signal(15), -15)]
        for name, sts, want in cases:
            for prefix in ([], [OSError(errno.EINTR, 'eintr')] * 3, [(0, 0)]):
                p = mkpopen()
                fake = pf.os = FakeOS(prefix + [(777, sts)] + [OSError(errno.ECHILD, 'gone')] * 3)
                got = [p.poll() for _ in range(len([x for x in prefix if x == (0, 0)]) + 1)]
                if got[-1] != want or any(g is not None for g in got[:-1]):
                    out.append('poll(), child ended with %s after %r: reported %r (expected %r)' % (name, prefix, got, want))
                n = len(fake.calls)
                if p.poll() != want or len(fake.calls) != n:
                    out.append('poll() after the status was known: %r, %d more waitpid calls' % (p.returncode, len(fake.calls) - n))
        p = mkpopen()
        pf.os = FakeOS([OSError(errno.ECHILD, 'no child')])
        if p.poll() is not None or p.returncode is not None:
            out.append('poll() with ECHILD reported %r' % (p.returncode,))
        # wait(timeout): sentinel not ready -> None and no waitpid at all
        import billiard.connection as conn
        real_wait = conn.wait
        try:
            for timeout, ready, want_calls in ((0.5, False, 0), (0.0, False, 0), (0.5, True, 1), (0.0, True, 1), (None, True, 1)):
                conn.wait = lambda objs, t=None, _r=ready: list(objs) if _r else []
                p = mkpopen()
                fake = pf.os = FakeOS([(777, status_exit(3))])
                r = p.wait(timeout)
                if len(fake.calls) != want_calls or (r is None) != (want_calls == 0):
                    out.append('wait(%r), sentinel ready=%r: returned %r after %d waitpid calls' % (timeout, ready, r, len(fake.calls)))
                if fake.calls and timeout == 0.0 and fake.calls[0] != WNOHANG:
                    out.append('wait(0.0) called a blocking waitpid')
        finally:
            conn.wait = real_wait
    finally:
        pf.os = real_os
    return out


def child_exit_code(target, start_twice=False):
    from billiard import get_context
    ctx = get_context('fork')
    p = ctx.Process(target=target)
    p.start()
    twice = None
    if start_twice:
        try:
            p.start()
            twice = 'second start() did not raise'
        except AssertionError:
            pass
    alive_codes = (p.exitcode, p.is_alive())
    p.join(10)
    active = p in bp.active_children()
    return p.exitcode, alive_codes, active, twice


def t_return():
    pass


def t_raise():
    sys.stderr = open(os.devnull, 'w')
    raise ValueError('boom')


def t_exit_none():
    sys.exit()


def t_exit_3():
    sys.exit(3)


def t_exit_0():
    sys.exit(0)


def t_exit_255():
    sys.exit(255)


def t_exit_empty_msg():
    sys.stderr = open(os.devnull, 'w')
    sys.exit('')


def t_exit_object():
    sys.stderr = open(os.devnull, 'w')
    sys.exit([])


def t_exit_msg():
    sys.stderr = open(os.devnull, 'w')
    sys.exit('bye')


def t_kill():
    os.kill(os.getpid(), signal.SIGKILL)


def t_sleep():
    time.sleep(30)


def scen_children():
    out = []
    for name, target, want in (('returns', t_return, 0), ('raises', t_raise, 1), ('sys.exit()', t_exit_none, 1),
                               ('sys.exit(3)', t_exit_3, 3), ('sys.exit("bye")', t_exit_msg, 0),
                               ('sys.exit(0)', t_exit_0, 0), ('sys.exit(255)', t_exit_255, 255),
                               ('sys.exit("")', t_exit_empty_msg, 0), ('sys.exit([])', t_exit_object, 1),
                               ('SIGKILL', t_kill, -9)):
        code, _, active, twice = child_exit_code(target, start_twice=(name == 'returns'))
        if code != want:
            out.append('child that %s: exitcode %r (expected %r)' % (name, code, want))
        if active:
            out.append('child that %s is still an active child after join()' % name)
        if twice:
            out.append(twice)
    from billiard import get_context
    q = get_context('fork').Process(target=t_return)
    q.start()
    t0 = time.monotonic()
    while q.is_alive() and time.monotonic() - t0 < 3:
        time.sleep(0.02)
    if q.is_alive():
        out.append('is_alive() still True 3 s after the child returned (the status is never asked for)')
    q.join(5)
    p = get_context('fork').Process(target=t_sleep)
    p.start()
    try:
        if p.exitcode is not None or not p.is_alive():
            out.append('running child: exitcode %r, is_alive %r' % (p.exitcode, p.is_alive()))
        t0 = time.monotonic()
        p.join(0.2)
        if time.monotonic() - t0 > 2 or p.exitcode is not None:
            out.append('join(0.2) on a running child took %.1fs, exitcode %r' % (time.monotonic() - t0, p.exitcode))
        try:
            p.join(0.05)          # a second timed join on the same, still running child
            p.join(0)
        except Exception as e:      # noqa
            out.append('second timed join() on a running child raised %r (the first, expired one left the object unusable)' % (e,))
    finally:
        os.kill(p.pid, signal.SIGTERM)
        p.join(10)
    if p.exitcode != -signal.SIGTERM:
        out.append('child killed by SIGTERM: exitcode %r' % (p.exitcode,))
    out += scen_foreign_start()
    return out


def scen_foreign_start():
    """start() by a process that did not create the object: a plain os.fork() child (which still carries the creator's
    module state) tries to start an unstarted process object it inherited; nothing is launched (_Popen is a stub)"""
    out = []
    from billiard import get_context

    class Stub:
        sentinel = None
        pid = 1
        returncode = None

        def __init__(self, obj):
            pass

        def poll(self, *a):
            return None
    victim = get_context('fork').Process(target=t_return)
    victim._Popen = Stub
    pid = os.fork()
    if pid == 0:
        try:
            try:
                victim.start()
                os._exit(3)
            except AssertionError:
                os._exit(0)
        finally:
            os._exit(4)
    _, sts = os.waitpid(pid, 0)
    if os.WEXITSTATUS(sts) != 0:
        out.append('a forked child (not the creator) was allowed to start() an inherited process object (child exit %d)'
                   % os.WEXITSTATUS(sts))
    if victim._popen is not None:
        out.append('the refused start left a Popen object behind')
    return out


def main():
    data = json.load(open(sys.argv[1]))
    print('replay of %s / %s' % (data['function'], data['obligation']))
    bad = scen_poll()
    if not bad or 'bootstrap' in data['function'] or 'process.' in data['function']:
        bad += scen_children()
    for b in bad[:8]:
        print('  violation on real code: ' + b)
    print('REPRODUCED on real code' if bad else 'not reproduced')
    sys.exit(1 if bad else 0)


if __name__ == '__main__':
    main()
