from _lib import replay_main, G
import billiard.common as common


def build(model, data):
    s = model['self']
    rs = common.restart_state(s['maxR'], s['maxT'])
    rs.R, rs.T = s['R'], s['T']
    g = G(now=model.get('g.now', 0.0))
    mono = [v for k, v in sorted(model.items()) if k.startswith('ext:monotonic')]

    def fake_monotonic():
        g.now = mono.pop(0) if mono else g.now
        return g.now
    common.monotonic = fake_monotonic
    now = model.get('now')
    fn = data['function'].rsplit('.', 1)[1]
    if fn == '__init__':
        return {'call': lambda: rs.__init__(model['maxR'], model['maxT']),
                'env': {'self': rs, 'maxR': model['maxR'], 'maxT': model['maxT'], 'g': g}}
    return {'call': lambda: rs.step(now), 'env': {'self': rs, 'now': now, 'g': g}}


replay_main(build)
