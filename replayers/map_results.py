"""Replay / bounded cross-check for C02 on the real code, without processes:
real MapResult / IMapIterator / IMapUnorderedIterator objects fed the chunk
results in EVERY arrival order (all permutations, up to 4 chunks), for input
lengths 0..7 and chunk sizes 1..4; the chunking (_get_tasks) and the chunk
function (mapstar / starmapstar) are the real ones, run in-process; the default
chunk size of _map_async is taken from the real method on a Pool allocated with
__new__ (pool sizes 1..3).  Compared with the sequential map.
"""
import itertools
import json
import sys

import billiard.pool as P


def f(x):
    if x == 'bad':
        raise ValueError('bad input')
    return ('f', x)


class Q:
    def __init__(self):
        self.items = []

    def put(self, x):
        self.items.append(x)


def chunk_results(inputs, cs, fail_at=None):
    """what the workers would send: (index, (success, value)) per chunk, in input order"""
    out = []
    for i, (fn, chunk) in enumerate(P.Pool._get_tasks(f, inputs, cs)):
        try:
            out.append((i, (True, P.mapstar((fn, chunk)))))
        except Exception:       # noqa
            from billiard.einfo import ExceptionInfo
            import pickle
            # what the parent receives for a failing task: the record, pickled by the worker
            out.append((i, (False, pickle.loads(pickle.dumps(ExceptionInfo())))))
    return out


def scen_map():
    bad = []
    for n in range(0, 8):
        inputs = list(range(n))
        want = [f(x) for x in inputs]
        for cs in range(1, 5):
            results = chunk_results(inputs, cs)
            nchunks = len(results)
            if nchunks != -(-n // cs):
                bad.append('_get_tasks(%d inputs, chunksize %d) gave %d chunks' % (n, cs, nchunks))
            orders = itertools.permutations(results) if nchunks <= 4 else [results, results[::-1]]
            for order in orders:
                cache = {}
                m = P.MapResult(cache, cs, n, None, None)
                m._ack(0, 0.0, 1)      # accepted, so that it leaves the cache when done
                for k, (i, r) in enumerate(order):
                    if m.ready():
                        bad.append('map of %d, chunksize %d: ready after %d of %d chunks' % (n, cs, k, nchunks))
                        break
                    m._set(i, r)
                if not m.ready() and nchunks:
                    bad.append('map of %d, chunksize %d, order %r: not ready after all chunks' % (n, cs, [i for i, _ in order]))
                elif nchunks and m._value != want:
                    bad.append('map of %d, chunksize %d, order %r: %r' % (n, cs, [i for i, _ in order], m._value))
                if len(bad) > 5:
                    return bad
    # empty input / failing input
    m = P.MapResult({}, 0, 0, None, None)
    if not m.ready() or m._value != []:
        bad.append('map of an empty input: ready=%r value=%r' % (m.ready(), m._value))
    inputs = [0, 1, 'bad', 3, 4]
    for order in itertools.permutations(chunk_results(inputs, 2)):
        cache = {}
        m = P.MapResult(cache, 2, 5, None, None)
        for i, r in order:
            if m._job in cache:          # the result handler drops results of jobs no longer in the cache
                m._set(i, r)
        try:
            m.get(0)
            bad.append('map with a failing input returned %r' % (m._value,))
        except ValueError as e:
            if e.args != ('bad input',):
                bad.append('map re-raised %r' % (e,))
        except Exception as e:      # noqa
            bad.append('map with a failing input raised %r' % (e,))
    return bad


def scen_default_chunksize():
    bad = []
    for psize in (1, 2, 3):
        for n in (0, 1, 3, 4, 5, 12, 13, 25):
            p = P.Pool.__new__(P.Pool)
            p._state, p._pool, p._cache, p._taskqueue = P.RUN, [object()] * psize, {}, Q()
            r = p._map_async(f, list(range(n)), P.mapstar)
            cs = r._chunksize
            batches = list(p._taskqueue.items[0][0])
            if n == 0:
                if cs != 0 or batches or not r.ready():
                    bad.append('_map_async of an empty input: chunksize %r, %d batches, ready=%r' % (cs, len(batches), r.ready()))
                continue
            if cs < 1 or cs * psize * 4 < n or (cs - 1) * psize * 4 >= n:
                bad.append('_map_async(%d items, %d workers): default chunksize %r' % (n, psize, cs))
            sizes = [len(t[1][3][0][1]) for t in batches]
            if sum(sizes) != n or any(s != cs for s in sizes[:-1]) or r._number_left != len(batches):
                bad.append('_map_async(%d items, %d workers): batches %r, buffer expects %d' % (n, psize, sizes, r._number_left))
            for explicit in (1, 2, 10):
                for empty in ([], iter(())):
                    p3 = P.Pool.__new__(P.Pool)
                    p3._state, p3._pool, p3._cache, p3._taskqueue = P.RUN, [object()] * psize, {}, Q()
                    r3 = p3._map_async(f, empty, P.mapstar, explicit)
                    if not r3.ready() or r3._value != [] or p3._cache:
                        bad.append('_map_async of an empty input with chunksize %d: ready=%r value=%r, still in the cache: %s '
                                   '(map() would never return)' % (explicit, r3.ready(), r3._value, bool(p3._cache)))
            p2 = P.Pool.__new__(P.Pool)
            p2._state, p2._pool, p2._cache, p2._taskqueue = P.CLOSE, [object()], {}, Q()
            if p2._map_async(f, [1], P.mapstar) is not None or p2._taskqueue.items:
                bad.append('_map_async on a closed pool submitted work')
    return bad


def scen_imap():
    bad = []
    for n in range(0, 5):
        recs = [(k, (k != 2, ('v', k))) for k in range(n)]
        for order in itertools.permutations(recs):
            for when_len in range(0, n + 1):
                for cls in (P.IMapIterator, P.IMapUnorderedIterator):
                    cache = {}
                    it = cls(cache)
                    got = []
                    for step, (i, r) in enumerate(order):
                        if step == when_len:
                            it._set_length(n)
                        it._set(i, r)
                    if when_len == n:
                        it._set_length(n)
                    while True:
                        try:
                            got.append(('ok', it.next(0)))
                        except StopIteration:
                            break
                        except P.TimeoutError:
                            got.append('TIMEOUT')
                            break
                        except Exception as e:       # noqa
                            got.append(('exc', e.args[0]))
                    want = [('ok', v) if ok else ('exc', v) for _, (ok, v) in (recs if cls is P.IMapIterator else order)]
                    if got != want or cache or not it.ready():
                        bad.append('%s of %d items, arrival order %r, length known after %d: %r (cache %r)' % (
                            cls.__name__, n, [i for i, _ in order], when_len, got, list(cache)))
                        if len(bad) > 5:
                            return bad
    return bad


class ScriptedCond:
    """stands in for the iterator's condition: wait() runs what the other threads do while the caller sleeps"""
    def __init__(self):
        self.script = None

    def __enter__(self):
        return self

    def __exit__(self, *a):
        return False

    def notify(self, *a):
        pass

    def wait(self, timeout=None):
        act, self.script = self.script, None
        if act:
            act()


def scen_imap_blocking():
    """next() has to block (nothing queued, not over); what it returns is decided by what arrived during the wait"""
    bad = []
    for cls in (P.IMapIterator, P.IMapUnorderedIterator):
        for n in range(0, 3):
            for arrives in ('end', 'nothing', 'item', 'failed-item', 'item-and-end'):
                if arrives in ('item', 'failed-item', 'item-and-end') and n == 0:
                    continue
                cache = {}
                it = cls(cache)
                it._cond = cond = ScriptedCond()
                consumed = n if arrives in ('end', 'nothing') else n - 1
                for k in range(consumed):
                    it._set(k, (True, ('v', k)))
                    it.next(0)
                last = (arrives != 'failed-item', ('v', n - 1))
                cond.script = {
                    'end': lambda: it._set_length(n),
                    'nothing': None,
                    'item': lambda: it._set(n - 1, last),
                    'failed-item': lambda: it._set(n - 1, last),
                    'item-and-end': lambda: (it._set(n - 1, last), it._set_length(n)),
                }[arrives]
                try:
                    got = ('ok', it.next(0.01))
                except StopIteration:
                    got = 'STOP'
                except P.TimeoutError:
                    got = 'TIMEOUT'
                except Exception as e:       # noqa
                    got = ('exc', e.args[0])
                want = {'end': 'STOP', 'nothing': 'TIMEOUT', 'item': ('ok', last[1]), 'failed-item': ('exc', last[1]),
                        'item-and-end': ('ok', last[1])}[arrives]
                if got != want:
                    bad.append('%s of %d items, %d consumed, caller blocked in next(); during the wait arrives: %s -> %r, '
                               'expected %r' % (cls.__name__, n, consumed, arrives, got, want))
    return bad


def main():
    data = json.load(open(sys.argv[1]))
    print('replay of %s / %s' % (data['function'], data['obligation']))
    bad = scen_map() + scen_default_chunksize() + scen_imap() + scen_imap_blocking()
    for b in bad[:8]:
        print('  violation on real code: ' + b)
    print('REPRODUCED on real code' if bad else 'not reproduced')
    sys.exit(1 if bad else 0)


main()
