"""Replay of a solver counterexample against the real code (runs under
/venv/bin/python with PYTHONPATH=<the tree the VCs came from>).  A replayer
module defines build(model, data) -> dict(call=callable, env=dict of names for
the clauses[, custom=fn, observe=fn]) and calls replay_main(build).

Exit status: 1 = the real code violates the clause with this input
(counterexample reproduced); 0 = not reproduced; 2 = replayer error."""
import ast
import copy
import json
import sys
import traceback


import threading as _threading
# the contracts call the state of an Event `flag`
_threading.Event.flag = property(lambda self: self.is_set())


class G:
    """ghost record"""
    def __init__(self, **kw):
        self.__dict__.update(kw)

    def __getattr__(self, name):       # ghost fields that the replay does not track
        raise Untracked(name)


class Untracked(Exception):
    pass


def implies(a, b):
    return (not a) or bool(b)


def iff(a, b):
    return bool(a) == bool(b)


def ite(c, a, b):
    return a if c else b


BASE_HELPERS = {
    'implies': implies, 'iff': iff, 'ite': ite,
    'val': lambda x: x, 'isnone': lambda x: x is None, 'real': lambda x: x,
    'truthy': bool, 'allocated': lambda x: True, 'fresh': lambda x: True,
    'is_hook': lambda x: True,
    'has': lambda d, k: k in d, 'get': lambda d, k: d.get(k) if hasattr(d, 'get') else d[k],
    'at': lambda l, i: l[i], 'beq': lambda a, b: bytes(a) == bytes(b),
}


class _Snap:
    """pre-state copy of an object (fields only)"""


def snapshot(o, memo):
    """tolerant deep copy of the pre-state: containers and plain objects are
    copied, locks / threads / callables are shared"""
    import threading
    if id(o) in memo:
        return memo[id(o)]
    if o is None or isinstance(o, (int, float, str, bytes, bool, frozenset)):
        return o
    if isinstance(o, threading.Event):
        c = threading.Event()
        if o.is_set():
            c.set()
        memo[id(o)] = c
        return c
    if isinstance(o, dict):
        c = {}
        memo[id(o)] = c
        for k, v in o.items():
            c[k] = snapshot(v, memo)
        return c
    if isinstance(o, (list, set, tuple)) or type(o).__name__ == 'deque':
        c = type(o)(snapshot(x, memo) for x in o)
        memo[id(o)] = c
        return c
    if isinstance(o, G):
        c = G(**{k: snapshot(v, memo) for k, v in o.__dict__.items()})
        memo[id(o)] = c
        return c
    if callable(o) or type(o).__module__ in ('_thread', 'threading'):
        return o
    if hasattr(o, '__dict__'):
        c = _Snap()
        memo[id(o)] = c
        c.__class__ = type('Snap_' + type(o).__name__, (_Snap,), {})
        for k, v in o.__dict__.items():
            c.__dict__[k] = snapshot(v, memo)
        return c
    return o


class Replay:
    def __init__(self, env):
        self.env = env
        self.memo = {}
        self.old_env = {k: snapshot(v, self.memo) for k, v in env.items()}
        self.untracked = []

    def old_of(self, obj):
        return self.memo.get(id(obj), obj)

    def helpers(self):
        h = dict(BASE_HELPERS)

        def only_key_changed(d, *keys):
            od = self.old_of(d)
            if isinstance(d, (set, frozenset)):
                return all((k in d) == (k in od) for k in set(d) | set(od) if k not in keys)
            return all((k in d) == (k in od) and (k not in d or d[k] is od[k] or d[k] == od[k]
                                                  or self.old_of(d[k]) is od[k])
                       for k in set(d) | set(od) if k not in keys)

        def map_only_changed(new, old, *keys):
            raise Untracked('ghost map')

        def only_changed_at(field, *objs):
            f = field.split('.', 1)[1]
            for oid, o_old in list(self.memo.items()):
                pass
            ok = True
            for orig_id, old in self.memo.items():
                orig = self._objs.get(orig_id)
                if orig is None or any(orig is o for o in objs):
                    continue
                if hasattr(orig, '__dict__') and f in getattr(orig, '__dict__', {}):
                    a, b = orig.__dict__[f], getattr(old, '__dict__', {}).get(f)
                    if not (a is b or a == b or self.old_of(a) is b):
                        ok = False
            return ok

        def unchanged(field):
            return only_changed_at(field)
        h.update(only_key_changed=only_key_changed, map_only_changed=map_only_changed,
                 only_changed_at=only_changed_at, unchanged=unchanged)
        return h

    def index_objects(self):
        self._objs = {}
        seen = set()
        stack = list(self.env.values())
        while stack:
            o = stack.pop()
            if id(o) in seen:
                continue
            seen.add(id(o))
            self._objs[id(o)] = o
            if isinstance(o, dict):
                stack.extend(o.values())
            elif isinstance(o, (list, tuple, set)):
                stack.extend(o)
            elif hasattr(o, '__dict__') and not callable(o):
                stack.extend(o.__dict__.values())

    def eval_clause(self, text, ns):
        tree = ast.parse(text.strip(), mode='eval')
        tr = _Old(self)
        tree = ast.fix_missing_locations(tr.visit(tree))
        ns = dict(ns)
        ns['__oldvals'] = tr.vals
        return eval(compile(tree, '<clause>', 'eval'), self.helpers(), ns)


class _Old(ast.NodeTransformer):
    def __init__(self, rp):
        self.rp = rp
        self.vals = []

    def visit_Call(self, node):
        if isinstance(node.func, ast.Name) and node.func.id == 'old':
            code = compile(ast.Expression(node.args[0]), '<old>', 'eval')
            v = eval(code, self.rp.helpers(), self.rp.old_env)
            self.vals.append(v)
            return ast.copy_location(ast.Subscript(
                value=ast.Name(id='__oldvals', ctx=ast.Load()),
                slice=ast.Constant(len(self.vals) - 1), ctx=ast.Load()), node)
        return self.generic_visit(node)


def replay_main(build):
    try:
        data = json.load(open(sys.argv[1]))
        model = data['model']
        setup = build(model, data)
        env = setup['env']
        rp = Replay(env)
        rp.index_objects()
        outcome, result, exc = 'return', None, None
        try:
            result = setup['call']()
        except BaseException as e:       # noqa
            outcome, exc = 'raise', e
        ns = dict(env)
        ns['result'] = result
        ns['exc'] = exc
        ob = data['obligation']
        contract = data.get('contract', {})
        print('replay of %s / %s' % (data['function'], ob))
        print('  input model: %s' % json.dumps(model, default=str)[:1500])
        print('  outcome on real code: %s %r' % (outcome, exc if outcome == 'raise' else result))
        if 'observe' in setup:
            print('  observed: %s' % (setup['observe'](),))
        for k, expr in contract.get('lets', {}).items():
            try:
                ns[k] = rp.eval_clause(expr, ns)
            except Exception:
                ns[k] = None
        verdict = None
        kind = ob.split('.')[0]

        def check(expr, label):
            try:
                okay = bool(rp.eval_clause(expr, ns))
            except Untracked as e:
                print('  clause %s mentions ghost state the replay does not track (%s)' % (label, e))
                return False
            print('  clause %s: %s -> %s' % (label, expr[:300], okay))
            return not okay
        if setup.get('custom') is not None:
            verdict = bool(setup['custom'](outcome, result, exc))
        elif kind == 'post':
            label = ob[len('post.'):]
            if outcome != 'return':
                print('  real code raised instead of returning: not the same path')
                verdict = False
            else:
                verdict = check(contract['ensures'][label], label)
        elif kind == 'raises':
            _, cls, label = ob.split('.', 2)
            if outcome != 'raise' or not _cls_matches(exc, cls):
                print('  real code did not raise %s' % cls)
                verdict = False
            else:
                verdict = check(contract['raises'][cls][label], label)
        elif kind == 'noraise':
            cls = ob.split('.', 1)[1]
            verdict = (outcome == 'raise' and _cls_matches(exc, cls))
            print('  escaping %s reproduced: %s' % (cls, verdict))
        else:
            print('  no evaluator for obligation kind %s (loop / call-site / frame obligations are '
                  'internal proof steps)' % kind)
            verdict = False
        print('REPRODUCED on real code' if verdict else 'not reproduced')
        sys.exit(1 if verdict else 0)
    except SystemExit:
        raise
    except Exception:
        traceback.print_exc()
        sys.exit(2)


def _cls_matches(exc, cls):
    if cls == 'AnyException':
        return isinstance(exc, Exception)
    if cls == 'AnyBaseException':
        return not isinstance(exc, Exception)
    return any(k.__name__ == cls for k in type(exc).__mro__)
