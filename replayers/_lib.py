"""Replay of a solver counterexample against the real code (runs under
/venv/bin/python with PYTHONPATH=/repo).  A replayer module defines
build(model) -> dict(call=callable, env=dict of names for the clauses,
ghost=dict) and calls replay_main(build).

Exit status: 1 = the real code violates the clause with this input
(counterexample reproduced); 0 = not reproduced; 2 = replayer error."""
import ast
import copy
import json
import sys
import traceback


class G:
    """ghost record"""
    def __init__(self, **kw):
        self.__dict__.update(kw)


def implies(a, b):
    return (not a) or bool(b)


def iff(a, b):
    return bool(a) == bool(b)


def val(x):
    return x


def isnone(x):
    return x is None


def real(x):
    return x


def ite(c, a, b):
    return a if c else b


HELPERS = {'implies': implies, 'iff': iff, 'val': val, 'isnone': isnone, 'real': real, 'ite': ite}


class _Old(ast.NodeTransformer):
    def __init__(self, old_ns):
        self.old_ns = old_ns
        self.vals = []

    def visit_Call(self, node):
        if isinstance(node.func, ast.Name) and node.func.id == 'old':
            code = compile(ast.Expression(node.args[0]), '<old>', 'eval')
            try:
                v = eval(code, dict(HELPERS), self.old_ns)
            except Exception as e:       # old value undefined
                v = ('<undefined: %s>' % e,)
            self.vals.append(v)
            return ast.copy_location(ast.Subscript(
                value=ast.Name(id='__oldvals', ctx=ast.Load()),
                slice=ast.Constant(len(self.vals) - 1), ctx=ast.Load()), node)
        return self.generic_visit(node)


def eval_clause(text, ns, old_ns):
    tree = ast.parse(text.strip(), mode='eval')
    tr = _Old(old_ns)
    tree = ast.fix_missing_locations(tr.visit(tree))
    ns = dict(ns)
    ns['__oldvals'] = tr.vals
    g = dict(HELPERS)
    return eval(compile(tree, '<clause>', 'eval'), g, ns)


def replay_main(build):
    try:
        data = json.load(open(sys.argv[1]))
        model = data['model']
        setup = build(model, data)
        env = setup['env']
        old_env = copy.deepcopy({k: v for k, v in env.items() if not callable(v) or isinstance(v, G)})
        outcome, result, exc = 'return', None, None
        try:
            result = setup['call']()
        except BaseException as e:       # noqa
            outcome, exc = 'raise', e
        ns = dict(env)
        ns['result'] = result
        ns['exc'] = exc
        ob = data['obligation']
        contract = data.get('contract', {})
        for k, expr in contract.get('lets', {}).items():
            try:
                ns[k] = eval_clause(expr, ns, old_env)
            except Exception as e:
                ns[k] = None
        verdict = None
        kind = ob.split('.')[0]
        print('replay of %s / %s' % (data['function'], ob))
        print('  input model: %s' % json.dumps(model, default=str))
        print('  outcome on real code: %s %r' % (outcome, exc if outcome == 'raise' else result))
        if 'observe' in setup:
            print('  observed: %s' % (setup['observe'](),))
        if kind == 'post':
            label = ob[len('post.'):]
            if outcome != 'return':
                print('  real code raised instead of returning: not the same path')
                verdict = 'custom' in setup and setup['custom'](outcome, result, exc)
            else:
                expr = contract['ensures'][label]
                okay = bool(eval_clause(expr, ns, old_env))
                print('  clause %s: %s -> %s' % (label, expr, okay))
                verdict = not okay
        elif kind == 'raises':
            _, cls, label = ob.split('.', 2)
            if outcome != 'raise' or type(exc).__name__ != cls:
                print('  real code did not raise %s' % cls)
                verdict = False
            else:
                expr = contract['raises'][cls][label]
                okay = bool(eval_clause(expr, ns, old_env))
                print('  clause %s: %s -> %s' % (label, expr, okay))
                verdict = not okay
        elif 'custom' in setup and setup.get('custom_first'):
            verdict = bool(setup['custom'](outcome, result, exc))
        elif kind == 'noraise':
            cls = ob.split('.', 1)[1]
            verdict = (outcome == 'raise' and type(exc).__name__ == cls)
            print('  escaping %s reproduced: %s' % (cls, verdict))
        elif 'custom' in setup:
            verdict = bool(setup['custom'](outcome, result, exc))
        else:
            print('  no evaluator for obligation kind %s' % kind)
            verdict = False
        print('REPRODUCED on real code' if verdict else 'not reproduced')
        sys.exit(1 if verdict else 0)
    except SystemExit:
        raise
    except Exception:
        traceback.print_exc()
        sys.exit(2)
