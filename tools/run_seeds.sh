#!/bin/sh
# usage: tools/run_seeds.sh [seed ...]   -- applies every seeded change in turn, runs the check of its property
# (C01-b is a regression of the D3 fix and belongs to C04's map variant), prints one line per seed.
cd /verif
SEEDS="${@:-$(ls seeded | grep -v RESULTS)}"
for s in $SEEDS; do
  p=$(echo $s | cut -d- -f1)
  [ "$s" = "C01-b" ] && p=C04
  out=$(tools/try_seed.sh /verif/seeded/$s/patch.diff $p 2>&1)
  if echo "$out" | grep -q "does not apply"; then echo "$s: PATCH DOES NOT APPLY"; continue; fi
  v=$(echo "$out" | grep -c "^VIOLATION")
  nf=$(echo "$out" | grep "^VIOLATION" | grep -c "no-failing-input-found")
  u=$(echo "$out" | grep -c "^UNDECIDED\|CHECKER-ERROR")
  echo "$s ($p): violations=$v (without replayed input: $nf) undecided/error=$u"
done
