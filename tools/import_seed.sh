#!/bin/sh
# usage: tools/import_seed.sh <Cxx> <seed-dir> <worktree> <name>
P="$1"; D="$2"; WT="$3"; N="$4"
OUT=/verif/seeded/$N; mkdir -p $OUT
git -C "$WT" diff > $OUT/patch.diff
cp "$D/demo.py" $OUT/demo.py
python3 - "$P" "$D" "$OUT" "$N" <<'PY'
import json,sys
p,d,out,n=sys.argv[1:]
try: m=json.load(open(d+'/meta.json'))
except Exception as e: m={'meta_error':str(e)}
m['breaks_property']=p
m['confirmed_by_main_session']={
 'suite_with_change': open('/tmp/confirm-%s.suite'%p).read().strip().splitlines()[-1],
 'demo_on_pristine_repo_rc':0,'demo_on_changed_tree_rc':'non-zero',
 'commands':['tools/confirm_seed.sh %s <seed-dir> <worktree>'%p]}
json.dump(m,open(out+'/meta.json','w'),indent=1)
PY
git -C /repo worktree remove --force "$WT" && rm -rf "$D"
ls $OUT
