#!/bin/sh
# usage: tools/confirm_seed.sh <Cxx-name> <seed-dir> <worktree-with-change>
# confirms: suite passes with the change; demo exits 0 on /repo and !=0 on the changed tree
N="$1"; D="$2"; WT="$3"
cd "$WT" || exit 3
git -C "$WT" diff > /tmp/confirm-$N.diff
cmp -s /tmp/confirm-$N.diff "$D/patch.diff" || echo "note: worktree diff differs from patch.diff (using worktree state)"
PYTHONPATH="$WT" timeout 600 /venv/bin/python -m pytest -q -p no:cacheprovider --timeout=900 t/unit > /tmp/confirm-$N.suite 2>&1; echo "suite rc=$? : $(tail -1 /tmp/confirm-$N.suite)"
cd "$D"
PYTHONPATH=/repo timeout 120 setsid /venv/bin/python demo.py > /tmp/confirm-$N.clean 2>&1 < /dev/null; echo "demo on /repo rc=$?"
PYTHONPATH="$WT" timeout 120 setsid /venv/bin/python demo.py > /tmp/confirm-$N.bad 2>&1 < /dev/null; echo "demo on changed rc=$? : $(tail -2 /tmp/confirm-$N.bad | tr '\n' ' ' | cut -c1-200)"
