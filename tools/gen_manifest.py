#!/usr/bin/env python3
"""Regenerate MANIFEST.json from contracts/<Cxx>.py metadata (MANIFEST_ENTRY
dicts) -- keeps the manifest valid and in step with what is built."""
import importlib.util
import json
import os
import sys

HERE = os.path.dirname(os.path.dirname(os.path.abspath(__file__)))
sys.path.insert(0, HERE)
sys.path.insert(0, os.path.join(HERE, 'contracts'))

NA_REASONS = {}
na_file = os.path.join(HERE, 'not_applicable.json')
if os.path.exists(na_file):
    NA_REASONS = json.load(open(na_file))

ids = [json.loads(l)['id'] for l in open(os.path.join(HERE, 'properties.jsonl'))]
checks, na = [], []
for pid in ids:
    path = os.path.join(HERE, 'contracts', pid + '.py')
    entry = None
    if os.path.exists(path):
        spec = importlib.util.spec_from_file_location('m_' + pid, path)
        mod = importlib.util.module_from_spec(spec)
        spec.loader.exec_module(mod)
        entry = getattr(mod, 'MANIFEST_ENTRY', None)
    if entry is None:
        na.append({'property_id': pid, 'reason': NA_REASONS.get(
            pid, 'designed (DESIGN.md section 7) but check not built yet')})
        continue
    checks.append({
        'property_id': pid,
        'quick_cmd': './check %s quick' % pid,
        'thorough_cmd': './check %s thorough' % pid,
        'evidence_file': 'evidence/%s.json' % pid,
        'replay_cmd_template': './check %s --replay {path}' % pid,
        'engine': 'pyvc',
        'level_claimed': {'category': 'proof', 'text': entry['text'],
                          'design_ref': entry.get('design_ref', 'DESIGN.md section 7, ' + pid)},
        'level_note': entry['note'],
        'technique': entry.get('technique', 'contract-based deductive verification: VCs generated from the AST of the real '
                                            'functions in /repo by a symbolic executor (pyvc), discharged by z3 (cvc5 for unknowns)'),
    })

manifest = {
    'version': 1,
    'setup_cmd': 'python3-vt -B -c "import z3, sys; sys.path.insert(0, \'.\'); import pyvc.driver" && mkdir -p evidence .scratch',
    'hooks': {
        'guard': 'BILLIARD_VERIF',
        'enable': 'no source hooks: contracts are sidecar files under /verif/contracts; nothing in /repo is instrumented',
        'baseline_off_cmd': 'cd /repo && /venv/bin/python -m pytest -ra -q -p no:cacheprovider --timeout=900 --continue-on-collection-errors',
        'source_commits': [],
        'add_only': True,
    },
    'engines': [{
        'name': 'pyvc', 'path': 'pyvc/',
        'serves_properties': [c['property_id'] for c in checks],
        'kind_free_text': 'own verification-condition generator: path-forking symbolic execution of the Python AST of the real '
                          'functions (re-read from /repo on every run) against sidecar contracts (pre/post/frame/loop invariants/ghost state), '
                          'modular calls, heap as per-field SMT arrays; obligations discharged by z3 5.1 with cvc5 1.0.3 and z3 4.8.12 as fall-backs; '
                          'counter-models replayed on the real code under /venv/bin/python',
    }],
    'checks': checks,
    'notes': 'See DESIGN.md (section 14 is the build report). Exit codes of ./check: 0 held, 1 violation (VIOLATION line), '
             '2 undecided, 3 checker error.  Recorded findings and repaired defects: known_findings.txt (read-only at run time; '
             'fix commits in /repo: 27eb052, 0e2a77f, 7f24f69, ab695da, a163998).  Seeded changes and what catches them: '
             'seeded/RESULTS.md; tools/run_seeds.sh re-applies every one of them to /repo in turn (and reverts) and runs the '
             'check of its property.',
    'not_applicable': na,
}
json.dump(manifest, open(os.path.join(HERE, 'MANIFEST.json'), 'w'), indent=1)
print('checks:', [c['property_id'] for c in checks])
print('not_applicable:', [n['property_id'] for n in na])
