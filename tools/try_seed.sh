#!/bin/sh
# usage: tools/try_seed.sh <patch.diff> <Cxx> [<Cyy> ...]
# applies the seeded change to /repo, runs the quick checks, always reverts.
P="$1"; shift
cd /repo || exit 3
if ! git diff --quiet; then echo "/repo is dirty, refusing"; exit 3; fi
trap 'git -C /repo checkout -- . ' EXIT INT TERM
git apply "$P" || { echo "patch does not apply"; exit 3; }
for c in "$@"; do
  PYVC_NO_EVIDENCE=1 /verif/check $c quick 2>&1 | cut -c1-300
  echo "[$c exit=$?]"
done
