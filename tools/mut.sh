#!/bin/sh
# usage: tools_mut.sh <prop> <file-relative-to-billiard> <sed-expr>   -- applies a mutation to a scratch copy and runs the check
set -e
S=/tmp/pyvc-mut-$$
mkdir -p $S && cp -r /repo/billiard $S/
sed -i "$3" $S/billiard/$2
if cmp -s $S/billiard/$2 /repo/billiard/$2; then echo "MUTATION DID NOT APPLY"; rm -rf $S; exit 9; fi
set +e
PYVC_REPO=$S PYVC_NO_EVIDENCE=1 /verif/check $1 quick 2>&1 | cut -c1-260
rc=$?
rm -rf $S
