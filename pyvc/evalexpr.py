"""Expression evaluation (exec mode: forks on decisions; spec mode: builds
formulas, never forks)."""
import ast

import z3

from .core import (Unsupported, ContractError, PathEnd, PyExc, VExc, VFunc,
                   VClass, VModule, VExternal, VBound, PyList, VIter, coerce, box)
from .shapes import (SV, SNone, SOpt, SRef, STup, SMap, SBytes, SStr, Value,
                     IntS, RealS, BoolS, ValS, NoneS, StrS, BytesS, OptS, RefS,
                     TupS, MapS, CONTAINERS, container_fields, fresh_name,
                     lift, ite, strlit, Val, mk_int, mk_bool, mk_real)

_truthy_fn = z3.Function('truthy', Val, z3.BoolSort())


def is_num(v):
    return isinstance(v, SV) and v.shape in (IntS, RealS, BoolS)


def as_arith(v):
    """z3 arithmetic term of a numeric value"""
    if v.shape is BoolS:
        return z3.If(v.e, z3.IntVal(1), z3.IntVal(0))
    return v.e


def num_join(a, b):
    """(ea, eb, shape) with Int/Real promotion"""
    ea, eb = as_arith(a), as_arith(b)
    if a.shape is RealS or b.shape is RealS:
        if ea.sort() != z3.RealSort():
            ea = z3.ToReal(ea)
        if eb.sort() != z3.RealSort():
            eb = z3.ToReal(eb)
        return ea, eb, RealS
    return ea, eb, IntS


class VGenObj(Value):
    """a generator object nobody consumes inside the function under analysis (it is handed on or returned): only its
    outermost iterable has been evaluated, as Python does when the expression is.  What the contracts can say about
    it is the language rule: a generator whose frame raised is finished (`resumable(x)` is false for it)"""
    def __init__(self, node, first):
        self.shape = None
        self.node, self.first = node, first

    def __repr__(self):
        return 'VGenObj(line %s)' % getattr(self.node, 'lineno', '?')


class VGen(Value):
    """generator expression over a symbolic collection (not yet consumed)"""
    def __init__(self, node, seq, ex):
        self.shape = None
        self.node, self.seq, self.ex = node, seq, ex

    def element(self, ex, index_or_key):
        """(value bound to the target, z3 filter condition, elt value) for one
        element of the underlying collection, evaluated without forking"""
        g = self.node.generators[0]
        seq = self.seq
        P = ex.path
        if type(seq).__name__ == 'VEnumerate':
            lst = seq.inner
            items = P.read_field(lst, 'items')
            item = STup([SV(IntS, index_or_key), items.shape.select(items, SV(IntS, index_or_key))])
        elif isinstance(seq, SRef) and seq.shape.cls in CONTAINERS and CONTAINERS[seq.shape.cls][0] == 'list':
            items = P.read_field(seq, 'items')
            item = items.shape.select(items, SV(IntS, index_or_key))
        else:
            item = index_or_key      # set / dict: the key itself
        ex.push_scope()
        try:
            ex.assign_target(g.target, item)
            env = dict(ex.scopes[-1])
        finally:
            ex.pop_scope()
        cond = z3.BoolVal(True)
        for c in g.ifs:
            cond = z3.And(cond, ex.spec_bool(c, env))
        return item, cond, (lambda: ex.spec_eval(self.node.elt, env))


class VBagDict(Value):
    """the __dict__ of an attribute-bag object (all of its attributes)"""
    def __init__(self, obj):
        self.shape = None
        self.obj = obj


class EvalMixin:
    def check_guard(self, obj, name):
        """guarded-by discipline of the function under verification: an access to self.<name> in its body (not in
        inlined callees' specs) is an obligation that the guard holds at that moment"""
        c = self.root.contract if hasattr(self, 'root') else None
        if not self.spec and isinstance(obj, SRef):
            # world-level guard on a field of a class (whoever accesses it): e.g. the shared memory behind a
            # synchronized wrapper may only be touched with the wrapper's lock held
            fg = getattr(self.world, 'field_guards', {}).get('%s.%s' % (obj.shape.cls, name))
            if fg is not None:
                from .contracts import prove
                prove(self, 'guarded.%s.%s' % (obj.shape.cls, name), fg(self, obj))
        if self.spec or c is None or not getattr(c, 'guarded', None) or name not in c.guarded:
            return
        me = self.root.scopes[0].get('self')
        if me is None or not isinstance(me, SRef) or not z3.simplify(me.id).eq(z3.simplify(obj.id)):
            return
        from .contracts import prove
        prove(self, 'guarded.%s' % name, self.spec_bool(c.guarded[name], {'self': me}))

    def is_bag(self, obj):
        d = self.world.classes.get(obj.shape.cls) if isinstance(obj, SRef) else None
        return bool(d is not None and d.bag)

    def bag_of(self, obj):
        bags = self.path.__dict__.setdefault('bags', {})
        return bags.setdefault(z3.simplify(obj.id).sexpr(), {})

    # ------------------------------------------------------------ raising
    def raise_(self, cls, *args, **attrs):
        if self.spec:
            raise ContractError('spec expression raises %s' % cls)
        raise PyExc(VExc(cls, [lift(a) for a in args],
                         {k: lift(v) for k, v in attrs.items()}))

    # ------------------------------------------------------------ truthiness
    def truthy(self, v):
        """z3 Bool (or python bool) for the truth value of v"""
        if isinstance(v, SV):
            if v.shape is BoolS:
                return v.e
            if v.shape is IntS:
                return v.e != 0
            if v.shape is RealS:
                return v.e != 0
            return _truthy_fn(v.e)
        if isinstance(v, SNone):
            return z3.BoolVal(False)
        if isinstance(v, SOpt):
            return z3.And(z3.Not(v.isnone), self.truthy(v.val))
        if isinstance(v, SRef):
            cls = v.shape.cls
            if cls in CONTAINERS:
                kind = CONTAINERS[cls][0]
                f = 'len' if kind == 'list' else 'size'
                ln = self.path.read_field(v, f).e
                if kind == 'list' and not self.spec:
                    # an empty list contains nothing (link len <-> multiset view);
                    # a true fact about every list, stated where emptiness is tested
                    cnt = self.path.read_field(v, 'cnt')
                    key = cnt.shape.key.fresh('q')
                    qs = cnt.shape.key.unpack(key)
                    self.path.assume(z3.Implies(ln <= 0, z3.ForAll(qs, cnt.shape.select(cnt, key).e == 0)))
                return ln > 0
            return z3.BoolVal(True)
        if isinstance(v, STup):
            return z3.BoolVal(len(v.items) > 0)
        if isinstance(v, SBytes):
            return v.len > 0
        if isinstance(v, SStr):
            return z3.BoolVal(len(v.s) > 0)
        if isinstance(v, PyList):
            return z3.BoolVal(len(v.items) > 0)
        if isinstance(v, (VFunc, VClass, VExternal, VModule, VExc, VBound)):
            return z3.BoolVal(True)
        raise Unsupported('truthiness of %r' % (v,))

    def test(self, v):
        """exec-mode branch on the truth value"""
        return self.path.decide(self.truthy(v))

    # ------------------------------------------------------------ equality
    def eq(self, a, b):
        """z3 Bool for a == b (Python value equality at these shapes)"""
        if isinstance(a, SOpt) or isinstance(b, SOpt):
            if isinstance(a, SNone):
                return b.isnone
            if isinstance(b, SNone):
                return a.isnone
            if isinstance(a, SOpt) and isinstance(b, SOpt):
                return z3.Or(z3.And(a.isnone, b.isnone),
                             z3.And(z3.Not(a.isnone), z3.Not(b.isnone),
                                    self.eq(a.val, b.val)))
            if isinstance(a, SOpt):
                return z3.And(z3.Not(a.isnone), self.eq(a.val, b))
            return z3.And(z3.Not(b.isnone), self.eq(a, b.val))
        if isinstance(a, SNone) or isinstance(b, SNone):
            if isinstance(a, SNone) and isinstance(b, SNone):
                return z3.BoolVal(True)
            other = b if isinstance(a, SNone) else a
            if isinstance(other, SV) and other.shape is ValS:
                return other.e == box(SNone())
            return z3.BoolVal(False)
        if is_num(a) and is_num(b):
            if a.shape is BoolS and b.shape is BoolS:
                return a.e == b.e
            ea, eb, _ = num_join(a, b)
            return ea == eb
        if isinstance(a, SRef) and isinstance(b, SRef):
            return a.id == b.id
        if isinstance(a, STup) and isinstance(b, STup):
            if len(a.items) != len(b.items):
                return z3.BoolVal(False)
            return z3.And([z3.BoolVal(True)] + [self.eq(x, y) for x, y in zip(a.items, b.items)])
        if isinstance(a, SStr) and isinstance(b, SStr):
            return z3.BoolVal(a.s == b.s)
        if isinstance(a, SBytes) and isinstance(b, SBytes):
            k = z3.Int(fresh_name('k'))
            return z3.And(a.len == b.len,
                          z3.ForAll([k], z3.Implies(z3.And(k >= 0, k < a.len),
                                                    a.at(k) == b.at(k))))
        if isinstance(a, SMap) and isinstance(b, SMap) and a.shape == b.shape:
            return z3.And([x == y for x, y in zip(a.comps, b.comps)])
        if isinstance(a, (SV, SStr, VExc, STup)) and isinstance(b, (SV, SStr, VExc, STup)):
            # at least one opaque: compare boxed
            if (isinstance(a, SV) and a.shape is ValS) or (isinstance(b, SV) and b.shape is ValS):
                return box(a) == box(b)
        if isinstance(a, VClass) and isinstance(b, VClass):
            return z3.BoolVal(a.name == b.name)
        if isinstance(a, VFunc) and isinstance(b, VFunc):
            return z3.BoolVal(a.qualname == b.qualname and a.node is b.node)
        if isinstance(a, VExternal) and isinstance(b, VExternal) and a.self_obj is None and b.self_obj is None \
                and a.name.startswith('builtins.') and b.name.startswith('builtins.'):
            return z3.BoolVal(a.name == b.name)       # builtin types / functions: identity by name
        if a is b:
            return z3.BoolVal(True)
        for x, y in ((a, b), (b, a)):
            if isinstance(x, SV) and x.shape is ValS and isinstance(y, VExternal) and y.self_obj is None:
                # an opaque value compared with a foreign object known by name (ctypes.c_char): one constant per name
                return x.e == z3.Const('ext:' + y.name, Val)
        if isinstance(a, Value) and isinstance(b, Value) and a.shape is not None \
                and b.shape is not None and a.shape != b.shape:
            return z3.BoolVal(False)
        raise Unsupported('equality of %r and %r' % (a, b))

    def is_(self, a, b):
        if isinstance(a, SNone) or isinstance(b, SNone):
            other = b if isinstance(a, SNone) else a
            if isinstance(other, SNone):
                return z3.BoolVal(True)
            if isinstance(other, SOpt):
                return other.isnone
            if isinstance(other, SV) and other.shape is ValS:
                return other.e == box(SNone())
            return z3.BoolVal(False)
        if isinstance(a, SOpt) and isinstance(b, SOpt):
            return self.eq(a, b)
        if isinstance(a, SRef) and isinstance(b, SRef):
            return a.id == b.id
        if isinstance(a, SV) and isinstance(b, SV) and a.shape is BoolS and b.shape is BoolS:
            return a.e == b.e
        return self.eq(a, b)

    # ------------------------------------------------------------ not-None
    def force(self, v, what='operand'):
        """use an optional value where a value is needed: None -> TypeError"""
        if isinstance(v, SOpt):
            if self.spec:
                return v.val
            if self.path.decide(v.isnone):
                self.raise_('TypeError', 'NoneType used as ' + what)
            return v.val
        if isinstance(v, SNone) and not self.spec:
            self.raise_('TypeError', 'NoneType used as ' + what)
        return v

    # ------------------------------------------------------------ entry
    def ev(self, node):
        m = getattr(self, 'ev_' + type(node).__name__, None)
        if m is None:
            raise Unsupported('expression %s at line %s' % (
                type(node).__name__, getattr(node, 'lineno', '?')))
        return m(node)

    def ev_Constant(self, node):
        v = node.value
        if v is Ellipsis:
            raise Unsupported('Ellipsis')
        if isinstance(v, bytes) and getattr(self.world, 'abstract_bytes', None) is not None:
            # byte strings as abstract values (equality, concatenation and
            # slicing by uninterpreted functions): see pyvc/absbytes.py
            return self.world.abstract_bytes.const(self, v)
        return lift(v)

    def ev_Name(self, node):
        return self.lookup(node.id)

    def ev_Tuple(self, node):
        items = []
        for e in node.elts:
            if isinstance(e, ast.Starred):
                v = self.ev(e.value)
                if isinstance(v, STup):
                    items += list(v.items)
                elif isinstance(v, PyList):
                    items += v.items
                else:
                    raise Unsupported('starred non-tuple')
            else:
                items.append(self.ev(e))
        if all(isinstance(i, Value) and i.shape is not None for i in items):
            return STup(items)
        return PyList(items)

    def ev_List(self, node):
        return PyList([self.ev(e) for e in node.elts])

    def ev_JoinedStr(self, node):
        for v in node.values:
            if isinstance(v, ast.FormattedValue):
                self.ev(v.value)
        return SV(ValS, z3.Const(fresh_name('fstr'), Val))

    def ev_IfExp(self, node):
        if self.spec:
            c = self.truthy(self.ev(node.test))
            a, b = self.ev(node.body), self.ev(node.orelse)
            a, b = self.join2(a, b)
            return ite(c, a, b)
        if self.test(self.ev(node.test)):
            return self.ev(node.body)
        return self.ev(node.orelse)

    def join2(self, a, b):
        if a.shape == b.shape:
            return a, b
        if isinstance(a, SNone) and not isinstance(b, SNone):
            s = b.shape if isinstance(b.shape, OptS) else OptS(b.shape)
            return coerce(self.path, a, s), coerce(self.path, b, s)
        if isinstance(b, SNone):
            b2, a2 = self.join2(b, a)
            return a2, b2
        if isinstance(a, SOpt) and not isinstance(b, SOpt):
            return a, coerce(self.path, b, a.shape)
        if isinstance(b, SOpt) and not isinstance(a, SOpt):
            return coerce(self.path, a, b.shape), b
        if is_num(a) and is_num(b):
            _, _, s = num_join(a, b)
            return coerce(self.path, a, s), coerce(self.path, b, s)
        return coerce(self.path, a, ValS), coerce(self.path, b, ValS)

    def ev_BoolOp(self, node):
        is_and = isinstance(node.op, ast.And)
        if self.spec:
            ts = [self.truthy(self.ev(v)) for v in node.values]
            return SV(BoolS, z3.And(ts) if is_and else z3.Or(ts))
        v = None
        for k, sub in enumerate(node.values):
            v = self.ev(sub)
            if k == len(node.values) - 1:
                return v
            t = self.test(v)
            if is_and and not t:
                return v
            if not is_and and t:
                return v
        return v

    def ev_UnaryOp(self, node):
        v = self.ev(node.operand)
        if isinstance(node.op, ast.Not):
            return SV(BoolS, z3.Not(self.truthy(v)))
        v = self.force(v)
        if isinstance(node.op, ast.USub):
            if not is_num(v):
                self.raise_('TypeError', 'bad operand for unary -')
            e = as_arith(v)
            return SV(RealS if v.shape is RealS else IntS, -e)
        if isinstance(node.op, ast.UAdd) and is_num(v):
            return v
        if isinstance(node.op, ast.Invert) and is_num(v) and v.shape is not RealS:
            return SV(IntS, -as_arith(v) - 1)
        raise Unsupported('unary op')

    def ev_BinOp(self, node):
        a, b = self.ev(node.left), self.ev(node.right)
        return self.binop(node.op, a, b)

    def binop(self, op, a, b):
        if isinstance(op, ast.Mod) and isinstance(a, SStr):
            return SV(ValS, z3.Const(fresh_name('fmt'), Val))
        if isinstance(op, ast.Mod) and isinstance(a, SV) and a.shape is ValS:
            return SV(ValS, z3.Const(fresh_name('fmt'), Val))
        a, b = self.force(a), self.force(b)
        if self.spec and (isinstance(a, SNone) or isinstance(b, SNone)):
            # arithmetic on a value that is None on this path (must be guarded by the clause): unspecified
            return SV(RealS, z3.Real(fresh_name("undefined_arith")))
        if is_num(a) and is_num(b):
            ea, eb, s = num_join(a, b)
            if isinstance(op, ast.Add):
                return SV(s, ea + eb)
            if isinstance(op, ast.Sub):
                return SV(s, ea - eb)
            if isinstance(op, ast.Mult):
                return SV(s, ea * eb)
            if isinstance(op, ast.Div):
                if not self.spec and self.path.decide(eb == 0):
                    self.raise_('ZeroDivisionError', 'division by zero')
                if s is IntS:
                    ea, eb = z3.ToReal(ea), z3.ToReal(eb)
                return SV(RealS, ea / eb)
            if isinstance(op, (ast.FloorDiv, ast.Mod)):
                if s is RealS:
                    raise Unsupported('floor division / modulo on reals')
                if not self.spec:
                    if self.path.decide(eb == 0):
                        self.raise_('ZeroDivisionError', 'integer division or modulo by zero')
                # Python floor semantics from z3's Euclidean div/mod
                q, r = ea / eb, ea % eb
                if isinstance(op, ast.FloorDiv):
                    # eb>0: floor == euclid.  eb<0: floor = euclid q - (r != 0 ? ... )
                    return SV(IntS, z3.If(eb > 0, q, z3.If(r == 0, q, q - 1)))
                return SV(IntS, z3.If(eb > 0, r, z3.If(r == 0, r, r + eb)))
            if isinstance(op, ast.BitAnd) and s is IntS:
                return SV(IntS, self.bitand(ea, eb))
            if isinstance(op, ast.BitOr) and s is IntS:
                cb = z3.simplify(eb)
                ca = z3.simplify(ea)
                if z3.is_int_value(ca) and z3.is_int_value(cb):
                    return mk_int(ca.as_long() | cb.as_long())
                raise Unsupported('symbolic |')
            if isinstance(op, ast.LShift) and s is IntS:
                cb = z3.simplify(eb)
                if z3.is_int_value(cb):
                    return SV(IntS, ea * (2 ** cb.as_long()))
            if isinstance(op, ast.RShift) and s is IntS:
                cb = z3.simplify(eb)
                if z3.is_int_value(cb):
                    return SV(IntS, ea / (2 ** cb.as_long()))
            if isinstance(op, ast.Pow) and s is IntS:
                cb, ca = z3.simplify(eb), z3.simplify(ea)
                if z3.is_int_value(cb) and z3.is_int_value(ca):
                    return mk_int(ca.as_long() ** cb.as_long())
            raise Unsupported('binary operator %s' % type(op).__name__)
        if isinstance(op, ast.Add):
            if getattr(self.world, 'abstract_bytes', None) is not None and isinstance(a, SV) and a.shape is ValS \
                    and isinstance(b, SV) and b.shape is ValS:
                return self.world.abstract_bytes.cat(self, a, b)
            if isinstance(a, SBytes) and isinstance(b, SBytes):
                return self.bytes_concat(a, b)
            if isinstance(a, STup) and isinstance(b, STup):
                return STup(a.items + b.items)
            if isinstance(a, PyList) and isinstance(b, PyList):
                return PyList(a.items + b.items)
            if isinstance(a, SStr) and isinstance(b, SStr):
                return SStr(a.s + b.s)
        if isinstance(op, ast.Mult):
            if isinstance(a, PyList) and len(a.items) == 1 and isinstance(b, SV) and b.shape is IntS:
                from .core import VRepeat
                return VRepeat(a.items[0], b.e)
        if isinstance(a, SV) and a.shape is ValS or isinstance(b, SV) and b.shape is ValS:
            # arithmetic on opaque values: result opaque, may raise TypeError
            if self.spec:
                return SV(ValS, z3.Const(fresh_name('opq'), Val))
            ext = self.find_external('binop<opaque>')
            if ext is not None:
                return ext(self, [SStr(type(op).__name__), a, b], {})
            raise Unsupported('arithmetic on opaque value')
        self.raise_('TypeError', 'unsupported operand type(s) for %s: %s and %s' % (
            type(op).__name__, a.shape, b.shape))

    def bitand(self, ea, eb):
        cb = z3.simplify(eb)
        ca = z3.simplify(ea)
        if z3.is_int_value(ca) and z3.is_int_value(cb):
            return z3.IntVal(ca.as_long() & cb.as_long())
        if z3.is_int_value(ca) and not z3.is_int_value(cb):
            ea, cb = eb, ca
        if z3.is_int_value(cb):
            m = cb.as_long()
            if m >= 0 and (m & (m + 1)) == 0:       # 2^k - 1
                return ea % (m + 1)
            if m < 0 and ((-m) & (-m - 1)) == 0:    # ~(2^k - 1) == -2^k
                return ea - ea % (-m)
        raise Unsupported('symbolic & with a non-mask operand')

    def bytes_concat(self, a, b):
        arr = z3.Const(fresh_name('cat'), z3.ArraySort(z3.IntSort(), z3.IntSort()))
        k = z3.Int(fresh_name('k'))
        self.path.assume(z3.ForAll([k], z3.Implies(z3.And(k >= 0, k < a.len),
                                                   z3.Select(arr, k) == a.at(k))))
        self.path.assume(z3.ForAll([k], z3.Implies(z3.And(k >= a.len, k < a.len + b.len),
                                                   z3.Select(arr, k) == b.at(k - a.len))))
        return SBytes(arr, z3.IntVal(0), a.len + b.len)

    def ev_Compare(self, node):
        left = self.ev(node.left)
        res = None
        for op, rn in zip(node.ops, node.comparators):
            right = self.ev(rn)
            c = self.compare(op, left, right)
            if res is None:
                res = c
            elif self.spec:
                res = z3.And(res, c)
            else:
                # chain: a < b < c  ==  (a<b) and (b<c) with short circuit;
                # operands here are side-effect free in the anchored code
                res = z3.And(res, c)
            left = right
        return SV(BoolS, res)

    def compare(self, op, a, b):
        if isinstance(op, ast.Is):
            return self.is_(a, b)
        if isinstance(op, ast.IsNot):
            return z3.Not(self.is_(a, b))
        if isinstance(op, ast.Eq):
            return self.eq(a, b)
        if isinstance(op, ast.NotEq):
            return z3.Not(self.eq(a, b))
        if isinstance(op, (ast.In, ast.NotIn)):
            r = self.contains(b, a)
            return z3.Not(r) if isinstance(op, ast.NotIn) else r
        a, b = self.force(a, 'comparison operand'), self.force(b, 'comparison operand')
        if is_num(a) and is_num(b):
            ea, eb, _ = num_join(a, b)
            if isinstance(op, ast.Lt):
                return ea < eb
            if isinstance(op, ast.LtE):
                return ea <= eb
            if isinstance(op, ast.Gt):
                return ea > eb
            if isinstance(op, ast.GtE):
                return ea >= eb
        if isinstance(a, STup) and isinstance(b, STup):
            # tuples of concrete integers (sys.version_info >= (3, 11)): lexicographic
            import operator
            f = {ast.Lt: operator.lt, ast.LtE: operator.le, ast.Gt: operator.gt, ast.GtE: operator.ge}[type(op)]
            verdict = None
            for x, y in zip(a.items, b.items):
                cx = self.conc_int(x) if is_num(x) else None
                cy = self.conc_int(y) if is_num(y) else None
                if cx is None or cy is None:
                    break
                if cx != cy:
                    verdict = f(cx, cy)
                    break
            else:
                verdict = f(len(a.items), len(b.items))
            if verdict is not None:
                return z3.BoolVal(verdict)
        if self.spec:
            if isinstance(a, SNone) or isinstance(b, SNone):
                # a clause comparing a value that is None on this path: such a
                # comparison has to be guarded by the clause itself; its value
                # is left unspecified (an arbitrary boolean)
                return z3.Bool(fresh_name('undefined_comparison'))
            raise ContractError('ordering comparison at shapes %s, %s' % (a.shape, b.shape))
        self.raise_('TypeError', 'ordering not supported between %s and %s' % (a.shape, b.shape))

    def contains(self, coll, x):
        if isinstance(coll, (STup, PyList)):
            return z3.Or([z3.BoolVal(False)] + [self.eq(x, i) for i in coll.items])
        coll = self.force(coll, 'container')
        if isinstance(coll, SV) and coll.shape is ValS and not self.spec:
            ext = self.find_external('contains<opaque>')
            if ext is not None:
                return ext(self, [x, coll], {}).e
        if isinstance(coll, SRef) and coll.shape.cls in CONTAINERS:
            info = CONTAINERS[coll.shape.cls]
            if info[0] in ('dict', 'set'):
                has = self.path.read_field(coll, 'has')
                key = coerce(self.path, self.force_key(x, info[1]), info[1])
                return has.shape.select(has, key).e
            if info[0] == 'list':
                # membership through the ghost multiset view (quantifier free)
                cnt = self.path.read_field(coll, 'cnt')
                return cnt.shape.select(cnt, coerce(self.path, self.force_key(x, info[1]), info[1])).e >= 1
        if isinstance(coll, SMap):
            key = coerce(self.path, x, coll.shape.key)
            r = coll.shape.select(coll, key)
            if r.shape is BoolS:
                return r.e
        raise Unsupported('membership in %r' % (coll,))

    def force_key(self, x, kshape):
        if isinstance(x, SOpt) and not isinstance(kshape, OptS):
            return self.force(x, 'key')
        return x

    # ------------------------------------------------------------ attributes
    def ev_Attribute(self, node):
        obj = self.ev(node.value)
        return self.getattr(obj, node.attr)

    def getattr(self, obj, name, default=None):
        if isinstance(obj, SOpt):
            obj = self.force(obj, 'attribute base (.%s)' % name)
        if isinstance(obj, SNone):
            if default is not None:
                return default
            self.raise_('AttributeError', "'NoneType' object has no attribute %r" % name)
        if isinstance(obj, SRef) and obj.shape.cls in CONTAINERS:
            if self.spec and name in container_fields(obj.shape.cls):
                return self.path.read_field(obj, name)
            return VBound(obj, name)
        if isinstance(obj, SRef):
            self.check_guard(obj, name)
            v = self.path.read_field(obj, name)
            if v is not None:
                return v
            if self.is_bag(obj):
                if name == '__dict__':
                    return VBagDict(obj)
                if name in self.bag_of(obj):
                    return self.bag_of(obj)[name]
            r = self.class_attr(obj, name)
            if r is not None:
                return r
            if default is not None:
                return default
            if self.spec:
                raise ContractError('spec reads undeclared attribute %s.%s' % (obj.shape.cls, name))
            self.raise_('AttributeError', '%s object has no attribute %r' % (obj.shape.cls, name))
        if type(obj).__name__ == 'VNamespace':
            if name not in obj.d:
                return SNone()      # not bound on this path
            return obj.d[name]
        if isinstance(obj, VModule):
            return self.module_attr(obj, name)
        if isinstance(obj, VExc):
            if name in obj.attrs:
                return obj.attrs[name]
            if name == 'code' and self.exc_subclass(obj.cls, 'SystemExit'):
                # SystemExit.code: None without arguments, the argument if there is one, else the tuple
                if not obj.args:
                    return SNone()
                return obj.args[0] if len(obj.args) == 1 else STup(obj.args)
            if name == 'args':
                return STup(obj.args) if all(getattr(a, 'shape', None) is not None for a in obj.args) else PyList(obj.args)
            if default is not None:
                return default
            if name == 'errno' and self.exc_subclass(obj.cls, 'OSError'):
                return SNone()
            self.raise_('AttributeError', '%s has no attribute %r' % (obj.cls, name))
        if isinstance(obj, VClass):
            return self.class_static_attr(obj, name)
        if isinstance(obj, SBytes):
            if name == 'itemsize':
                return mk_int(1)
            if name in ('tobytes', '__enter__', 'release', 'cast'):
                return VExternal('<bytes>.' + name, obj)
        if isinstance(obj, STup) and name in ('index', 'count'):
            raise Unsupported('tuple method')
        if isinstance(obj, SStr) and not self.spec:
            return VExternal('<opaque>.' + name, obj)
        if isinstance(obj, SV) and obj.shape is ValS:
            # attribute of an opaque value: opaque
            if self.spec:
                raise ContractError('attribute %s of opaque value in spec' % name)
            return VExternal('<opaque>.' + name, obj)
        if isinstance(obj, VExternal) and obj.self_obj is None:
            # attribute of an external class/module object: an external too
            return VExternal(obj.name + '.' + name)
        if isinstance(obj, VFunc) and name == '__name__':
            return SStr(obj.node.name)
        if default is not None:
            return default
        raise Unsupported('attribute %s of %r' % (name, obj))

    # ------------------------------------------------------------ subscripts
    def ev_Subscript(self, node):
        obj = self.ev(node.value)
        if isinstance(node.slice, ast.Slice):
            lo = self.ev(node.slice.lower) if node.slice.lower is not None else None
            hi = self.ev(node.slice.upper) if node.slice.upper is not None else None
            if node.slice.step is not None:
                raise Unsupported('slice step')
            return self.getslice(obj, lo, hi)
        idx = self.ev(node.slice)
        return self.getitem(obj, idx)

    def conc_int(self, v):
        if isinstance(v, SV) and v.shape in (IntS, BoolS):
            c = z3.simplify(as_arith(v))
            if z3.is_int_value(c):
                return c.as_long()
        return None

    def getitem(self, obj, idx):
        obj = self.force(obj, 'subscript base')
        if isinstance(obj, SV) and obj.shape is ValS and not self.spec:
            ext = self.find_external('getitem<opaque>')
            if ext is not None:
                return ext(self, [obj, idx], {})       # subscript of an opaque value: an assumed contract
        if type(obj).__name__ == 'PyDictC':
            for k, v in obj.pairs:
                if self.path.decide(self.eq(idx, k)):
                    return v
            self.raise_('KeyError', 'key')
        if isinstance(obj, (STup, PyList)):
            n = self.conc_int(self.force(idx))
            if n is None:
                raise Unsupported('symbolic index into a concrete tuple')
            if not -len(obj.items) <= n < len(obj.items):
                self.raise_('IndexError', 'tuple index out of range')
            return obj.items[n]
        if isinstance(obj, SBytes):
            i = self.index_in(self.force(idx), obj.len)
            return SV(IntS, obj.at(i))
        if isinstance(obj, SRef) and obj.shape.cls in CONTAINERS:
            info = CONTAINERS[obj.shape.cls]
            if info[0] == 'list':
                ln = self.path.read_field(obj, 'len').e
                i = self.index_in(self.force(idx), ln)
                items = self.path.read_field(obj, 'items')
                v = items.shape.select(items, SV(IntS, i))
                self.path._assume_wf(v)
                if not self.spec:
                    # an element of the list occurs in it (link items <-> multiset view)
                    cnt = self.path.read_field(obj, 'cnt')
                    self.path.assume(cnt.shape.select(cnt, v).e >= 1)
                return v
            if info[0] == 'dict':
                key = coerce(self.path, self.force_key(idx, info[1]), info[1])
                has = self.path.read_field(obj, 'has')
                present = has.shape.select(has, key).e
                if not self.spec and not self.path.decide(present):
                    self.raise_('KeyError', 'key')
                vals = self.path.read_field(obj, 'val')
                v = vals.shape.select(vals, key)
                self.path._assume_wf(v)
                return v
        if isinstance(obj, SV) and obj.shape is ValS and getattr(self.world, 'abstract_seqs', False):
            from .absseq import seq_at, seq_len
            i = as_arith(self.force(idx))
            n = seq_len(obj.e)
            if not self.spec and self.path.decide(z3.Or(i >= n, i < -n)):
                self.raise_('IndexError', 'list index out of range')
            return SV(ValS, seq_at(obj.e, z3.If(i < 0, i + n, i)))
        if isinstance(obj, SMap):
            key = coerce(self.path, idx, obj.shape.key)
            v = obj.shape.select(obj, key)
            self.path._assume_wf(v)
            return v
        if isinstance(obj, SRef) and not self.spec:
            decl = self.world.classes.get(obj.shape.cls)
            if decl is not None and '__getitem__' in decl.methods:
                return decl.methods['__getitem__'](self, [obj, idx], {})      # declared (assumed) item access
        raise Unsupported('subscript of %r' % (obj,))

    def index_in(self, idx, ln):
        """normalise an index against length ln; IndexError path if outside"""
        if not is_num(idx) or idx.shape is RealS:
            self.raise_('TypeError', 'indices must be integers')
        i = as_arith(idx)
        if self.spec:
            return z3.If(i < 0, i + ln, i)
        if self.path.decide(z3.Or(i >= ln, i < -ln)):
            self.raise_('IndexError', 'index out of range')
        if self.path.decide(i < 0):
            return i + ln
        return i

    def clamp(self, v, ln, default):
        if v is None or isinstance(v, SNone):
            return default
        v = self.force(v)
        i = as_arith(v)
        i = z3.If(i < 0, z3.If(i + ln < 0, z3.IntVal(0), i + ln), z3.If(i > ln, ln, i))
        return i

    def getslice(self, obj, lo, hi):
        obj = self.force(obj, 'slice base')
        if isinstance(obj, (STup, PyList)):
            l = self.conc_int(lo) if lo is not None else None
            h = self.conc_int(hi) if hi is not None else None
            if (lo is not None and l is None) or (hi is not None and h is None):
                raise Unsupported('symbolic slice of a concrete tuple')
            items = obj.items[l:h]
            return STup(items) if isinstance(obj, STup) else PyList(items)
        if getattr(self.world, 'abstract_bytes', None) is not None and isinstance(obj, SV) and obj.shape is ValS:
            return self.world.abstract_bytes.slice(self, obj, lo, hi)
        if isinstance(obj, SBytes):
            a = self.clamp(lo, obj.len, z3.IntVal(0))
            b = self.clamp(hi, obj.len, obj.len)
            n = z3.If(b - a < 0, z3.IntVal(0), b - a)
            return SBytes(obj.arr, obj.off + a, n)
        if isinstance(obj, SRef) and not self.spec:
            decl = self.world.classes.get(obj.shape.cls)
            if decl is not None and '__getslice__' in decl.methods:
                return decl.methods['__getslice__'](self, [obj, lo, hi], {})      # declared (assumed) slicing
        if isinstance(obj, SV) and obj.shape is ValS and getattr(self.world, 'opaque_slices', False):
            # slice of an opaque value: some value, a function of the value and the bounds only (nothing else is known)
            from .shapes import Val
            f = z3.Function('opaque_slice', Val, z3.IntSort(), z3.IntSort(), Val)
            none = z3.Int('opaque_slice_no_bound')
            a = as_arith(self.force(lo)) if lo is not None and not isinstance(lo, SNone) else none
            b = as_arith(self.force(hi)) if hi is not None and not isinstance(hi, SNone) else none
            return SV(ValS, f(obj.e, a, b))
        raise Unsupported('slice of %r' % (obj,))

    # ------------------------------------------------------------ lambda etc
    def ev_Lambda(self, node):
        return VFunc('<lambda>', node, self.module, env=self.env_chain())

    def ev_Dict(self, node):
        if not node.keys:
            return PyList([])   # empty dict literal: only usable via declared locals
        if any(k is None for k in node.keys):
            raise Unsupported('dict literal with ** unpacking')
        from .executor import PyDictC
        return PyDictC([(self.ev(k), self.ev(v)) for k, v in zip(node.keys, node.values)])

    def ev_Starred(self, node):
        raise Unsupported('starred')

    def ev_GeneratorExp(self, node):
        g0 = node.generators[0]
        lazy_src = isinstance(g0.iter, ast.Call) and isinstance(g0.iter.func, ast.Name) and g0.iter.func.id == 'enumerate'
        if len(node.generators) > 1 or lazy_src:
            # not consumed here: evaluate the outermost iterable (its argument, for enumerate(...)) and hand the
            # suspended generator on
            first = self.ev(g0.iter.args[0]) if lazy_src and len(g0.iter.args) == 1 else self.ev(g0.iter)
            if lazy_src and isinstance(first, (STup, PyList)) or (lazy_src and isinstance(first, SRef)):
                return self.comprehension(node)       # a concrete / heap sequence: the usual treatment
            return VGenObj(node, first)
        return self.comprehension(node)

    def ev_DictComp(self, node):
        """{k: v for k, v in d.items() if cond(k, v)}: a new dict holding the
        selected entries of d (same keys, same values)"""
        from .builtins_impl import VView, alloc_container
        if len(node.generators) != 1:
            raise Unsupported('nested dict comprehension')
        g = node.generators[0]
        src = self.ev(g.iter)
        if not (isinstance(src, VView) and src.kind == 'items' and isinstance(g.target, ast.Tuple)
                and len(g.target.elts) == 2 and all(isinstance(e, ast.Name) for e in g.target.elts)
                and isinstance(node.key, ast.Name) and node.key.id == g.target.elts[0].id
                and isinstance(node.value, ast.Name) and node.value.id == g.target.elts[1].id):
            raise Unsupported('dict comprehension other than {k: v for k, v in d.items() if ...}')
        P = self.path
        d = src.d
        has, val = P.read_field(d, 'has'), P.read_field(d, 'val')
        key = has.shape.key.fresh('k')
        qs = has.shape.key.unpack(key)
        v = val.shape.select(val, key)
        env = {g.target.elts[0].id: key, g.target.elts[1].id: v}
        cond = z3.BoolVal(True)
        for c in g.ifs:
            cond = z3.And(cond, self.spec_bool(c, env))
        new = alloc_container(self, d.shape)
        nhas = has.shape.fresh('selected')
        P.assume(z3.ForAll(qs, nhas.shape.select(nhas, key).e == z3.And(has.shape.select(has, key).e, cond)))
        size = IntS.fresh('selected_size')
        P.assume(z3.And(size.e >= 0, size.e <= P.read_field(d, 'size').e))
        P.write_field(new, 'has', nhas)
        P.write_field(new, 'val', val)
        P.write_field(new, 'size', size)
        return new

    def ev_ListComp(self, node):
        return self.comprehension(node)

    def symbolic_listcomp(self, node, seq):
        """[x for x in <dict view> if cond(x)]  -> the view, filtered (cond is
        evaluated in the state at this point);
        [f(x) for x in <heap list>]          -> a new heap list, element-wise"""
        from .builtins_impl import VView, alloc_container, const_map
        g = node.generators[0]
        if isinstance(seq, SRef) and seq.shape.cls in CONTAINERS and CONTAINERS[seq.shape.cls][0] in ('dict', 'set'):
            seq = VView(seq, 'keys')
        ident = isinstance(node.elt, ast.Name) and isinstance(g.target, ast.Name) and node.elt.id == g.target.id
        if isinstance(seq, VView) and ident:
            store_then = self.path.snapshot()
            ex = self

            def filt(elem):
                cur = ex.path.store
                ex.path.store = dict(store_then)
                try:
                    env = {g.target.id: elem}
                    c = z3.BoolVal(True)
                    for cond in g.ifs:
                        c = z3.And(c, ex.spec_bool(cond, env))
                    return c
                finally:
                    ex.path.store = cur
            out = VView(seq.d, seq.kind)
            prev = getattr(seq, 'filter', None)
            out.filter = (lambda e: z3.And(prev(e), filt(e))) if prev else filt
            return out
        if isinstance(seq, SRef) and seq.shape.cls in CONTAINERS and CONTAINERS[seq.shape.cls][0] == 'list' and g.ifs and ident:
            from .builtins_impl import VFilteredList
            store_then = self.path.snapshot()
            ex = self

            def cond(elem):
                cur = ex.path.store
                ex.path.store = dict(store_then)
                try:
                    c = z3.BoolVal(True)
                    for cnd in g.ifs:
                        c = z3.And(c, ex.spec_bool(cnd, {g.target.id: elem}))
                    return c
                finally:
                    ex.path.store = cur
            return VFilteredList(seq, cond)
        if isinstance(seq, SRef) and seq.shape.cls in CONTAINERS and CONTAINERS[seq.shape.cls][0] == 'list' and not g.ifs:
            P = self.path
            ln = P.read_field(seq, 'len').e
            items = P.read_field(seq, 'items')
            k = z3.Int(fresh_name('k'))
            env = {}
            self.push_scope()
            try:
                self.assign_target(g.target, items.shape.select(items, SV(IntS, k)))
                env = dict(self.scopes[-1])
            finally:
                self.pop_scope()
            sample = self.spec_eval(node.elt, env)
            from .shapes import list_of
            shape = list_of(sample.shape)
            new = alloc_container(self, shape)
            nitems = container_fields(shape.cls)['items'].fresh('mapped')
            P.assume(z3.ForAll([k], z3.Implies(z3.And(k >= 0, k < ln), self.eq(
                nitems.shape.select(nitems, SV(IntS, k)), sample))))
            P.write_field(new, 'items', nitems)
            P.write_field(new, 'len', SV(IntS, ln))
            # multiset view: v occurs in the new list iff some element maps to it
            cnt = container_fields(shape.cls)['cnt'].fresh('mappedcnt')
            key = sample.shape.fresh('v')
            qs = sample.shape.unpack(key)
            P.assume(z3.ForAll(qs, (cnt.shape.select(cnt, key).e >= 1) ==
                               z3.Exists([k], z3.And(k >= 0, k < ln, self.eq(sample, key)))))
            P.write_field(new, 'cnt', cnt)
            return new
        raise Unsupported('comprehension over symbolic collection')

    def comprehension(self, node):
        """supported only over concrete sequences"""
        if len(node.generators) != 1:
            raise Unsupported('nested comprehension')
        g = node.generators[0]
        seq = self.ev(g.iter)
        if isinstance(seq, VIter):
            seq = PyList(seq.items[seq.pos:])
        if not isinstance(seq, (STup, PyList)):
            if isinstance(node, ast.GeneratorExp):
                # lazily consumed generator over a symbolic collection: the
                # consumers next(gen, default) / set(gen) know what to do
                return VGen(node, seq, self)
            return self.symbolic_listcomp(node, seq)
        out = []
        self.push_scope()
        try:
            for it in seq.items:
                self.assign_target(g.target, it)
                ok = True
                for cond in g.ifs:
                    if not self.test(self.ev(cond)):
                        ok = False
                        break
                if ok:
                    out.append(self.ev(node.elt))
        finally:
            self.pop_scope()
        return PyList(out)
