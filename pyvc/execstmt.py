"""Statement execution."""
import ast

import z3

from .core import (Unsupported, ContractError, PathEnd, PyExc, Return, Break,
                   Continue, VExc, VFunc, VClass, VModule, VExternal, VBound,
                   PyList, VIter, coerce, box)
from .shapes import (SV, SNone, SOpt, SRef, STup, SMap, SBytes, SStr, Value,
                     IntS, RealS, BoolS, ValS, NoneS, StrS, BytesS, OptS, RefS,
                     TupS, MapS, CONTAINERS, container_fields, fresh_name,
                     lift, ite, Val, mk_int, mk_bool)
from .evalexpr import is_num, as_arith

LOG_CALLS = {'debug', 'info', 'warning', 'error', 'sub_debug', 'sub_warning',
             'util.debug', 'util.info', 'util.sub_debug', 'util.sub_warning',
             'warnings.warn', 'logger.debug', 'logger.info', 'logger.warning',
             'logger.error', 'util.log_to_stderr'}


class StmtMixin:
    def run_block(self, stmts):
        c = self.contract
        blocks = getattr(c, 'blocks', None) if c is not None and self.qualname == c.qualname else None
        if not blocks:
            for s in stmts:
                self.run(s)
            return
        i = 0
        while i < len(stmts):
            s = stmts[i]
            first = ast.unparse(s).split('\n')[0]
            blk = next((b for b in blocks if first.startswith(b['first'])), None)
            if blk is None:
                self.run(s)
                i += 1
                continue
            j = i
            while not ast.unparse(stmts[j]).split('\n')[0].startswith(blk['last']):
                j += 1
                if j >= len(stmts):
                    raise ContractError('block %r: last statement %r not found in the same statement list' % (
                        blk.get('label', blk['first']), blk['last']))
            self.abstract_block(blk, stmts[i:j + 1])
            i = j + 1

    def abstract_block(self, blk, stmts):
        """statement contract: the statements are not executed; the names they
        assign get arbitrary values of the declared shapes (only names listed in
        blk['assigns'] may be assigned -- checked syntactically -- and the block
        must not return / break / continue / yield); the heap fields named in
        blk['modifies'] are havocked; it ends normally or by one of blk['raises']"""
        assigned = set()

        def escapes(node, in_loop):
            # break / continue of a loop that lies inside the block stay inside it
            if isinstance(node, (ast.Return, ast.Yield, ast.YieldFrom)):
                return type(node).__name__
            if isinstance(node, (ast.Break, ast.Continue)) and not in_loop:
                return type(node).__name__
            if isinstance(node, (ast.FunctionDef, ast.Lambda)):
                return None
            inner = in_loop or isinstance(node, (ast.For, ast.While))
            for ch in ast.iter_child_nodes(node):
                # (the else: branch of a loop is outside it, but a break there is rare enough to stay rejected)
                r = escapes(ch, inner)
                if r:
                    return r
            return None
        for st in stmts:
            bad = escapes(st, False)
            if bad:
                raise ContractError('abstracted block %r contains %s' % (blk.get('label'), bad))
            for n in ast.walk(st):
                if isinstance(n, ast.Name) and isinstance(n.ctx, (ast.Store, ast.Del)):
                    assigned.add(n.id)
                if isinstance(n, (ast.Import, ast.ImportFrom)):
                    for a in n.names:
                        assigned.add((a.asname or a.name).split('.')[0])
                if isinstance(n, (ast.Attribute, ast.Subscript)) and isinstance(n.ctx, ast.Store) and not blk.get('heap_ok'):
                    raise ContractError('abstracted block %r stores to %s (declare heap_ok and modifies)' % (
                        blk.get('label'), ast.unparse(n)))
        allowed = blk.get('assigns', {})
        extra = assigned - set(allowed) - set(blk.get('dead', []))
        if extra:
            raise ContractError('abstracted block %r assigns %s, not declared in its statement contract' % (
                blk.get('label'), sorted(extra)))
        self.dropped.add('statements abstracted by a statement contract [%s]: lines %d-%d of %s (assigns %s; may raise %s)' % (
            blk.get('label', '?'), stmts[0].lineno, getattr(stmts[-1], 'end_lineno', stmts[-1].lineno), self.qualname,
            sorted(allowed), blk.get('raises', [])))
        if blk.get('modifies'):
            from .contracts import havoc_modifies
            havoc_modifies(self, blk['modifies'], self)
        for name, shape in allowed.items():
            v = shape.fresh('blk!' + name)
            self.path._assume_wf(v)
            self.bind(name, v)
        for name in blk.get('dead', []):
            self.unbind(name)
        outcomes = [None] + list(blk.get('raises', []))
        k = self.path.choose(len(outcomes))
        if outcomes[k] is not None:
            o = outcomes[k]
            if callable(o):
                o(self)
            else:
                self.raise_(o)

    def run(self, node):
        self.cur_line = getattr(node, 'lineno', self.cur_line)
        c = self.contract
        if c is not None and c.lemmas and self.qualname == c.qualname:
            # intermediate assertions (proof hints): proved here, then assumed.
            # Anchored by the text of the statement they precede.
            src = None
            for lem in c.lemmas:
                if 'before' in lem:
                    src = src or ast.unparse(node).split('\n')[0]
                    if src == lem['before']:
                        from .contracts import prove
                        for field, expr in lem.get('ghost', []):
                            # ghost assignment: g.<field> := <expr> (ghost state only)
                            self.path.write_field(self.lookup('g'), field, self.spec_eval(expr, None, self.old_store))
                        for lab, clause in lem.get('assume', {}).items():
                            # an assumed fact instantiated here (a global invariant the contracts list as an assumption)
                            self.path.assume(self.spec_bool(clause, None, self.old_store), tag=lab)
                        for lab, clause in lem.get('prove', {}).items():
                            f = self.spec_bool(clause, None, self.old_store)
                            prove(self, 'lemma.' + lab, f)
                            self.path.assume(f, tag=lab)
        m = getattr(self, 'st_' + type(node).__name__, None)
        if m is None:
            raise Unsupported('statement %s at line %s' % (type(node).__name__, node.lineno))
        return m(node)

    def st_Pass(self, node):
        pass

    def st_Expr(self, node):
        if isinstance(node.value, ast.Constant):
            return                      # docstring
        if isinstance(node.value, ast.Call):
            fn = ast.unparse(node.value.func)
            if fn in LOG_CALLS:
                # logging: arguments are still evaluated, the call is a no-op
                for a in node.value.args:
                    try:
                        self.ev(a)
                    except Unsupported:
                        pass
                self.dropped.add('log call %s' % fn)
                return
        if isinstance(node.value, (ast.Yield, ast.YieldFrom)):
            return self.do_yield(node.value)
        self.ev(node.value)

    def st_Assign(self, node):
        # container literal with a declared local shape
        v = None
        if len(node.targets) == 1 and isinstance(node.targets[0], ast.Tuple) and isinstance(node.value, ast.Tuple) \
                and len(node.targets[0].elts) == len(node.value.elts) \
                and all(isinstance(t, ast.Name) for t in node.targets[0].elts):
            # a, b = {}, {}  with declared local container shapes
            vals = []
            for t, e in zip(node.targets[0].elts, node.value.elts):
                x = self.maybe_alloc_local(t.id, e)
                vals.append(x if x is not None else self.ev(e))
            for t, x in zip(node.targets[0].elts, vals):
                self.bind(t.id, x)
            return
        if len(node.targets) == 1 and isinstance(node.targets[0], ast.Name):
            v = self.maybe_alloc_local(node.targets[0].id, node.value)
        if v is None:
            if isinstance(node.value, (ast.Yield,)):
                v = self.do_yield(node.value)
            else:
                v = self.ev(node.value)
        for tgt in node.targets:
            self.assign_target(tgt, v)

    def st_AnnAssign(self, node):
        if node.value is not None:
            self.assign_target(node.target, self.ev(node.value))

    def st_AugAssign(self, node):
        tgt = node.target
        if isinstance(tgt, ast.Name):
            cur = self.lookup(tgt.id)
        elif isinstance(tgt, ast.Attribute):
            base = self.ev(tgt.value)
            cur = self.getattr(base, tgt.attr)
        elif isinstance(tgt, ast.Subscript):
            base = self.ev(tgt.value)
            idx = self.ev(tgt.slice)
            cur = self.getitem(base, idx)
        else:
            raise Unsupported('augmented assignment target')
        rhs = self.ev(node.value)
        if isinstance(cur, PyList) and isinstance(node.op, ast.Add):
            new = PyList(cur.items + list(rhs.items))
        else:
            new = self.binop(node.op, cur, rhs)
        if isinstance(tgt, ast.Name):
            self.bind(tgt.id, new)
        elif isinstance(tgt, ast.Attribute):
            self.setattr(base, tgt.attr, new)
        else:
            self.setitem(base, idx, new)

    def assign_target(self, tgt, v):
        if isinstance(tgt, ast.Name):
            self.bind(tgt.id, v)
        elif isinstance(tgt, (ast.Tuple, ast.List)):
            v = self.force(v, 'unpacking source')
            if isinstance(v, VIter):
                v = PyList(v.items[v.pos:])
            if not isinstance(v, (STup, PyList)):
                if isinstance(v, SV) and v.shape is ValS:
                    raise Unsupported('unpacking an opaque value')
                self.raise_('TypeError', 'cannot unpack non-iterable')
            if any(isinstance(e, ast.Starred) for e in tgt.elts):
                k = [i for i, e in enumerate(tgt.elts) if isinstance(e, ast.Starred)][0]
                after = len(tgt.elts) - k - 1
                if len(v.items) < len(tgt.elts) - 1:
                    self.raise_('ValueError', 'not enough values to unpack')
                for e, x in zip(tgt.elts[:k], v.items[:k]):
                    self.assign_target(e, x)
                mid = v.items[k:len(v.items) - after]
                self.assign_target(tgt.elts[k].value, PyList(mid))
                if after:
                    for e, x in zip(tgt.elts[k + 1:], v.items[len(v.items) - after:]):
                        self.assign_target(e, x)
                return
            if len(v.items) != len(tgt.elts):
                self.raise_('ValueError', 'wrong number of values to unpack')
            for e, x in zip(tgt.elts, v.items):
                self.assign_target(e, x)
        elif isinstance(tgt, ast.Attribute):
            base = self.ev(tgt.value)
            self.setattr(base, tgt.attr, v)
        elif isinstance(tgt, ast.Subscript):
            base = self.ev(tgt.value)
            if isinstance(tgt.slice, ast.Slice):
                lo = self.ev(tgt.slice.lower) if tgt.slice.lower is not None else None
                hi = self.ev(tgt.slice.upper) if tgt.slice.upper is not None else None
                if isinstance(base, SV) and base.shape is ValS and getattr(self.world, 'abstract_seqs', False) \
                        and tgt.slice.step is None and isinstance(tgt.value, (ast.Attribute, ast.Name)):
                    # slice assignment on a list held as an abstract value: the
                    # new value goes back where the list was read from
                    from .absseq import splice
                    src = coerce(self.path, v, ValS)
                    new = splice(self.path, base.e, as_arith(self.force(lo)) if lo is not None else None,
                                 as_arith(self.force(hi)) if hi is not None else None, src.e)
                    self.assign_target(tgt.value, new)
                    return
                self.setslice(base, lo, hi, v)
            else:
                self.setitem(base, self.ev(tgt.slice), v)
        else:
            raise Unsupported('assignment target %s' % type(tgt).__name__)

    def setattr(self, base, name, v):
        base = self.force(base, 'attribute base')
        if isinstance(base, SRef):
            self.check_guard(base, name)
            owner, shape = self.world.field_owner(base.shape.cls, name)
            if owner is None and self.is_bag(base):
                self.bag_of(base)[name] = v
                return
            if owner is None:
                raise ContractError('assignment to undeclared field %s.%s (line %s)' % (
                    base.shape.cls, name, self.cur_line))
            if self.is_bag(base):
                self.bag_of(base)[name] = v
            try:
                self.path.write_field(base, name, v)
            except Unsupported:
                if self.spec:
                    raise
                # value of a shape the field was not declared with
                raise ContractError('field %s.%s (%s) assigned a value of shape %s at line %s' % (
                    base.shape.cls, name, shape, getattr(v, 'shape', type(v).__name__), self.cur_line))
            return
        if isinstance(base, VExc):
            base.attrs[name] = v
            return
        if isinstance(base, VModule) and not base.name.startswith('billiard.'):
            # rebinding an attribute of a foreign module (sys.exit = wrapper): visible to later lookups on this path
            self.path.__dict__.setdefault('module_overrides', {})[base.name + '.' + name] = v
            return
        raise Unsupported('setattr on %r' % (base,))

    def setitem(self, base, idx, v):
        base = self.force(base, 'subscript base')
        if isinstance(base, SRef) and base.shape.cls in CONTAINERS:
            info = CONTAINERS[base.shape.cls]
            if info[0] == 'list':
                ln = self.path.read_field(base, 'len').e
                i = self.index_in(self.force(idx), ln)
                from .builtins_impl import cnt_get, cnt_add
                items = self.path.read_field(base, 'items')
                v = coerce(self.path, v, info[1])
                old = items.shape.select(items, SV(IntS, i))
                self.path.assume(cnt_get(self, base, old).e >= 1)
                cnt_add(self, base, old, -1)
                cnt_add(self, base, v, 1)
                self.path.write_field(base, 'items', items.shape.store(items, SV(IntS, i), v))
                return
            if info[0] == 'dict':
                key = coerce(self.path, self.force_key(idx, info[1]), info[1])
                has = self.path.read_field(base, 'has')
                vals = self.path.read_field(base, 'val')
                size = self.path.read_field(base, 'size')
                present = has.shape.select(has, key).e
                v = coerce(self.path, v, info[2])
                self.path.write_field(base, 'size', SV(IntS, z3.If(present, size.e, size.e + 1)))
                self.path.write_field(base, 'has', has.shape.store(has, key, mk_bool(True)))
                self.path.write_field(base, 'val', vals.shape.store(vals, key, v))
                return
        if isinstance(base, PyList):
            n = self.conc_int(idx)
            if n is None:
                raise Unsupported('symbolic index into concrete list')
            base.items[n] = v
            return
        if isinstance(base, SRef):
            decl = self.world.classes.get(base.shape.cls)
            if decl is not None and '__setitem__' in decl.methods:
                decl.methods['__setitem__'](self, [base, idx, v], {})
                return
        raise Unsupported('item assignment on %r' % (base,))

    def setslice(self, base, lo, hi, v):
        """lst[lo:hi] = [x] * n on a heap list, for the length-preserving case
        n == (clamped) hi - lo; anything else is outside the supported subset"""
        from .core import VRepeat
        base = self.force(base, 'slice assignment base')
        if isinstance(base, SRef) and base.shape.cls in CONTAINERS and CONTAINERS[base.shape.cls][0] == 'list' \
                and isinstance(v, VRepeat):
            from .absseq import clamp
            P = self.path
            elem = CONTAINERS[base.shape.cls][1]
            ln = P.read_field(base, 'len').e
            a = clamp(as_arith(self.force(lo)), ln) if lo is not None else z3.IntVal(0)
            b = clamp(as_arith(self.force(hi)), ln) if hi is not None else ln
            b = z3.If(b < a, a, b)
            n = z3.If(v.n > 0, v.n, 0)
            if not P.decide(n == b - a):
                raise Unsupported('slice assignment that changes the length of the list')
            items = P.read_field(base, 'items')
            new = items.shape.fresh('sliced')
            x = coerce(P, v.elem, elem)
            k = z3.Int(fresh_name('k'))
            kk = SV(IntS, k)
            P.assume(z3.ForAll([k], z3.Implies(z3.And(k >= a, k < b), self.eq(new.shape.select(new, kk), x))))
            P.assume(z3.ForAll([k], z3.Implies(z3.Or(k < a, k >= b),
                                               self.eq(new.shape.select(new, kk), items.shape.select(items, kk)))))
            P.write_field(base, 'items', new)
            # the multiset view is not maintained across a slice assignment
            cnt = container_fields(base.shape.cls)['cnt'].fresh('cnt_after_slice')
            P.write_field(base, 'cnt', cnt)
            return
        raise Unsupported('slice assignment')

    def st_Delete(self, node):
        for tgt in node.targets:
            if isinstance(tgt, ast.Subscript) and not isinstance(tgt.slice, ast.Slice):
                base = self.ev(tgt.value)
                idx = self.ev(tgt.slice)
                self.delitem(base, idx)
            elif isinstance(tgt, ast.Name):
                self.unbind(tgt.id)
            elif isinstance(tgt, ast.Attribute):
                base = self.force(self.ev(tgt.value), 'attribute base')
                decl = self.world.classes.get(base.shape.cls) if isinstance(base, SRef) else None
                if decl is None or '__delattr__' not in decl.methods:
                    raise Unsupported('del of an attribute of %r' % (base,))
                decl.methods['__delattr__'](self, [base, SStr(tgt.attr)], {})      # declared (assumed) attribute removal
            else:
                raise Unsupported('del target')

    def delitem(self, base, idx):
        base = self.force(base, 'subscript base')
        if isinstance(base, SRef) and base.shape.cls in CONTAINERS:
            info = CONTAINERS[base.shape.cls]
            if info[0] == 'dict':
                key = coerce(self.path, self.force_key(idx, info[1]), info[1])
                has = self.path.read_field(base, 'has')
                present = has.shape.select(has, key).e
                if not self.path.decide(present):
                    self.raise_('KeyError', 'key')
                size = self.path.read_field(base, 'size')
                self.path.write_field(base, 'has', has.shape.store(has, key, mk_bool(False)))
                self.path.write_field(base, 'size', SV(IntS, size.e - 1))
                return
            if info[0] == 'list':
                ln = self.path.read_field(base, 'len').e
                i = self.index_in(self.force(idx), ln)
                self.list_delete_at(base, i)
                return
        raise Unsupported('del item on %r' % (base,))

    def list_delete_at(self, base, i):
        info = CONTAINERS[base.shape.cls]
        from .builtins_impl import cnt_get, cnt_add
        ln = self.path.read_field(base, 'len').e
        items = self.path.read_field(base, 'items')
        gone = items.shape.select(items, SV(IntS, i))
        self.path.assume(cnt_get(self, base, gone).e >= 1)   # an element of the list occurs in it
        cnt_add(self, base, gone, -1)
        new = items.shape.fresh('del')
        k = z3.Int(fresh_name('k'))
        kk = SV(IntS, k)
        lo = self.eq(new.shape.select(new, kk), items.shape.select(items, kk))
        hi = self.eq(new.shape.select(new, kk), items.shape.select(items, SV(IntS, k + 1)))
        self.path.assume(z3.ForAll([k], z3.Implies(z3.And(k >= 0, k < i), lo)))
        self.path.assume(z3.ForAll([k], z3.Implies(z3.And(k >= i, k < ln - 1), hi)))
        # (and, for goals about the old list: every old element other than the removed one is still there)
        back = self.eq(items.shape.select(items, kk), new.shape.select(new, SV(IntS, k - 1)))
        self.path.assume(z3.ForAll([k], z3.Implies(z3.And(k > i, k < ln), back)))
        self.path.write_field(base, 'items', new)
        self.path.write_field(base, 'len', SV(IntS, ln - 1))

    def st_Return(self, node):
        v = self.ev(node.value) if node.value is not None else SNone()
        raise Return(v)

    def st_Break(self, node):
        raise Break()

    def st_Continue(self, node):
        raise Continue()

    def st_If(self, node):
        if self.test(self.ev(node.test)):
            self.run_block(node.body)
        else:
            self.run_block(node.orelse)

    def st_Assert(self, node):
        if not self.test(self.ev(node.test)):
            self.raise_('AssertionError')

    def st_Global(self, node):
        pass

    def st_Nonlocal(self, node):
        pass

    def st_Import(self, node):
        for a in node.names:
            self.bind((a.asname or a.name).split('.')[0], VModule(a.name if a.asname else a.name.split('.')[0]))

    def st_ImportFrom(self, node):
        for a in node.names:
            self.bind(a.asname or a.name, self.resolve_import(('from', '.' * node.level + (node.module or ''), a.name), a.asname or a.name))

    def st_FunctionDef(self, node):
        qn = self.qualname + '.<locals>.' + node.name
        self.bind(node.name, VFunc(qn, node, self.module, env=self.env_chain(), owner=self.owner))

    def st_Raise(self, node):
        if node.exc is None:
            if self.handling:
                raise PyExc(self.handling[-1])
            self.raise_('RuntimeError', 'No active exception to reraise')
        v = self.ev(node.exc)
        if isinstance(v, VClass):
            v = self.instantiate_exc(v, [], {})
        if not isinstance(v, VExc):
            if isinstance(v, SV) and v.shape is ValS:
                # raising an opaque exception value
                v = VExc('<opaque>', [v])
            else:
                raise Unsupported('raise of %r' % (v,))
        if node.cause is not None:
            v.attrs['__cause__'] = self.ev(node.cause)
        raise PyExc(v)

    def st_Try(self, node):
        try:
            try:
                self.run_block(node.body)
            except PyExc as pe:
                exc = pe.exc
                for h in node.handlers:
                    if self.handler_matches(h, exc):
                        if h.name:
                            self.bind(h.name, exc)
                        self.handling.append(exc)
                        try:
                            self.run_block(h.body)
                        finally:
                            self.handling.pop()
                        break
                else:
                    raise
            else:
                self.run_block(node.orelse)
        finally:
            if node.finalbody:
                # NB: Python semantics: an exception/return/break from the
                # finally body replaces the pending one -- this is what the
                # interpreter's own try/finally does here as well.
                self.run_block(node.finalbody)

    def handler_matches(self, h, exc):
        if h.type is None:
            return True
        t = self.ev(h.type)
        classes = t.items if isinstance(t, (STup, PyList)) else [t]
        for c in classes:
            if isinstance(c, SOpt):
                c = self.force(c, 'except clause')
            if isinstance(c, SV) and c.shape is ValS:
                # an opaque tuple of exception classes (user configuration):
                # may or may not match -- both are explored
                if self.exc_subclass(exc.cls, 'Exception') and self.path.choose(2) == 0:
                    return True
                continue
            if not isinstance(c, VClass):
                raise Unsupported('except clause with non-class %r' % (c,))
            r = self.exc_matches(exc, c.name)
            if r:
                return True
        return False

    def st_With(self, node):
        # locks / conditions: acquire..release around the body.  Ghost held
        # counters are not modelled; the managers are evaluated for effects.
        exits = []
        for item in node.items:
            mgr = self.ev(item.context_expr)
            if isinstance(mgr, SOpt):
                mgr = self.force(mgr, 'context manager')      # `with None:` raises
            self.enter_with(mgr, item)
            decl = self.world.classes.get(mgr.shape.cls) if isinstance(mgr, SRef) else None
            if decl is not None and 'with_enter' in decl.methods:
                # declared lock-like object: acquire on entry, release on every way out
                decl.methods['with_enter'](self, [mgr], {})
                exits.append((decl.methods['with_exit'], mgr))
        try:
            self.run_block(node.body)
        finally:
            for fn, mgr in reversed(exits):
                fn(self, [mgr], {})

    def enter_with(self, mgr, item):
        if item.optional_vars is not None:
            self.assign_target(item.optional_vars, mgr)

    def st_While(self, node):
        self.loop(node, kind='while')

    def st_For(self, node):
        self.loop(node, kind='for')
