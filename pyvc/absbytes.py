"""Byte strings as abstract values.

For properties that only compare, concatenate and cut byte strings (C18's
handshake messages) the window encoding of shapes.BytesS makes every equality a
quantified formula.  With `world.abstract_bytes = AbstractBytes()` a byte string
is a value of the uninterpreted sort Val and

    b'...' literal     -> a constant, distinct literals distinct, length known
    a + b              -> cat(a, b)         with take/drop/len facts for this pair
    x[:n] / x[n:]      -> take(x, n) / drop(x, n)
    len(x)             -> blen(x) >= 0
    ==                 -> equality of values

What is assumed of Python: concatenation and slicing of bytes are the usual
ones (take(cat(a, b), len(a)) == a, drop(cat(a, b), len(a)) == b,
len(cat(a, b)) == len(a) + len(b), cat(take(x, n), drop(x, n)) == x for
0 <= n <= len(x)).  Nothing else about byte contents is known to the solver.
"""
import z3

from .shapes import SV, ValS, IntS, Val, fresh_name

_take = z3.Function('btake', Val, z3.IntSort(), Val)
_drop = z3.Function('bdrop', Val, z3.IntSort(), Val)
_cat = z3.Function('bcat', Val, Val, Val)
_len = z3.Function('blen', Val, z3.IntSort())
_lit = z3.Function('blit', z3.IntSort(), Val)


class AbstractBytes:
    def __init__(self):
        self.literals = {}

    def const(self, ex, b):
        if b not in self.literals:
            self.literals[b] = len(self.literals)
        n = self.literals[b]
        v = _lit(z3.IntVal(n))
        P = ex.path
        P.assume(_len(v) == len(b))
        for other, m in self.literals.items():
            if m != n:
                P.assume(v != _lit(z3.IntVal(m)))
        return SV(ValS, v)

    def cat(self, ex, a, b):
        c = _cat(a.e, b.e)
        P = ex.path
        la, lb = _len(a.e), _len(b.e)
        P.assume(z3.And(la >= 0, lb >= 0, _len(c) == la + lb, _take(c, la) == a.e, _drop(c, la) == b.e))
        return SV(ValS, c)

    def slice(self, ex, x, lo, hi):
        from .evalexpr import as_arith
        P = ex.path
        lx = _len(x.e)
        P.assume(lx >= 0)
        if lo is None and hi is not None:
            n = as_arith(ex.force(hi))
            r = _take(x.e, n)
            # x[:n] has min(n, len x) bytes (n >= 0); x == x[:n] + x[n:]
            P.assume(z3.Implies(n >= 0, z3.And(_len(r) == z3.If(n < lx, n, lx),
                                               z3.Implies(n <= lx, _cat(r, _drop(x.e, n)) == x.e))))
            return SV(ValS, r)
        if hi is None and lo is not None:
            n = as_arith(ex.force(lo))
            r = _drop(x.e, n)
            P.assume(z3.Implies(n >= 0, z3.And(_len(r) == z3.If(n < lx, lx - n, 0),
                                               z3.Implies(n <= lx, _cat(_take(x.e, n), r) == x.e))))
            return SV(ValS, r)
        from .core import Unsupported
        raise Unsupported('slice of an abstract byte string other than x[:n] / x[n:]')

    def length(self, ex, x):
        ex.path.assume(_len(x.e) >= 0)
        return SV(IntS, _len(x.e))


def blen(v):
    return _len(v)
