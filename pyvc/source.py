"""Extraction: look functions, classes and constants up in the *current* text
of /repo/billiard/*.py.  Nothing is transcribed; hashes and line spans of what
was used are recorded for the evidence."""
import ast
import builtins
import hashlib
import os

REPO = os.environ.get('PYVC_REPO', '/repo')
PKG = 'billiard'

# names resolved statically for this platform (Linux, CPython 3); reported in
# the evidence as dropped dead branches
STATIC_NAMES = {
    'PY3': True, '_winapi': None, 'win32': None, 'WINEXE': False,
    'WINSERVICE': False, 'HAVE_SEND_HANDLE': True, 'IS_PYPY': False,
    '_select': None,
    'REMAP_SIGTERM': None,      # environment variable REMAP_SIGTERM unset
}


class SourceError(Exception):
    pass


class Module:
    def __init__(self, name):
        self.name = name
        self.path = os.path.join(REPO, PKG, name.replace('.', '/') + '.py')
        if name.startswith('lemmas_'):
            # proof scripts: straight-line compositions of calls to functions
            # under contract, verified modularly (never part of /repo)
            self.path = os.path.join(os.path.dirname(os.path.dirname(os.path.abspath(__file__))),
                                     'contracts', name + '.py')
        with open(self.path, 'rb') as fh:
            data = fh.read()
        self.sha256 = hashlib.sha256(data).hexdigest()
        self.text = data.decode('utf-8')
        self.tree = ast.parse(self.text, self.path)
        self.dead = []          # dead branches dropped (descriptions)
        self.consts = {}        # name -> ast expr node (module level simple assigns)
        self.funcs = {}         # name -> FunctionDef
        self.classes = {}       # name -> ClassInfo
        self.imports = {}       # local name -> ('module', modname) | ('from', modname, attr)
        self._scan_body(self.tree.body, None)
        self.expanded = []      # functions instantiated from an exec template (descriptions)
        self._expand_exec_template()

    def _expand_exec_template(self):
        """sharedctypes builds its property accessors at import time: `exec(template % ((name,) * 7), d)` in
        make_property(name), used in class bodies as `value = make_property('value')`.  The extraction does the
        same instantiation on the template text of the real source, for the names the class bodies use, and
        registers the resulting functions (get<name>, set<name>) as functions of the module"""
        t = self.consts.get('template')
        if not (isinstance(t, ast.Constant) and isinstance(t.value, str) and 'def get%s' in t.value):
            return
        names = set()
        for ci in self.classes.values():
            for v in ci.attrs.values():
                if isinstance(v, ast.Call) and isinstance(v.func, ast.Name) and v.func.id == 'make_property' \
                        and len(v.args) == 1 and isinstance(v.args[0], ast.Constant):
                    names.add(v.args[0].value)
        for n in sorted(names):
            src = t.value % ((n,) * t.value.count('%s'))
            for node in ast.parse(src).body:
                if isinstance(node, ast.FunctionDef):
                    self.funcs[node.name] = node
                    self.expanded.append('%s.%s instantiated from the exec template for %r' % (self.name, node.name, n))

    # static evaluation of module/class level `if` tests -------------------
    def _static_test(self, test):
        """True / False / None(unknown)"""
        if isinstance(test, ast.Name) and test.id in STATIC_NAMES:
            return bool(STATIC_NAMES[test.id])
        if isinstance(test, ast.UnaryOp) and isinstance(test.op, ast.Not):
            r = self._static_test(test.operand)
            return None if r is None else (not r)
        if isinstance(test, ast.Compare) and len(test.ops) == 1:
            src = ast.unparse(test)
            if src in ("sys.platform == 'win32'", 'sys.platform == "win32"'):
                return False
            if src in ("sys.platform != 'win32'", 'sys.platform != "win32"'):
                return True
            if src in ("platform.system() == 'Windows'", "sys.platform == 'darwin'"):
                return False
            if src.startswith('sys.version_info >= ') or \
                    src.startswith('sys.version_info[0] == 3') or \
                    src.startswith('sys.version_info[0] >= 3'):
                return True
            if src.startswith('sys.version_info < ') or \
                    src.startswith('sys.version_info[0] == 2') or \
                    src.startswith('sys.version_info[0] < 3'):
                return False
        return None

    def _scan_body(self, body, cls):
        for node in body:
            if isinstance(node, (ast.FunctionDef, ast.AsyncFunctionDef)):
                if cls is None:
                    self.funcs[node.name] = node
                else:
                    cls.methods[node.name] = node
            elif isinstance(node, ast.ClassDef):
                if cls is None:
                    ci = ClassInfo(self, node)
                    self.classes[node.name] = ci
                    self._scan_body(node.body, ci)
                else:
                    ci = ClassInfo(self, node)
                    cls.attrs[node.name] = node
                    self.classes[cls.name + '.' + node.name] = ci
                    self._scan_body(node.body, ci)
            elif isinstance(node, ast.Assign):
                for tgt in node.targets:
                    if isinstance(tgt, ast.Name):
                        (self.consts if cls is None else cls.attrs)[tgt.id] = node.value
                    elif isinstance(tgt, ast.Tuple) and isinstance(node.value, ast.Tuple) \
                            and len(tgt.elts) == len(node.value.elts):
                        for t, v in zip(tgt.elts, node.value.elts):
                            if isinstance(t, ast.Name):
                                (self.consts if cls is None else cls.attrs)[t.id] = v
            elif isinstance(node, ast.If):
                r = self._static_test(node.test)
                if r is True:
                    if node.orelse:
                        self.dead.append('%s:%d else-branch of `%s`' % (
                            self.name, node.lineno, ast.unparse(node.test)))
                    self._scan_body(node.body, cls)
                elif r is False:
                    self.dead.append('%s:%d body of `%s`' % (
                        self.name, node.lineno, ast.unparse(node.test)))
                    self._scan_body(node.orelse, cls)
                else:
                    # unknown: scan both; later definitions win (as at run time
                    # the else branch is usually the fallback)
                    self._scan_body(node.orelse, cls)
                    self._scan_body(node.body, cls)
            elif isinstance(node, ast.Try):
                # e.g. try: import X except ImportError: X = None
                self._scan_body(node.body, cls)
            elif isinstance(node, ast.Import):
                for a in node.names:
                    self.imports[(a.asname or a.name).split('.')[0]] = ('module', a.name if a.asname else a.name.split('.')[0])
            elif isinstance(node, ast.ImportFrom):
                mod = node.module or ''
                for a in node.names:
                    self.imports[a.asname or a.name] = ('from', '.' * node.level + mod, a.name)


class ClassInfo:
    def __init__(self, module, node):
        self.module = module
        self.node = node
        self.name = node.name
        self.bases = [ast.unparse(b) for b in node.bases]
        self.methods = {}
        self.attrs = {}

    def assigned_fields(self):
        """names X such that some method contains `self.X = ...` (or aug/with)"""
        out = set(self.attrs)
        for m in self.methods.values():
            for n in ast.walk(m):
                if isinstance(n, ast.Attribute) and isinstance(n.ctx, ast.Store) \
                        and isinstance(n.value, ast.Name) and n.value.id == 'self':
                    out.add(n.attr)
        return out


class Repo:
    def __init__(self):
        self.modules = {}

    def module(self, name):
        if name not in self.modules:
            self.modules[name] = Module(name)
        return self.modules[name]

    def find_class(self, modname, clsname):
        m = self.module(modname)
        if clsname in m.classes:
            return m.classes[clsname]
        # imported from another billiard module?
        imp = m.imports.get(clsname)
        if imp and imp[0] == 'from' and imp[1].startswith('.'):
            sub = imp[1].lstrip('.')
            if sub:
                try:
                    return self.find_class(sub, imp[2])
                except (SourceError, OSError):
                    pass
            else:
                try:
                    return self.find_class(imp[2], clsname)
                except (SourceError, OSError):
                    pass
        raise SourceError('class %s not found in %s' % (clsname, modname))

    def mro(self, ci):
        """linearised list of ClassInfo for billiard-defined bases (simple
        left-to-right depth-first; sufficient for the single-inheritance
        classes under contract)"""
        out, seen = [], set()

        def go(c):
            if id(c) in seen:
                return
            seen.add(id(c))
            out.append(c)
            for b in c.bases:
                bn = b.split('.')[-1]
                try:
                    go(self.find_class(c.module.name, bn))
                except (SourceError, OSError):
                    pass
        go(ci)
        return out

    def find_method(self, modname, clsname, meth):
        ci = self.find_class(modname, clsname)
        for c in self.mro(ci):
            if meth in c.methods:
                return c, c.methods[meth]
        return None, None

    def find_function(self, qualname):
        """qualname: module.func | module.Class.method |
        module.Class.method.<locals>.inner | module.func.<locals>.inner"""
        parts = qualname.split('.')
        modname = parts[0]
        m = self.module(modname)
        rest = parts[1:]
        node, owner = None, None
        i = 0
        if rest[0] in m.funcs:
            node = m.funcs[rest[0]]
            i = 1
        else:
            # class (possibly nested) then method
            cname = rest[0]
            i = 1
            while cname not in m.classes or (i < len(rest) and cname + '.' + rest[i] in m.classes):
                if i >= len(rest):
                    raise SourceError('not found: ' + qualname)
                cname = cname + '.' + rest[i]
                i += 1
            owner = m.classes[cname]
            if i >= len(rest):
                raise SourceError('not a function: ' + qualname)
            c, node = self.find_method(modname, cname, rest[i])
            if node is None:
                raise SourceError('method not found: ' + qualname)
            owner = c
            i += 1
        while i < len(rest):
            if rest[i] == '<locals>':
                i += 1
                continue
            inner = None
            for n in ast.walk(node):
                if isinstance(n, ast.FunctionDef) and n.name == rest[i] and n is not node:
                    inner = n
                    break
            if inner is None:
                raise SourceError('inner function not found: ' + qualname)
            node = inner
            i += 1
        return m, owner, node


def real_exception_class(name):
    c = getattr(builtins, name, None)
    if isinstance(c, type) and issubclass(c, BaseException):
        return c
    if name in ('ProcessError', 'BufferTooShort', 'AuthenticationError'):
        # billiard/__init__.py and exceptions.py re-export multiprocessing's classes
        import multiprocessing
        return getattr(multiprocessing, name)
    return None
