"""Shapes (static types declared by contracts) and symbolic values.

Every shape flattens to a list of z3 *components*; a field `f` of a heap class
is stored as one z3 array per component, indexed by object id (Boogie/Dafny
style heap).  Mutable containers (list/dict/set/deque) are heap objects of
built-in classes whose fields are pure maps.
"""
import z3

Val = z3.DeclareSort('Val')          # opaque Python values
_fresh_ctr = [0]


def fresh_name(base):
    _fresh_ctr[0] += 1
    return '%s!%d' % (base, _fresh_ctr[0])


def reset_fresh():
    _fresh_ctr[0] = 0


# ---------------------------------------------------------------- values

class Value:
    shape = None


class SV(Value):
    """scalar: Int / Real / Bool / Val"""
    __slots__ = ('shape', 'e')

    def __init__(self, shape, e):
        self.shape, self.e = shape, e

    def __repr__(self):
        return 'SV(%s,%s)' % (self.shape, self.e)


class SNone(Value):
    def __init__(self):
        self.shape = NoneS

    def __repr__(self):
        return 'None'


class SOpt(Value):
    __slots__ = ('shape', 'isnone', 'val')

    def __init__(self, shape, isnone, val):
        self.shape, self.isnone, self.val = shape, isnone, val

    def __repr__(self):
        return 'SOpt(%s,%s)' % (self.isnone, self.val)


class SRef(Value):
    __slots__ = ('shape', 'id')

    def __init__(self, shape, id_):
        self.shape, self.id = shape, id_

    def __repr__(self):
        return 'SRef(%s,%s)' % (self.shape, self.id)


class STup(Value):
    __slots__ = ('shape', 'items')

    def __init__(self, items, shape=None):
        self.items = tuple(items)
        self.shape = shape or TupS(*[i.shape for i in self.items])

    def __repr__(self):
        return 'STup%r' % (self.items,)


class SMap(Value):
    """pure (immutable) map value K -> V, curried z3 arrays per V component"""
    __slots__ = ('shape', 'comps')

    def __init__(self, shape, comps):
        self.shape, self.comps = shape, list(comps)


class SBytes(Value):
    """immutable byte string: window (arr, off, len) over Array Int->Int"""
    __slots__ = ('shape', 'arr', 'off', 'len')

    def __init__(self, arr, off, len_):
        self.shape = BytesS
        self.arr, self.off, self.len = arr, off, len_

    def at(self, i):
        return z3.Select(self.arr, self.off + i)


class SStr(Value):
    """concrete string constant"""
    __slots__ = ('shape', 's')

    def __init__(self, s):
        self.shape, self.s = StrS, s

    def __repr__(self):
        return 'SStr(%r)' % self.s


# ---------------------------------------------------------------- shapes

class Shape:
    name = '?'

    def __repr__(self):
        return self.name

    def __eq__(self, other):
        return isinstance(other, Shape) and self.name == other.name

    def __hash__(self):
        return hash(self.name)

    # list of (suffix, sort)
    def comps(self):
        raise NotImplementedError

    def pack(self, es):
        raise NotImplementedError

    def unpack(self, v):
        raise NotImplementedError

    def fresh(self, base):
        return self.pack([z3.Const(fresh_name(base + sfx), srt)
                          for sfx, srt in self.comps()])

    def named(self, base):
        """non-fresh constants (stable names for inputs)"""
        return self.pack([z3.Const(base + sfx, srt) for sfx, srt in self.comps()])


class _Scalar(Shape):
    def __init__(self, name, sort):
        self.name, self.sort = name, sort

    def comps(self):
        return [('', self.sort)]

    def pack(self, es):
        return SV(self, es[0])

    def unpack(self, v):
        return [v.e]


IntS = _Scalar('int', z3.IntSort())
RealS = _Scalar('real', z3.RealSort())
BoolS = _Scalar('bool', z3.BoolSort())
ValS = _Scalar('val', Val)


class _NoneShape(Shape):
    name = 'None'

    def comps(self):
        return []

    def pack(self, es):
        return SNone()

    def unpack(self, v):
        return []


NoneS = _NoneShape()


class _StrShape(Shape):
    name = 'str'

    def comps(self):
        return [('', Val)]

    def pack(self, es):
        return SV(ValS, es[0])

    def unpack(self, v):
        return [strlit(v.s)] if isinstance(v, SStr) else [v.e]


StrS = _StrShape()

_strlits = {}
_strlit_fn = z3.Function('strlit', z3.IntSort(), Val)
STR_AXIOMS = []


def strlit(s):
    if s not in _strlits:
        _strlits[s] = len(_strlits)
    return _strlit_fn(z3.IntVal(_strlits[s]))


class OptS(Shape):
    def __init__(self, inner):
        assert not isinstance(inner, OptS)
        self.inner = inner
        self.name = 'opt[%s]' % inner.name

    def comps(self):
        return [('?', z3.BoolSort())] + self.inner.comps()

    def pack(self, es):
        return SOpt(self, es[0], self.inner.pack(es[1:]))

    def unpack(self, v):
        return [v.isnone] + self.inner.unpack(v.val)


class RefS(Shape):
    def __init__(self, cls):
        self.cls = cls
        self.name = 'ref[%s]' % cls

    def comps(self):
        return [('', z3.IntSort())]

    def pack(self, es):
        return SRef(self, es[0])

    def unpack(self, v):
        return [v.id]


class TupS(Shape):
    def __init__(self, *items):
        self.items = items
        self.name = 'tup[%s]' % ','.join(i.name for i in items)

    def comps(self):
        out = []
        for k, it in enumerate(self.items):
            out += [('.%d%s' % (k, sfx), srt) for sfx, srt in it.comps()]
        return out

    def pack(self, es):
        vals, pos = [], 0
        for it in self.items:
            n = len(it.comps())
            vals.append(it.pack(es[pos:pos + n]))
            pos += n
        return STup(vals, self)

    def unpack(self, v):
        out = []
        for it, x in zip(self.items, v.items):
            out += it.unpack(x)
        return out


def _key_sorts(kshape):
    return [srt for _, srt in kshape.comps()]


class MapS(Shape):
    """pure map value"""
    def __init__(self, key, val):
        self.key, self.val = key, val
        self.name = 'map[%s,%s]' % (key.name, val.name)

    def comps(self):
        ks = _key_sorts(self.key)
        out = []
        for sfx, srt in self.val.comps():
            a = srt
            for k in reversed(ks):
                a = z3.ArraySort(k, a)
            out.append((sfx + '@', a))
        return out

    def pack(self, es):
        return SMap(self, es)

    def unpack(self, v):
        return list(v.comps)

    def select(self, m, key):
        ks = self.key.unpack(key)
        out = []
        for c in m.comps:
            for k in ks:
                c = z3.Select(c, k)
            out.append(c)
        return self.val.pack(out)

    def store(self, m, key, val):
        ks = self.key.unpack(key)
        vs = self.val.unpack(val)
        out = []
        for c, v in zip(m.comps, vs):
            out.append(_store_curried(c, ks, v))
        return SMap(self, out)


def _store_curried(arr, ks, v):
    if len(ks) == 1:
        return z3.Store(arr, ks[0], v)
    inner = z3.Select(arr, ks[0])
    return z3.Store(arr, ks[0], _store_curried(inner, ks[1:], v))


class _BytesShape(Shape):
    name = 'bytes'

    def comps(self):
        return [('.arr', z3.ArraySort(z3.IntSort(), z3.IntSort())),
                ('.off', z3.IntSort()), ('.len', z3.IntSort())]

    def pack(self, es):
        return SBytes(es[0], es[1], es[2])

    def unpack(self, v):
        return [v.arr, v.off, v.len]


BytesS = _BytesShape()


# Built-in container classes are heap classes with generated names.
def ListS(elem):
    return RefS('list<%s>' % elem.name)


def DequeS(elem):
    return RefS('list<%s>' % elem.name)


def DictS(k, v):
    return RefS('dict<%s,%s>' % (k.name, v.name))


def SetS(k):
    return RefS('set<%s>' % k.name)


# Registry of container element shapes by class name
CONTAINERS = {}


def list_of(elem):
    s = ListS(elem)
    CONTAINERS[s.cls] = ('list', elem)
    return s


def deque_of(elem):
    return list_of(elem)


def dict_of(k, v):
    s = DictS(k, v)
    CONTAINERS[s.cls] = ('dict', k, v)
    return s


def set_of(k):
    s = SetS(k)
    CONTAINERS[s.cls] = ('set', k)
    return s


def opt(s):
    return s if isinstance(s, OptS) else OptS(s)


def ref(cls):
    return RefS(cls)


def tup(*items):
    return TupS(*items)


def container_fields(cls):
    """field shapes of a built-in container heap class"""
    info = CONTAINERS[cls]
    if info[0] == 'list':
        # cnt: ghost multiset view (number of occurrences of each value), kept
        # in step with items by every list operation of the encoding
        return {'len': IntS, 'items': MapS(IntS, info[1]), 'cnt': MapS(info[1], IntS)}
    if info[0] == 'dict':
        return {'has': MapS(info[1], BoolS), 'val': MapS(info[1], info[2]),
                'size': IntS}
    if info[0] == 'set':
        return {'has': MapS(info[1], BoolS), 'size': IntS}
    raise KeyError(cls)


# ---------------------------------------------------------------- helpers

def mk_int(n):
    return SV(IntS, z3.IntVal(n))


def mk_bool(b):
    return SV(BoolS, z3.BoolVal(bool(b)))


def mk_real(x):
    return SV(RealS, z3.RealVal(x))


def lift(x):
    """Python constant -> Value"""
    if isinstance(x, Value):
        return x
    if x is None:
        return SNone()
    if isinstance(x, bool):
        return mk_bool(x)
    if isinstance(x, int):
        return mk_int(x)
    if isinstance(x, float):
        return mk_real(x)
    if isinstance(x, str):
        return SStr(x)
    if isinstance(x, bytes):
        arr = z3.K(z3.IntSort(), z3.IntVal(0))
        for i, b in enumerate(x):
            arr = z3.Store(arr, i, z3.IntVal(b))
        return SBytes(arr, z3.IntVal(0), z3.IntVal(len(x)))
    if isinstance(x, tuple):
        return STup([lift(i) for i in x])
    raise TypeError('cannot lift %r' % (x,))


def ite(c, a, b):
    """merge two values of the same shape"""
    if a.shape != b.shape:
        raise TypeError('ite at different shapes %s / %s' % (a.shape, b.shape))
    ea, eb = a.shape.unpack(a), b.shape.unpack(b)
    return a.shape.pack([z3.If(c, x, y) for x, y in zip(ea, eb)])
