"""Loops: concrete unrolling over concrete sequences, inductive invariants
for everything else; generator yield points as cut points."""
import ast

import z3

from .core import (Unsupported, ContractError, PathEnd, PyExc, Return, Break,
                   Continue, VExc, VFunc, VClass, VExternal, PyList, VIter, coerce)
from .shapes import (SV, SNone, SOpt, SRef, STup, SMap, SBytes, SStr, Value,
                     IntS, RealS, BoolS, ValS, OptS, RefS, MapS, CONTAINERS,
                     container_fields, fresh_name, mk_int, mk_bool)
from .evalexpr import as_arith
from .builtins_impl import VRange, VView, VIterCall, VEnumerate, VGenCall


def assigned_names(nodes):
    out = set()
    for node in nodes:
        for n in ast.walk(node):
            if isinstance(n, ast.Name) and isinstance(n.ctx, (ast.Store, ast.Del)):
                out.add(n.id)
            elif isinstance(n, ast.ExceptHandler) and n.name:
                out.add(n.name)
    return out


def loop_spec(ex, node):
    ordinal = ex.loop_ord.get(id(node))
    c = ex.contract
    if c is None:
        return ordinal, None
    spec = c.loops.get((ex.qualname, ordinal))
    if spec is None and ex.qualname == c.qualname:
        spec = c.loops.get(ordinal)
    return ordinal, spec


def run_concrete(ex, node, items):
    broke = False
    for it in items:
        ex.assign_target(node.target, it)
        try:
            ex.run_block(node.body)
        except Break:
            broke = True
            break
        except Continue:
            continue
    if not broke:
        ex.run_block(node.orelse)


def havoc_value(ex, name, v):
    if isinstance(v, (SV, SOpt, SRef, STup, SMap, SBytes)) and v.shape is not None:
        nv = v.shape.fresh('lh!' + name)
        ex.path._assume_wf(nv)
        return nv
    if isinstance(v, SNone):
        return v
    raise Unsupported('cannot havoc loop-assigned local %s = %r (declare its shape in loop spec "locals")' % (name, v))


def prove_clauses(ex, label, clauses, env=None):
    from .contracts import prove
    for lab, expr in clauses.items():
        f = ex.spec_bool(expr, env)
        prove(ex, '%s.%s' % (label, lab), f)


def assume_clauses(ex, clauses, env=None):
    for lab, expr in clauses.items():
        ex.path.assume(ex.spec_bool(expr, env), tag=lab)


def apply_havoc(ex, spec, body_nodes, extra_names=()):
    from .contracts import havoc_modifies
    names = assigned_names(body_nodes) | set(extra_names)
    declared = spec.get('locals', {})
    for n in sorted(names):
        cur = None
        for sc in reversed(ex.scopes):
            if n in sc:
                cur = sc[n]
                break
        if n in declared:
            nv = declared[n].fresh('lh!' + n)
            ex.path._assume_wf(nv)
            ex.bind(n, nv)
        elif cur is not None:
            if isinstance(cur, (VFunc, VClass, VExternal)):
                continue
            ex.bind(n, havoc_value(ex, n, cur))
    havoc_modifies(ex, spec.get('modifies', []), ex)


def check_loop_frame(ex, spec, head_store, label):
    from .contracts import frame_obligations
    frame_obligations(ex, spec.get('modifies', []), head_store, label, ex)


def run_loop(ex, node, kind):
    ordinal, spec = loop_spec(ex, node)
    label = 'loop%d' % ordinal
    it = None
    if kind == 'for':
        it = ex.ev(node.iter)
        if isinstance(it, VIter):
            it = PyList(it.items[it.pos:])
        if isinstance(it, (STup, PyList)):
            return run_concrete(ex, node, it.items)
        if isinstance(it, SOpt):
            it = ex.force(it, 'iterable')
    else:
        # `while <concrete false>`
        pass
    if spec is None:
        raise Unsupported('%s: %s (line %d) has no invariant in the contract' % (ex.qualname, label, node.lineno))
    inv = spec.get('inv', {})
    if not isinstance(inv, dict):
        inv = {'inv%d' % i: e for i, e in enumerate(inv)}
    idx_name = spec.get('index', '_i')
    P = ex.path

    # ---- set-up of the iteration state
    mode = 'while'
    aux = {}
    if kind == 'for':
        if isinstance(it, VRange):
            mode = 'range'
            aux['lo'], aux['hi'], aux['rev'] = it.lo, it.hi, it.rev
            start = (it.hi - 1) if it.rev else it.lo
            ex.bind(idx_name, SV(IntS, start))
        elif isinstance(it, SRef) and it.shape.cls in CONTAINERS and CONTAINERS[it.shape.cls][0] == 'list':
            mode = 'list'
            aux['list'] = it
            aux['len0'] = P.read_field(it, 'len').e
            aux['items0'] = P.read_field(it, 'items')
            ex.bind(idx_name, mk_int(0))
        elif isinstance(it, VEnumerate) and isinstance(it.inner, SRef):
            mode = 'enum'
            aux['list'] = it.inner
            aux['len0'] = P.read_field(it.inner, 'len').e
            aux['items0'] = P.read_field(it.inner, 'items')
            ex.bind(idx_name, mk_int(0))
        elif isinstance(it, VView) or (isinstance(it, SRef) and it.shape.cls in CONTAINERS):
            mode = 'view'
            d = it.d if isinstance(it, VView) else it
            aux['kind'] = it.kind if isinstance(it, VView) else 'keys'
            # `for x in [x for x in view if cond]`: cond(x), evaluated when the
            # list was built, selects the elements
            aux['filter'] = getattr(it, 'filter', None)
            aux['d'] = d
            aux['has0'] = P.read_field(d, 'has')
            if CONTAINERS[d.shape.cls][0] == 'dict':
                aux['val0'] = P.read_field(d, 'val')
            seen_shape = aux['has0'].shape
            from .builtins_impl import alloc_container
            empty = list(P.read_field(alloc_container(ex, d.shape), 'has').comps)
            ex.bind(spec.get('seen', '_seen'), SMap(seen_shape, empty))
        elif isinstance(it, VGenCall) or (isinstance(it, VEnumerate) and isinstance(it.inner, VGenCall)):
            mode = 'gencall'
            aux['gen'] = it if isinstance(it, VGenCall) else it.inner
            aux['enum'] = isinstance(it, VEnumerate)
            ex.bind(idx_name, mk_int(0))
        elif isinstance(it, VIterCall):
            mode = 'itercall'
            aux['f'], aux['sentinel'] = it.f, it.sentinel
        else:
            raise Unsupported('for over %r' % (it,))

    # ---- entry
    from .contracts import assume_instances
    # entry(<expr>) in this loop's invariant: <expr> in the state in which the loop was entered
    ex.root.loop_entry = (P.snapshot(), {k: v for sc in ex.scopes for k, v in sc.items()})
    if ex.contract is not None:
        assume_instances(ex, ex.contract, spec.get('instantiate'))
    prove_clauses(ex, label + '.entry', inv)
    head_extra = [idx_name] if mode in ('range', 'list', 'enum', 'gencall') else ([spec.get('seen', '_seen')] if mode == 'view' else [])
    apply_havoc(ex, spec, node.body + ([node.target] if kind == 'for' else []) , head_extra)
    assume_clauses(ex, inv)
    from .contracts import assume_instances
    if ex.contract is not None:
        assume_instances(ex, ex.contract, spec.get('instantiate'))
    head_store = P.snapshot()

    # ---- guard
    if mode == 'while':
        go = ex.test(ex.ev(node.test))
    elif mode == 'range':
        i = as_arith(ex.lookup(idx_name))
        if aux['rev']:
            P.assume(z3.And(i >= aux['lo'] - 1, i <= aux['hi'] - 1))
        else:
            P.assume(z3.And(i >= aux['lo'], z3.Or(i <= aux['hi'], i == aux['lo'])))
        go = P.decide((i >= aux['lo']) if aux['rev'] else (i < aux['hi']))
        if go:
            ex.assign_target(node.target, SV(IntS, i))
    elif mode in ('list', 'enum'):
        i = as_arith(ex.lookup(idx_name))
        lst = aux['list']
        P.assume(z3.And(i >= 0))
        if spec.get('iter_raises') and P.choose(2) == 1:
            # the sequence is lazy (a generator over the caller's iterable): fetching the next element may raise,
            # at any position including before the first
            from .core import PyExc, VExc
            ir = spec['iter_raises']
            if isinstance(ir, dict):
                P.assume(ex.spec_bool(ir['when']))
                ir = ir['exc']
            raise PyExc(VExc(ir, []))
        ln = P.read_field(lst, 'len').e
        if z3.is_expr(ln) and z3.is_expr(aux['len0']) and ln.eq(aux['len0']):
            # the loop does not change the length of the list it walks (its
            # havoc left the term alone): 0 <= i <= len is inductive
            P.assume(i <= ln)
        go = P.decide(i < ln)
        if go:
            items = P.read_field(lst, 'items')
            elem = items.shape.select(items, SV(IntS, i))
            P._assume_wf(elem)
            ex.assign_target(node.target, elem if mode == 'list' else STup([SV(IntS, i), elem]))
    elif mode == 'view':
        seen = ex.lookup(spec.get('seen', '_seen'))
        has0 = aux['has0']
        kshape = has0.shape.key
        k = kshape.fresh('key')
        P._assume_wf(k)
        c = P.choose(2)
        if c == 0:
            go = True
            P.assume(has0.shape.select(has0, k).e)
            P.assume(z3.Not(seen.shape.select(seen, k).e))
            aux['k'] = k
            if aux['kind'] == 'keys':
                elem = k
            else:
                v = aux['val0'].shape.select(aux['val0'], k)
                P._assume_wf(v)
                elem = v if aux['kind'] == 'values' else STup([k, v])
            if aux.get('filter') is not None:
                P.assume(aux['filter'](elem))
            ex.assign_target(node.target, elem)
        else:
            go = False
            q = kshape.fresh('q')
            qs = kshape.unpack(q)
            sel = has0.shape.select(has0, q).e
            if aux.get('filter') is not None:
                if aux['kind'] == 'keys':
                    qelem = q
                else:
                    qv = aux['val0'].shape.select(aux['val0'], q)
                    qelem = qv if aux['kind'] == 'values' else STup([q, qv])
                sel = z3.And(sel, aux['filter'](qelem))
            P.assume(z3.ForAll(qs, z3.Implies(sel, seen.shape.select(seen, q).e)))
    elif mode == 'gencall':
        # one more value from the generator, of which its contract's
        # yields['item'] clauses hold (in the state of this moment); or it is
        # exhausted.  Nothing is assumed about *which* values come or how many.
        i = as_arith(ex.lookup(idx_name))
        P.assume(i >= 0)
        go = P.choose(2) == 0
        if go:
            gen = aux['gen']
            gc = gen.contract
            elem = gc.yields['shape'].fresh('yielded')
            P._assume_wf(elem)
            env = {}
            pnames = list(gc.params)
            for pn, av in zip(pnames, gen.args):
                env[pn] = av
            env['item'] = elem
            for lab, expr in gc.yields['item'].items():
                P.assume(ex.spec_bool(expr, env), tag=lab)
            ex.assign_target(node.target, STup([SV(IntS, i), elem]) if aux['enum'] else elem)
    elif mode == 'itercall':
        v = ex.call_value(aux['f'], [], {})
        go = not P.decide(ex.eq(v, aux['sentinel']))
        if go:
            ex.assign_target(node.target, v)

    if not go:
        ex.run_block(node.orelse)
        return

    # ---- one arbitrary iteration
    try:
        ex.run_block(node.body)
    except Break:
        return
    except Continue:
        pass
    # back edge
    if mode == 'range':
        i = as_arith(ex.lookup(idx_name))
        ex.bind(idx_name, SV(IntS, i - 1 if aux['rev'] else i + 1))
    elif mode in ('list', 'enum', 'gencall'):
        i = as_arith(ex.lookup(idx_name))
        ex.bind(idx_name, SV(IntS, i + 1))
    elif mode == 'view':
        seen = ex.lookup(spec.get('seen', '_seen'))
        ex.bind(spec.get('seen', '_seen'), seen.shape.store(seen, aux['k'], mk_bool(True)))
    prove_clauses(ex, label + '.preserve', inv)
    check_loop_frame(ex, spec, head_store, label + '.frame')
    raise PathEnd()


def run_yield(ex, node):
    """generator cut point: prove the yield invariant, let the environment
    change what the contract says it may, assume the invariant again"""
    c = ex.contract
    spec = c.yields if c is not None else None
    if spec is None:
        raise Unsupported('yield without a "yields" spec in the contract')
    yielded = ex.ev(node.value) if node.value is not None else SNone()
    inv = spec.get('inv', {})
    prove_clauses(ex, 'yield.inv', inv)
    if 'item' in spec:
        # what consumers of this generator are told about each yielded value
        ex.push_scope()
        try:
            ex.bind('item', yielded)
            prove_clauses(ex, 'yield.item', spec['item'])
        finally:
            ex.pop_scope()
    from .contracts import havoc_modifies
    before = ex.path.snapshot()
    havoc_modifies(ex, spec.get('env_modifies', []), ex)
    for fn in spec.get('env_steps', []):
        fn(ex)
    # what the environment may do between two resumptions: old(...) in these
    # clauses is the state at the yield
    for lab, expr in spec.get('env_assume', {}).items():
        ex.path.assume(ex.spec_bool(expr, None, before), tag=lab)
    return SNone()
