"""The executor: name resolution, calls (modular / external / inlined),
loops with invariants, spec-mode helpers."""
import ast
import builtins as _pybuiltins
import importlib

import z3

from .core import (Unsupported, ContractError, PathEnd, PyExc, Return, Break,
                   Continue, VExc, VFunc, VClass, VModule, VExternal, VBound,
                   PyList, VIter, coerce, box, Path)
from .shapes import (SV, SNone, SOpt, SRef, STup, SMap, SBytes, SStr, Value,
                     IntS, RealS, BoolS, ValS, NoneS, StrS, BytesS, OptS, RefS,
                     TupS, MapS, CONTAINERS, container_fields, fresh_name,
                     lift, ite, Val, mk_int, mk_bool, mk_real)
from .evalexpr import EvalMixin, is_num, as_arith, num_join
from .execstmt import StmtMixin
from .source import STATIC_NAMES, SourceError, real_exception_class
from . import builtins_impl

class PyDict(Value):
    """exec-time concrete keyword dict (**kwargs)"""
    def __init__(self, d):
        self.shape = None
        self.d = dict(d)


class PyDictC(Value):
    """exec-time dict literal with a fixed list of (key, value) pairs"""
    def __init__(self, pairs):
        self.shape = None
        self.pairs = list(pairs)


class VNamespace(Value):
    """spec-only record of names (final.<local>)"""
    def __init__(self, d):
        self.shape = None
        self.d = dict(d)


class _BoundExt(Value):
    """python-implemented method of a declared (stdlib) class, bound to obj"""
    def __init__(self, fn, obj):
        self.shape = None
        self.fn, self.obj = fn, obj


GHOST_ID = -1
_MISSING = object()

# stdlib modules whose integer/str/tuple constants may be read (values of the
# interpreter running the engine; Linux)
CONST_MODULES = {'errno', 'signal', 'os', 'sys', 'socket', 'struct', 'mmap',
                 'itertools', 'time', 'io', 'threading', 'bisect', 'select',
                 'tempfile', 'pickle', 'copy', 'hmac', 'ctypes', 'weakref',
                 'traceback', 'types', 'collections', 'queue', 'warnings',
                 'functools', 'numbers', 'array', 'atexit', 'gc', 'platform'}


class Executor(EvalMixin, StmtMixin):
    def __init__(self, world, path, module, qualname, owner, contract, parent=None):
        self.world, self.path = world, path
        self.module, self.qualname, self.owner = module, qualname, owner
        self.contract = contract
        self.scopes = [{}]
        self.closure = None
        self.spec = False
        self.old_store = None
        self.spec_env = {}
        self.handling = []
        self.cur_line = 0
        self.dropped = parent.dropped if parent else set()
        self.func_node = None
        self.loop_ord = {}
        self.depth = (parent.depth + 1) if parent else 0
        self.root = parent.root if parent else self
        self.old_env = parent.old_env if parent else None
        if parent is None:
            self.call_log = []
            self.inputs = {}

    # ------------------------------------------------------------ scopes
    def push_scope(self):
        self.scopes.append({})

    def pop_scope(self):
        self.scopes.pop()

    def env_chain(self):
        return list(self.scopes) + (self.closure or [])

    def bind(self, name, v):
        if self.spec:
            self.spec_env[name] = v
            return
        self.scopes[-1][name] = v

    def unbind(self, name):
        self.scopes[-1].pop(name, None)

    def lookup(self, name):
        if self.spec and name in self.spec_env:
            return self.spec_env[name]
        for sc in reversed(self.scopes):
            if name in sc:
                return sc[name]
        if self.closure:
            for sc in reversed(self.closure):
                if name in sc:
                    return sc[name]
        if name == 'g' and 'g' in self.world.classes:
            return SRef(RefS('g'), z3.IntVal(GHOST_ID))
        return self.global_name(name)

    def global_name(self, name, module=None):
        m = module or self.module
        if name in STATIC_NAMES:
            return lift(STATIC_NAMES[name])
        if module is None and self.owner is not None and getattr(self, 'class_scope', False) \
                and name in self.owner.attrs:
            # default-argument expressions are evaluated in the class body's scope
            sub = Executor(self.world, self.path, m, m.name, self.owner, self.contract, parent=self)
            return sub.ev(self.owner.attrs[name])
        if name in m.funcs:
            return VFunc(m.name + '.' + name, m.funcs[name], m)
        if name in m.classes:
            return VClass(name, m, m.classes[name])
        ov = getattr(self.world, 'global_overrides', {}).get(m.name + '.' + name)
        if ov is not None:
            # module-level mutable state modelled symbolically (declared by the contracts)
            return ov(self)
        if name in m.consts:
            sub = Executor(self.world, self.path, m, m.name, None, self.contract, parent=self)
            return sub.ev(m.consts[name])
        if name in m.imports:
            return self.resolve_import(m.imports[name], name, m)
        if name in builtins_impl.BUILTINS:
            return VExternal('builtins.' + name)
        c = real_exception_class(name)
        if c is not None:
            return VClass(name)
        if hasattr(_pybuiltins, name):
            return VExternal('builtins.' + name)
        if self.spec:
            raise ContractError('unknown name %r in spec expression' % name)
        self.raise_('NameError', 'name %r is not defined' % name)

    def resolve_import(self, imp, name, m=None):
        m = m or self.module
        if imp[0] == 'module':
            return VModule(imp[1])
        _, modname, attr = imp
        if modname.startswith('.'):
            sub = modname.lstrip('.')
            # `from . import x` / `from .x import y`
            try:
                if sub:
                    tm = self.world.repo.module(sub.split('.')[0] if '.' not in sub else sub)
                    return self.global_name(attr, tm)
                try:
                    self.world.repo.module(attr)
                    return VModule('billiard.' + attr)
                except OSError:
                    if real_exception_class(attr) is not None:
                        return VClass(attr)
                    # a name re-exported by the package's __init__
                    try:
                        return self.global_name(attr, self.world.repo.module('__init__'))
                    except Exception:
                        raise SourceError(attr)
            except (SourceError, OSError, PyExc):
                return VExternal('billiard.%s.%s' % (sub, attr))
        if modname in CONST_MODULES or modname.split('.')[0] in CONST_MODULES:
            return self.module_attr(VModule(modname), attr)
        return VExternal(modname + '.' + attr)

    def module_attr(self, mod, name):
        mn = mod.name
        if mn.startswith('billiard.'):
            sub = mn[len('billiard.'):]
            tm = self.world.repo.module(sub)
            return self.global_name(name, tm)
        full = mn + '.' + name
        ov = self.path.__dict__.get('module_overrides', {}).get(full)
        if ov is not None:
            return ov
        if mn.split('.')[0] in CONST_MODULES:
            try:
                pm = importlib.import_module(mn)
                val = getattr(pm, name, _MISSING)
            except ImportError:
                val = _MISSING
            if val is not _MISSING:
                if isinstance(val, (bool, int, str)) or val is None:
                    return lift(val)
                if isinstance(val, float):
                    return lift(val)
                if isinstance(val, type) and issubclass(val, BaseException):
                    return VClass(val.__name__)
                if type(val).__name__ == 'module':
                    return VModule(full)
                if isinstance(val, tuple) and all(isinstance(x, (int, str)) for x in val):
                    return lift(val)
        return VExternal(full)

    def class_attr(self, obj, name):
        """attribute not declared as a field: method or class-level constant"""
        decl = self.world.classes.get(obj.shape.cls)
        c = decl
        while c is not None:
            if name in c.methods:
                return VExternal('%s.%s' % (c.name, name), obj) if c.methods[name] is None else \
                    _BoundExt(c.methods[name], obj)
            if c.module:
                try:
                    ci = self.world.repo.find_class(c.module, c.pyname)
                except SourceError:
                    ci = None
                if ci is not None:
                    for k in self.world.repo.mro(ci):
                        if name in k.methods:
                            qn = '%s.%s.%s' % (k.module.name, k.name, name)
                            fn = VFunc(qn, k.methods[name], k.module, owner=k)
                            if self.is_property(k.methods[name]):
                                return self.call_function(fn.bind(obj), [], {})
                            if self.is_static(k.methods[name]):
                                return fn
                            return fn.bind(obj)
                        if name in k.attrs:
                            sub = Executor(self.world, self.path, k.module, k.module.name + '.' + k.name,
                                           k, self.contract, parent=self)
                            node = k.attrs[name]
                            if isinstance(node, ast.ClassDef):
                                return VClass(name, k.module, None)
                            return sub.ev(node)
                    return None
            c = self.world.classes.get(c.base) if c.base else None
        return None

    def class_static_attr(self, cls, name):
        if cls.module is not None:
            ov = getattr(self.world, 'global_overrides', {}).get('%s.%s.%s' % (cls.module.name, cls.name, name))
            if ov is not None:
                return ov(self)       # class-level mutable state modelled symbolically (declared by the contracts)
        if cls.info is not None:
            for k in self.world.repo.mro(cls.info):
                if name in k.methods:
                    qn = '%s.%s.%s' % (k.module.name, k.name, name)
                    return VFunc(qn, k.methods[name], k.module, owner=k)
                if name in k.attrs:
                    sub = Executor(self.world, self.path, k.module, k.module.name, k, self.contract, parent=self)
                    return sub.ev(k.attrs[name])
        return VExternal(cls.name + '.' + name)

    @staticmethod
    def is_property(node):
        return any(isinstance(d, ast.Name) and d.id == 'property' for d in node.decorator_list)

    @staticmethod
    def is_static(node):
        return any(isinstance(d, ast.Name) and d.id == 'staticmethod' for d in node.decorator_list)

    # ------------------------------------------------------------ exceptions
    def exc_bases(self, name):
        """list of base class names of exception class `name`"""
        c = real_exception_class(name)
        if c is not None:
            return [b.__name__ for b in c.__mro__[1:]]
        if name == '<opaque>':
            return ['BaseException']
        if name == 'AnyException':
            return ['Exception', 'BaseException']
        if name == 'AnyBaseException':
            return ['BaseException']
        stdlib = {'Empty': ['Exception', 'BaseException'], 'Full': ['Exception', 'BaseException'],
                  'PicklingError': ['PickleError', 'Exception', 'BaseException'],
                  'error': ['OSError', 'Exception', 'BaseException'],
                  'StructError': ['Exception', 'BaseException'],
                  'ProcessExit': ['BaseException'],       # os._exit(): the process ends (model)
                  'timeout': ['OSError', 'Exception', 'BaseException']}
        if name in stdlib:
            return stdlib[name]
        # billiard classes
        for mn in ('exceptions', 'pool', 'einfo', 'connection', 'managers', 'process', 'common'):
            try:
                m = self.world.repo.module(mn)
            except OSError:
                continue
            if name in m.classes:
                out = []
                for b in m.classes[name].bases:
                    bn = b.split('.')[-1]
                    out.append(bn)
                    out += self.exc_bases(bn)
                return out
        raise Unsupported('unknown exception class %s' % name)

    def exc_subclass(self, name, base):
        if name == base:
            return True
        alias = {'IOError': 'OSError', 'EnvironmentError': 'OSError', 'error': 'OSError'}
        name, base = alias.get(name, name), alias.get(base, base)
        return name == base or base in [alias.get(b, b) for b in self.exc_bases(name)]

    def exc_matches(self, exc, handler_cls):
        return self.exc_subclass(exc.cls, handler_cls)

    def instantiate_exc(self, cls, args, kwargs):
        e = VExc(cls.name, args)
        if self.exc_subclass(cls.name, 'OSError') and len(args) >= 2:
            e.attrs['errno'] = args[0]
        if cls.name == 'SystemExit':
            e.attrs['code'] = args[0] if args else SNone()
        # user-defined __init__ with simple attribute stores
        if cls.info is not None and '__init__' in cls.info.methods:
            node = cls.info.methods['__init__']
            params = [a.arg for a in node.args.args][1:]
            binding = dict(zip(params, args))
            binding.update(kwargs)
            for st in node.body:
                if isinstance(st, ast.Assign) and len(st.targets) == 1 and \
                        isinstance(st.targets[0], ast.Attribute) and \
                        isinstance(st.value, ast.Name) and st.value.id in binding:
                    e.attrs[st.targets[0].attr] = binding[st.value.id]
        return e

    # ------------------------------------------------------------ calls
    def ev_Call(self, node):
        fname = ast.unparse(node.func)
        if self.spec or fname in ('old',):
            r = self.spec_call(fname, node)
            if r is not _MISSING:
                return r
        if fname == 'super' or (isinstance(node.func, ast.Attribute) and isinstance(node.func.value, ast.Call)
                                and ast.unparse(node.func.value.func) == 'super'):
            return self.super_call(node)
        fn = self.ev(node.func)
        args, kwargs = [], {}
        for a in node.args:
            if isinstance(a, ast.Starred):
                v = self.ev(a.value)
                if isinstance(v, (STup, PyList)):
                    args += list(v.items)
                elif isinstance(v, SV) and v.shape is ValS:
                    args.append(v)        # *<opaque sequence>: passed on as one opaque argument
                elif isinstance(v, SRef) and v.shape.cls in CONTAINERS and CONTAINERS[v.shape.cls][0] == 'list' and \
                        isinstance(fn, (VBound, VExternal)) or (isinstance(v, SRef) and v.shape.cls in CONTAINERS and
                                                                 type(fn).__name__ == '_BoundExt'):
                    args.append(v)        # *<heap list> to a foreign callable: passed on as one argument
                else:
                    raise Unsupported('*args of a symbolic sequence in call to %s' % fname)
            else:
                args.append(self.ev(a))
        for k in node.keywords:
            if k.arg is None:
                v = self.ev(k.value)
                if isinstance(v, PyList) and not v.items:
                    continue
                if isinstance(v, PyDict):
                    kwargs.update(v.d)
                    continue
                if isinstance(v, SV) and v.shape is ValS:
                    continue              # **<opaque mapping>: the callee is foreign code
                raise Unsupported('**kwargs in call to %s' % fname)
            kwargs[k.arg] = self.ev(k.value)
        return self.call_value(fn, args, kwargs, fname)

    def super_call(self, node):
        # super().__init__(...) / super(C, self).m(...)
        if not isinstance(node.func, ast.Attribute):
            raise Unsupported('bare super()')
        meth = node.func.attr
        mro = self.world.repo.mro(self.owner)
        for k in mro[1:]:
            if meth in k.methods:
                qn = '%s.%s.%s' % (k.module.name, k.name, meth)
                fn = VFunc(qn, k.methods[meth], k.module, owner=k, self_obj=self.lookup('self'))
                args = [self.ev(a) for a in node.args]
                kwargs = {k2.arg: self.ev(k2.value) for k2 in node.keywords}
                return self.call_value(fn, args, kwargs, 'super().' + meth)
        return self.call_external('super.' + meth, [self.lookup('self')] + [self.ev(a) for a in node.args], {})

    def call_value(self, fn, args, kwargs, fname='?'):
        if isinstance(fn, SOpt):
            fn = self.force(fn, 'callee')
        if isinstance(fn, VFunc):
            return self.call_function(fn, args, kwargs)
        if isinstance(fn, VExternal):
            a = ([fn.self_obj] if fn.self_obj is not None else []) + args
            return self.call_external(fn.name, a, kwargs)
        if isinstance(fn, _BoundExt):
            self.root.call_log.append('%s.%s' % (fn.obj.shape.cls, getattr(fn.fn, '__name__', '?')))
            return fn.fn(self, [fn.obj] + list(args), kwargs)
        if isinstance(fn, VBound):
            return builtins_impl.container_method(self, fn.obj, fn.name, args, kwargs)
        if isinstance(fn, VClass):
            return self.call_class(fn, args, kwargs)
        if isinstance(fn, SV) and fn.shape is ValS:
            return self.call_external('<callable>', [fn] + args, kwargs)
        if isinstance(fn, SNone):
            self.raise_('TypeError', "'NoneType' object is not callable")
        raise Unsupported('call of %r (%s)' % (fn, fname))

    def call_class(self, cls, args, kwargs):
        if real_exception_class(cls.name) is not None or (
                cls.info is not None and self._is_exc_class(cls.name)):
            return self.instantiate_exc(cls, args, kwargs)
        qn = (cls.module.name + '.' if cls.module is not None else '') + cls.name
        ext = self.find_external(qn)
        if ext is not None:
            return ext(self, args, kwargs)
        decl = None
        for d in self.world.classes.values():
            if d.pyname == cls.name and cls.module is not None and d.module == cls.module.name:
                decl = d
        if decl is not None and cls.info is not None:
            obj = SRef(RefS(decl.name), self.path.new_id(decl.name))
            c, init = self.world.repo.find_method(cls.module.name, cls.name, '__init__')
            if init is not None:
                fn = VFunc('%s.%s.__init__' % (c.module.name, c.name), init, c.module, owner=c, self_obj=obj)
                self.call_function(fn, args, kwargs)
            return obj
        raise Unsupported('instantiation of %s (declare an external or a class)' % qn)

    def _is_exc_class(self, name):
        try:
            return 'BaseException' in self.exc_bases(name)
        except Unsupported:
            return False

    def find_external(self, name):
        if self.contract is not None and name in self.contract.externals:
            return self.contract.externals[name]
        return self.world.externals.get(name)

    def call_external(self, name, args, kwargs):
        ext = self.find_external(name)
        if ext is None and name == 'copy.copy':
            return builtins_impl.ext_copy_copy(self, args, kwargs)
        if ext is None and name.startswith('builtins.'):
            impl = builtins_impl.BUILTINS.get(name[len('builtins.'):])
            if impl is not None:
                return impl(self, args, kwargs)
        if ext is None:
            raise Unsupported('call to %s has no contract and no assumed (external) contract [%s line %s]' % (
                name, self.qualname, self.cur_line))
        self.root.call_log.append(name)
        return ext(self, args, kwargs)

    def call_function(self, fn, args, kwargs):
        qn = fn.qualname
        if fn.self_obj is not None:
            args = [fn.self_obj] + list(args)
        ext = self.find_external(qn)
        if ext is not None:
            self.root.call_log.append(qn)
            return ext(self, args, kwargs)
        callee = self.world.contracts.get(qn)
        if self.contract is not None and qn in self.contract.callee_contracts:
            callee = self.contract.callee_contracts[qn]
        if callee is not None and callee is not self.contract and callee.yields and 'item' in callee.yields:
            # calling a generator function runs nothing; the for loop that
            # consumes it uses its contract (yields['item']: what is known of
            # each yielded value, proved at the generator's yield statements)
            if callee.modifies:
                raise ContractError('%s: a generator consumed through its contract must not modify the heap' % qn)
            return builtins_impl.VGenCall(callee, fn, list(args), dict(kwargs))
        inline = (self.contract is not None and qn in self.contract.inline) or qn in self.world.inline \
            or fn.env is not None
        if callee is not None and not (inline and callee is not self.contract) :
            return self.apply_contract(callee, fn, args, kwargs)
        if callee is not None and callee is self.contract:
            return self.apply_contract(callee, fn, args, kwargs)
        if inline:
            return self.inline_call(fn, args, kwargs)
        raise Unsupported('call to %s: no contract, not declared inline/external [%s line %s]' % (
            qn, self.qualname, self.cur_line))

    def bind_params(self, fn, args, kwargs, sub):
        node = fn.node
        a = node.args
        params = [p.arg for p in a.posonlyargs + a.args]
        defaults = [None] * (len(params) - len(a.defaults)) + list(a.defaults)
        args = list(args)
        if len(args) > len(params) and a.vararg is None:
            self.raise_('TypeError', '%s() takes %d positional arguments but %d were given' % (
                node.name, len(params), len(args)))
        for i, p in enumerate(params):
            if i < len(args):
                sub.scopes[0][p] = args[i]
            elif p in kwargs:
                sub.scopes[0][p] = kwargs.pop(p)
            elif defaults[i] is not None:
                dsub = Executor(self.world, self.path, fn.module, fn.qualname, fn.owner, self.contract, parent=self)
                dsub.class_scope = True
                if fn.env is not None:
                    dsub.closure = fn.env
                sub.scopes[0][p] = dsub.ev(defaults[i])
            else:
                self.raise_('TypeError', '%s() missing argument %r' % (node.name, p))
        if a.vararg is not None:
            rest = args[len(params):]
            sub.scopes[0][a.vararg.arg] = STup(rest) if all(getattr(x, 'shape', None) is not None for x in rest) else PyList(rest)
        for p, d in zip(a.kwonlyargs, a.kw_defaults):
            if p.arg in kwargs:
                sub.scopes[0][p.arg] = kwargs.pop(p.arg)
            elif d is not None:
                sub.scopes[0][p.arg] = self.ev(d)
            else:
                self.raise_('TypeError', 'missing keyword-only argument')
        if a.kwarg is not None:
            sub.scopes[0][a.kwarg.arg] = PyDict(dict(kwargs)) if kwargs else PyList([])
            kwargs.clear()
        elif kwargs:
            self.raise_('TypeError', '%s() got an unexpected keyword argument' % node.name)

    def inline_call(self, fn, args, kwargs):
        if self.depth > 12:
            raise Unsupported('inlining depth exceeded at %s' % fn.qualname)
        sub = Executor(self.world, self.path, fn.module, fn.qualname, fn.owner, self.contract, parent=self)
        sub.closure = fn.env
        sub.handling = self.handling
        self.bind_params(fn, args, dict(kwargs), sub)
        sub.set_function(fn.node)
        if isinstance(fn.node, ast.Lambda):
            return sub.ev(fn.node.body)
        try:
            sub.run_block(fn.node.body)
        except Return as r:
            return r.value
        return SNone()

    def set_function(self, node):
        self.func_node = node
        self.loop_ord = {}
        n = 0
        for sub in self._walk_same_function(node):
            if isinstance(sub, (ast.While, ast.For)):
                self.loop_ord[id(sub)] = n
                n += 1

    def _walk_same_function(self, node):
        """pre-order walk that does not descend into nested defs/lambdas"""
        body = node.body if isinstance(node.body, list) else [node.body]
        stack = list(reversed(body))
        while stack:
            n = stack.pop()
            yield n
            if isinstance(n, (ast.FunctionDef, ast.Lambda, ast.ClassDef)):
                continue
            stack.extend(reversed(list(ast.iter_child_nodes(n))))

    # modular call ------------------------------------------------------
    def apply_contract(self, callee, fn, args, kwargs):
        from .contracts import apply_contract
        return apply_contract(self, callee, fn, args, kwargs)

    # ------------------------------------------------------------ loops
    def loop(self, node, kind):
        from .loops import run_loop
        return run_loop(self, node, kind)

    def do_yield(self, node):
        from .loops import run_yield
        return run_yield(self, node)

    def maybe_alloc_local(self, name, value_node):
        shapes = self.contract.locals if self.contract is not None else {}
        key = name
        if (self.qualname, name) in shapes:
            key = (self.qualname, name)
        if key not in shapes:
            return None
        shape = shapes[key]
        src = ast.unparse(value_node)
        if isinstance(shape, RefS) and shape.cls in CONTAINERS and src in (
                '[]', '{}', 'set()', 'deque()', 'collections.deque()', 'dict()', 'list()'):
            return builtins_impl.alloc_container(self, shape)
        return None

    # ------------------------------------------------------------ spec mode
    def spec_eval(self, expr, env=None, old_store=None):
        """evaluate a contract clause (string) to a Value, no forking"""
        if hasattr(expr, 'text'):
            expr = expr.text()
        if isinstance(expr, str):
            try:
                node = ast.parse(expr.strip(), mode='eval').body
            except SyntaxError as e:
                raise ContractError('bad clause %r: %s' % (expr, e))
        else:
            node = expr
        saved = (self.spec, self.spec_env, self.old_store)
        self.spec = True
        self.spec_env = dict(self.spec_env) if saved[0] else {}
        if env:
            self.spec_env.update(env)
        if old_store is not None:
            self.old_store = old_store
        try:
            return self.ev(node)
        finally:
            self.spec, self.spec_env, self.old_store = saved

    def spec_bool(self, expr, env=None, old_store=None):
        v = self.spec_eval(expr, env, old_store)
        return self.truthy(v)

    def spec_call(self, fname, node):
        if fname == 'old':
            if self.old_store is None:
                raise ContractError('old() outside a postcondition')
            cur = self.path.store
            self.path.store = dict(self.old_store)
            saved_env = self.spec_env
            if self.old_env is not None:
                self.spec_env = dict(saved_env)
                self.spec_env.update(self.old_env)
            try:
                return self.ev(node.args[0])
            finally:
                self.path.store = cur
                self.spec_env = saved_env
        if not self.spec:
            return _MISSING
        if fname == 'entry':
            le = getattr(self.root, 'loop_entry', None)
            if le is None:
                raise ContractError('entry() outside a loop invariant')
            cur, saved_env = self.path.store, self.spec_env
            self.path.store = dict(le[0])
            self.spec_env = dict(saved_env)
            for k, v in le[1].items():
                # locals as they were at loop entry, except quantifier-bound names
                if k not in saved_env:
                    self.spec_env[k] = v
            try:
                return self.ev(node.args[0])
            finally:
                self.path.store, self.spec_env = cur, saved_env
        if fname == 'implies':
            a = self.truthy(self.ev(node.args[0]))
            b = self.truthy(self.ev(node.args[1]))
            return SV(BoolS, z3.Implies(a, b))
        if fname == 'iff':
            a = self.truthy(self.ev(node.args[0]))
            b = self.truthy(self.ev(node.args[1]))
            return SV(BoolS, a == b)
        if fname in ('all', 'any') and node.args and isinstance(node.args[0], ast.GeneratorExp):
            return self.spec_quant(fname, node.args[0])
        if fname == 'ite':
            c = self.truthy(self.ev(node.args[0]))
            a, b = self.join2(self.ev(node.args[1]), self.ev(node.args[2]))
            return ite(c, a, b)
        if fname == 'only_key_changed':
            # only_key_changed(d, k1, ...): the dict/set d differs from its old
            # value at most at the given keys (quantifier-free: array stores)
            d = self.ev(node.args[0])
            if isinstance(d, SOpt):
                d = d.val
            keys = [self.ev(a) for a in node.args[1:]]
            conj = []
            for f, shape in container_fields(d.shape.cls).items():
                if not isinstance(shape, MapS):
                    continue
                new = self.path.read_field(d, f)
                cur = self.path.store
                self.path.store = dict(self.old_store)
                try:
                    old = self.path.read_field(d, f)
                finally:
                    self.path.store = cur
                upd = old
                for k in keys:
                    kk = coerce(self.path, k, shape.key)
                    upd = shape.store(upd, kk, shape.select(new, kk))
                conj.append(self.eq(new, upd))
            return SV(BoolS, z3.And(conj))
        if fname == 'map_only_changed':
            new, old = self.ev(node.args[0]), self.ev(node.args[1])
            upd = old
            for a in node.args[2:]:
                kk = coerce(self.path, self.ev(a), new.shape.key)
                upd = new.shape.store(upd, kk, new.shape.select(new, kk))
            return SV(BoolS, self.eq(new, upd))
        if fname == 'only_changed_at':
            # only_changed_at('Cls.f', o1, ...): field f differs from its old
            # value at most at the given objects
            key = node.args[0].value
            cls, field = key.rsplit('.', 1)
            owner, shape = self.world.field_owner(cls, field)
            if owner is None:
                raise ContractError('only_changed_at(%r): unknown field' % key)
            k = owner + '.' + field
            new = self.path.field_arrays(owner, field, shape)
            old = self.old_store.get(k, self.path.store0.get(k)) or new
            objs = []
            for a in node.args[1:]:
                o = self.ev(a)
                if isinstance(o, SOpt):
                    o = o.val
                objs.append(o.id)
            conj = []
            for a, b in zip(new, old):
                upd = b
                for o in objs:
                    upd = z3.Store(upd, o, z3.Select(a, o))
                conj.append(a == upd)
            return SV(BoolS, z3.And(conj))
        if fname == 'truthy':
            return SV(BoolS, self.truthy(self.ev(node.args[0])))
        if fname == 'isnone':
            v = self.ev(node.args[0])
            return SV(BoolS, self.is_(v, SNone()))
        if fname == 'val':      # val(opt) -> the inner value (unspecified if None)
            v = self.ev(node.args[0])
            return v.val if isinstance(v, SOpt) else v
        if fname == 'real':
            v = self.ev(node.args[0])
            return coerce(self.path, self.force(v), RealS)
        if fname == 'has':      # has(dict_or_set, key)
            return SV(BoolS, self.contains(self.ev(node.args[0]), self.ev(node.args[1])))
        if fname == 'get':      # get(dict, key): value without presence check
            return self.getitem(self.ev(node.args[0]), self.ev(node.args[1]))
        if fname == 'at':       # at(list, i): element without bounds check
            lst = self.ev(node.args[0])
            i = self.ev(node.args[1])
            if isinstance(lst, SBytes):
                return SV(IntS, lst.at(as_arith(i)))
            items = self.path.read_field(lst, 'items')
            return items.shape.select(items, coerce(self.path, i, IntS))
        if fname == 'count':    # count(list, x): occurrences (ghost multiset view of the list)
            lst = self.ev(node.args[0])
            if isinstance(lst, SOpt):
                lst = lst.val
            cnt = self.path.read_field(lst, 'cnt')
            elem = CONTAINERS[lst.shape.cls][1]
            return cnt.shape.select(cnt, coerce(self.path, self.ev(node.args[1]), elem))
        if fname == 'fresh':    # fresh(obj): allocated during this call
            v = self.ev(node.args[0])
            if isinstance(v, SOpt):
                v = v.val
            base = getattr(self, 'fresh_base', None)
            return SV(BoolS, z3.And(v.id >= (base if base is not None else self.path.alloc0), v.id < self.path.alloc_now()))
        if fname == 'allocated':
            v = self.ev(node.args[0])
            return SV(BoolS, z3.And(v.id >= 0, v.id < self.path.alloc_now()))
        if fname == 'unchanged':  # unchanged('Cls.field') whole array equal to old
            return SV(BoolS, self._unchanged(node))
        if fname == 'same_except':  # same_except('Cls.field', obj, ...)
            return SV(BoolS, self._unchanged(node, True))
        if fname == 'beq':      # bytes equality of windows
            return SV(BoolS, self.eq(self.ev(node.args[0]), self.ev(node.args[1])))
        if fname == 'ref':      # ref('Cls', idexpr)
            cls = node.args[0].value
            i = self.ev(node.args[1])
            return SRef(RefS(cls), as_arith(i))
        if fname == 'idof':
            return SV(IntS, self.ev(node.args[0]).id)
        if fname == 'assigned':
            # assigned(obj, 'a', 'b', ...): on this path every one of these
            # attributes of the attribute-bag object obj has been assigned
            obj = self.ev(node.args[0])
            names = [a.value for a in node.args[1:]]
            have = self.bag_of(obj)
            missing = [n for n in names if n not in have]
            self.last_missing_attrs = missing
            return mk_bool(not missing)
        if fname == 'attr':
            obj = self.ev(node.args[0])
            name = node.args[1].value
            have = self.bag_of(obj)
            if name not in have:
                # not assigned on this path: an arbitrary value (the assigned() clause reports it)
                return SV(ValS, z3.Const(fresh_name('unassigned_' + name), Val))
            return have[name]
        if fname == 'dict_of':
            from .evalexpr import VBagDict
            v = self.ev(node.args[0])
            obj = self.ev(node.args[1])
            return mk_bool(isinstance(v, VBagDict) and z3.simplify(v.obj.id).eq(z3.simplify(obj.id)))
        if fname in self.world_spec_funcs():
            args = [self.ev(a) for a in node.args]
            return self.world_spec_funcs()[fname](self, *args)
        return _MISSING

    def world_spec_funcs(self):
        d = getattr(self.world, 'spec_funcs', None)
        return d or {}

    def _unchanged(self, node, except_=False):
        key = node.args[0].value
        cls, field = key.rsplit('.', 1)
        owner, shape = self.world.field_owner(cls, field)
        if owner is None:
            raise ContractError('unchanged(%r): unknown field' % key)
        k = owner + '.' + field
        new = self.path.field_arrays(owner, field, shape)
        old = self.old_store.get(k, self.path.store0.get(k))
        if old is None:
            old = new
        if not except_:
            return z3.And([z3.BoolVal(True)] + [a == b for a, b in zip(new, old)])
        excl = [self.ev(a) for a in node.args[1:]]
        o = z3.Int(fresh_name('o'))
        cond = z3.And([z3.BoolVal(True)] + [o != e.id for e in excl])
        return z3.ForAll([o], z3.Implies(cond, z3.And([z3.Select(a, o) == z3.Select(b, o)
                                                       for a, b in zip(new, old)])))

    def spec_quant(self, fname, gen):
        """all(body for x in dom [if cond] for y in dom2 ...) -> ForAll / Exists"""
        qs, guard = [], z3.BoolVal(True)
        saved = dict(self.spec_env)
        try:
            for g in gen.generators:
                if not isinstance(g.target, ast.Name):
                    raise ContractError('quantifier target must be a name')
                var = g.target.id
                dom = g.iter
                dname = ast.unparse(dom.func) if isinstance(dom, ast.Call) else None
                if dname == 'ints':
                    q = z3.Int(fresh_name(var))
                    bound = SV(IntS, q)
                elif dname == 'reals':
                    q = z3.Real(fresh_name(var))
                    bound = SV(RealS, q)
                elif dname == 'range':
                    q = z3.Int(fresh_name(var))
                    bound = SV(IntS, q)
                    a = [self.ev(x) for x in dom.args]
                    lo, hi = (mk_int(0), a[0]) if len(a) == 1 else (a[0], a[1])
                    guard = z3.And(guard, q >= as_arith(self.force(lo)), q < as_arith(self.force(hi)))
                elif dname == 'refs':
                    q = z3.Int(fresh_name(var))
                    bound = SRef(RefS(dom.args[0].value), q)
                    guard = z3.And(guard, q >= 0, q < self.path.alloc_now())
                    want = dom.args[0].value
                    for oid, ocls in getattr(self.path, 'new_objs', []):
                        if ocls != want and not self.world.is_subclass_decl(ocls, want) \
                                and not self.world.is_subclass_decl(want, ocls):
                            guard = z3.And(guard, q != oid)
                elif dname == 'anyrefs':
                    # every object id, allocated or not (for invariants that themselves say which ids occur)
                    q = z3.Int(fresh_name(var))
                    bound = SRef(RefS(dom.args[0].value), q)
                elif dname == 'vals':
                    q = z3.Const(fresh_name(var), Val)
                    bound = SV(ValS, q)
                else:
                    raise ContractError('unknown quantifier domain %s' % ast.unparse(dom))
                qs.append(q)
                self.spec_env[var] = bound
                for cond in g.ifs:
                    guard = z3.And(guard, self.truthy(self.ev(cond)))
            body = self.truthy(self.ev(gen.elt))
        finally:
            self.spec_env = saved
        if fname == 'all':
            import zlib
            qid = 'q_' + '_'.join(str(q).split('!')[0] for q in qs) + '_%d' % (zlib.crc32(ast.unparse(gen.elt).encode()) % 100000)
            return SV(BoolS, z3.ForAll(qs, z3.Implies(guard, body), qid=qid))
        return SV(BoolS, z3.Exists(qs, z3.And(guard, body)))
