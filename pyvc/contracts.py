"""Contracts: declaration, proof of a function against its contract, modular
use at call sites, frame conditions, lemmas."""
import ast
import time

import z3

from . import smt
from .core import (Unsupported, ContractError, PathEnd, PyExc, Return, Break, has_quant,
                   Continue, VExc, VFunc, VClass, VExternal, PyList, coerce,
                   Path, Obligation, World)
from .shapes import (SV, SNone, SOpt, SRef, STup, SMap, SBytes, SStr, Value,
                     IntS, RealS, BoolS, ValS, OptS, RefS, MapS, CONTAINERS,
                     container_fields, fresh_name, reset_fresh, mk_int, mk_bool,
                     lift)


def _labelled(x, prefix):
    if x is None:
        return {}
    if isinstance(x, dict):
        return dict(x)
    return {'%s%d' % (prefix, i): e for i, e in enumerate(x)}


class Contract:
    def __init__(self, qualname, params=None, requires=None, ensures=None,
                 raises=None, modifies=None, loops=None, locals=None,
                 inline=None, externals=None, returns=None, free=None,
                 lets=None, yields=None, variants=None, prop=None, defs=None, instantiate=None,
                 raises_only_if=None, replay=None, setup=None, pure=False, callee_contracts=None,
                 ghost_after=None, ghost_entry=None, enclosing=None, instantiate_entry=None,
                 instantiate_call=None, lemmas=None, uses=None, blocks=None, decreases=None, ghost_exit=None, local_ensures=None, forget=None, guarded=None, doc=''):
        self.qualname = qualname
        self.params = dict(params or {})
        self.requires = _labelled(requires, 'pre')
        self.ensures = _labelled(ensures, 'post')
        # raises: {ExcClass: {label: clause}} -- exceptions the function may
        # leave by; anything else escaping is an obligation failure
        self.raises = {k: _labelled(v, 'exc') for k, v in (raises or {}).items()}
        self.raises_only_if = dict(raises_only_if or {})
        self.modifies = list(modifies or [])
        self.loops = dict(loops or {})
        self.locals = dict(locals or {})
        self.inline = set(inline or [])
        self.externals = dict(externals or {})
        self.returns = returns
        self.free = dict(free or {})
        self.lets = dict(lets or {})
        self.defs = dict(defs or {})          # name -> (var, body): forall var. body, a *definition* of a ghost map
        self.instantiate = dict(instantiate or {})  # name -> [exprs] instances assumed before proving the post
        self.yields = yields
        self.variants = variants
        self.prop = prop
        self.replay = replay
        self.setup = setup
        self.pure = pure
        self.ghost_after = ghost_after
        self.ghost_entry = ghost_entry
        self.callee_contracts = dict(callee_contracts or {})   # context-specific (stronger) contracts of callees
        self.instantiate_entry = dict(instantiate_entry or {})   # requires label -> [bindings]
        self.instantiate_call = dict(instantiate_call or {})     # (callee qualname, ensures label) -> [bindings]
        self.uses = dict(uses or {})       # goal label -> labels of the (quantified) hypotheses it needs
        self.lemmas = list(lemmas or [])   # [{'before': '<statement text>', 'prove': {label: clause}}]
        self.blocks = list(blocks or [])   # statement contracts: [{'first','last','assigns','raises','modifies','label'}]
        # proved in the body, not exported to call sites (clauses over per-path engine state such as assigned()/attr())
        self.local_ensures = _labelled(local_ensures, 'local')
        # proof structuring: at a call of <callee> keep only these (tagged) quantified hypotheses; the callee's
        # postcondition re-establishes what is needed afterwards (hypotheses are only dropped: sound)
        self.forget = dict(forget or {})
        # lock discipline (guarded-by): field of `self` -> clause that must hold whenever the body reads or writes it
        self.guarded = dict(guarded or {})
        self.ghost_exit = list(ghost_exit or [])   # [(object expr, ghost field, value expr)]: ghost assignments on normal return
        self.decreases = decreases         # termination measure of a recursive function (Int expression over the parameters)
        self.enclosing = enclosing    # params of the enclosing function: its body is run to bind the closure
        self.doc = doc


class Forall:
    """a universally quantified clause kept in parts, so that the engine can
    also assume chosen *instances* of it where it is a hypothesis (explicit
    instantiation; the solver still gets the quantified formula as well)"""
    def __init__(self, vars, body):
        self.vars = dict(vars)          # name -> domain text: 'ints()' | 'refs("Cls")' | ...
        self.body = body

    def text(self):
        return 'all(%s %s)' % (self.body, ' '.join('for %s in %s' % (v, d) for v, d in self.vars.items()))

    def replace(self, a, b):
        return Forall(self.vars, self.body.replace(a, b))


def assume_forall_instances(ev_bind, ev_body, clause, bindings_list, env, old_store):
    """assume clause.body[vars := bindings] for each bindings dict (guarded by
    the domain of reference-typed variables).  ev_bind evaluates the binding
    expressions, ev_body the clause body (they differ at call sites)."""
    for b in bindings_list:
        env2 = dict(env or {})
        guard = []
        for v, dom in clause.vars.items():
            if v not in b:
                raise ContractError('instance of a forall clause must bind %s' % v)
            val = ev_bind.spec_eval(b[v], None, old_store)
            if dom.startswith('refs('):
                if isinstance(val, SOpt):
                    val = val.val
                guard.append(z3.And(val.id >= 0, val.id < ev_body.path.alloc_now()))
            env2[v] = val
        f = ev_body.spec_bool(clause.body, env2, old_store)
        ev_body.path.assume(z3.Implies(z3.And([z3.BoolVal(True)] + guard), f))


class Result:
    """outcome of verifying one function"""
    def __init__(self, qualname):
        self.qualname = qualname
        self.obligations = []     # Obligation
        self.paths = 0
        self.infeasible = 0
        self.dropped = set()
        self.calls = set()
        self.error = None         # ('unsupported'|'contract', message)
        self.span = None
        self.file = None
        self.sha256 = None
        self.seconds = 0.0
        self.exits = {}


# ------------------------------------------------------------------ proving

def prove(ex, name, formula, detail='', env=None):
    """discharge  pc => formula ; record the obligation; continue assuming it.
    A refuted obligation that matches a recorded finding (known_findings.txt)
    is re-checked under the negation of the finding's witness clause: only if
    *every* counterexample is the recorded one does it count as known."""
    P = ex.path
    if isinstance(formula, bool):
        formula = z3.BoolVal(formula)
    t0 = time.time()
    v, model, backend = None, None, None
    quantified = [f for f in P.pc if has_quant(f)]
    uses = None
    c_root = ex.root.contract
    if c_root is not None and c_root.uses:
        uses = c_root.uses.get(name.rsplit('.', 1)[-1], c_root.uses.get(name))
    if uses is not None:
        # proof outline: the contract names the hypotheses this goal needs
        # (sound: hypotheses are only dropped; anything but 'unsat' falls through)
        allowed = set(uses)
        kept = [f for f in P.pc if not has_quant(f) or P.tag_of(f) in allowed
                or ('*ext' in allowed and P.tag_of(f) is None)]
        v1, _, b1 = smt.check(kept + [z3.Not(formula)], fallback=False)
        if v1 == 'unsat':
            v, backend = 'unsat', b1 + ' (outline: %d hypotheses)' % len(allowed)
    if v is None and len(quantified) > 6:
        # relevance filter (sound: hypotheses are only dropped): quantified
        # hypotheses that share no heap field with the goal are left out of a
        # first, cheaper attempt; 'unsat' there is final, anything else falls
        # through to the full query
        gk = field_keys(formula)
        kept = [f for f in P.pc if not has_quant(f) or (field_keys(f) & gk)]
        if len(kept) < len(P.pc):
            v1, _, b1 = smt.check(kept + [z3.Not(formula)], fallback=False,
                                  timeout_ms=max(1000, smt.QUICK_TIMEOUT_MS // 2))
            if v1 == 'unsat':
                v, backend = 'unsat', b1 + ' (relevant hypotheses)'
    if v is None:
        v, model, backend = smt.check(P.pc + [z3.Not(formula)], want_model=True)
    if v == 'unknown' and z3.is_false(z3.simplify(formula)):
        # "this point must be unreachable" (an escaping exception): with
        # quantified hypotheses the solver cannot say `sat`; a model of the
        # quantifier-free part is taken as the candidate counterexample -- it is
        # confirmed, or not, by the replay on the real code
        v2, m2, _ = smt.check([f for f in P.pc if not has_quant(f)], want_model=True, fallback=False)
        if v2 == 'sat':
            v, model, backend = 'sat', m2, 'z3 (model of the quantifier-free part of the path condition)'
    verdict = {'unsat': 'proved', 'sat': 'refuted'}.get(v, 'unknown')
    known = None
    if v in ('sat', 'unknown'):
        # (`unknown` on an obligation that a recorded finding covers for every
        # input -- witness "True" -- is that finding, not a new alarm and not a
        # reason to search again: the solver merely ran out of time on it)
        full = ex.root.qualname + '/' + name
        cands = list(ex.world.findings.get(full, []))
        if getattr(ex.world, 'variant', None):
            # obligations of a handle-kind variant are recorded as <function>@<variant>/<obligation>
            cands += ex.world.findings.get('%s@%s/%s' % (ex.root.qualname, ex.world.variant, name), [])
        for fid, wclause in cands:
            try:
                wit = ex.spec_bool(wclause, env, ex.old_store) if wclause else z3.BoolVal(True)
            except ContractError as e:
                raise ContractError('finding %s: witness clause: %s' % (fid, e))
            if z3.is_true(z3.simplify(wit)):
                v2, model2 = 'unsat', None        # the recorded finding covers every counterexample of this obligation
            elif v == 'unknown':
                continue
            else:
                v2, model2, _ = smt.check(P.pc + [z3.Not(formula), z3.Not(wit)], want_model=True)
            if v2 == 'unsat':
                verdict, known = 'known', fid
                break
            if v2 == 'sat' and model2 is not None:
                model = model2
    dt = time.time() - t0
    ob = Obligation(name, verdict, backend, list(P.taken), None, detail)
    ob.seconds = dt
    ob.known = known
    if v == 'sat':
        ob.model = extract_model(ex, model) if model is not None else {}
    P.obligations.append(ob)
    if not has_quant(formula):
        # (quantified facts are not accumulated: they slow every later query;
        # loop invariants are re-assumed at the loop head anyway)
        P.pc.append(formula)
    return ob


_fk_memo = {}


def field_keys(f):
    """names of the heap fields ('Cls.field') a formula mentions"""
    key = f.get_id()
    hit = _fk_memo.get(key)
    if hit is not None and hit[0].eq(f):
        return hit[1]
    out, seen, stack = set(), set(), [f]
    while stack:
        t = stack.pop()
        i = t.get_id()
        if i in seen:
            continue
        seen.add(i)
        if z3.is_quantifier(t):
            stack.append(t.body())
            continue
        if z3.is_app(t):
            if t.num_args() == 0 and t.decl().kind() == z3.Z3_OP_UNINTERPRETED:
                n = t.decl().name()
                if n.startswith('H0!') or n.startswith('HV!'):
                    n = n[3:]
                    n = n.split('!')[0]
                    for sfx in ('?', '@'):
                        pass
                    # strip component suffixes: '.0', '?', '@' ...
                    import re as _re
                    n = _re.sub(r'(\.\d+|\?|@|\.arr|\.off|\.len)*$', '', n)
                    out.add(n)
            stack.extend(t.children())
    _fk_memo[key] = (f, out)
    return out


def extract_model(ex, model):
    out = {}
    P = ex.path
    root = ex.root
    # candidate keys for dumping dict/set contents: every integer input
    cands = set()
    for name, v in getattr(root, 'inputs', {}).items():
        if isinstance(v, SV) and v.shape is IntS:
            try:
                n = _num(model.eval(v.e, model_completion=True))
                if isinstance(n, int):
                    cands.add(n)
            except Exception:
                pass
    P._cand_keys = sorted(cands)[:12]
    for name, v in getattr(root, 'inputs', {}).items():
        try:
            out[name] = model_value(P, model, v, root)
        except Exception as e:      # model extraction must never kill a run
            out[name] = '<%s>' % e
    return out


def _num(x):
    if z3.is_int_value(x):
        return x.as_long()
    if z3.is_rational_value(x):
        n, d = x.numerator_as_long(), x.denominator_as_long()
        return n if d == 1 else n / d
    if z3.is_true(x):
        return True
    if z3.is_false(x):
        return False
    if z3.is_algebraic_value(x):
        return float(x.approx(10).as_fraction())
    return str(x)


def model_value(P, model, v, root, depth=0):
    ev = lambda e: model.eval(e, model_completion=True)
    if isinstance(v, SV):
        return _num(ev(v.e))
    if isinstance(v, SNone):
        return None
    if isinstance(v, SOpt):
        if z3.is_true(ev(v.isnone)):
            return None
        return model_value(P, model, v.val, root, depth)
    if isinstance(v, STup):
        return [model_value(P, model, x, root, depth) for x in v.items]
    if isinstance(v, SBytes):
        n = _num(ev(v.len))
        off = _num(ev(v.off))
        if isinstance(n, int) and 0 <= n <= 64:
            return {'bytes': [_num(ev(z3.Select(v.arr, off + i))) for i in range(n)]}
        return {'bytes_len': n}
    if isinstance(v, SRef):
        oid = _num(ev(v.id))
        out = {'$id': oid, '$cls': v.shape.cls}
        if depth >= 3:
            return out
        w = P.world
        cls = v.shape.cls
        fields = {}
        c = cls
        if cls in CONTAINERS:
            fields = container_fields(cls)
        else:
            while c is not None and c in w.classes:
                for f, s in w.classes[c].fields.items():
                    fields.setdefault(f, s)
                c = w.classes[c].base
        for f, s in fields.items():
            owner, shape = w.field_owner(cls, f)
            key = owner + '.' + f
            arrs0 = P.store0.get(key)
            if arrs0 is None:
                continue
            if isinstance(shape, MapS):
                if cls in CONTAINERS and CONTAINERS[cls][0] == 'list' and f == 'items':
                    ln_arr = P.store0.get(cls + '.len')
                    n = _num(ev(z3.Select(ln_arr[0], v.id))) if ln_arr else 0
                    if isinstance(n, int) and 0 <= n <= 8:
                        items = shape.pack([z3.Select(a, v.id) for a in arrs0])
                        out['items'] = [model_value(P, model, shape.select(items, mk_int(i)), root, depth + 1)
                                        for i in range(n)]
                if cls in CONTAINERS and CONTAINERS[cls][0] in ('dict', 'set') and f == 'has' \
                        and CONTAINERS[cls][1] is IntS:
                    has = shape.pack([z3.Select(a, v.id) for a in arrs0])
                    entries = {}
                    for k in getattr(P, '_cand_keys', []):
                        if z3.is_true(ev(shape.select(has, mk_int(k)).e)):
                            entries[k] = True
                            if CONTAINERS[cls][0] == 'dict':
                                vo, vs = w.field_owner(cls, 'val')
                                va = P.store0.get(vo + '.val')
                                if va is not None:
                                    vals = vs.pack([z3.Select(a, v.id) for a in va])
                                    entries[k] = model_value(P, model, vs.select(vals, mk_int(k)), root, depth + 1)
                    out['entries'] = entries
                continue
            val = shape.pack([z3.Select(a, v.id) for a in arrs0])
            out[f] = model_value(P, model, val, root, depth + 1)
        return out
    return repr(v)


# ------------------------------------------------------------------ modifies

def parse_modifies(ex, entries, at):
    """-> list of (owner, field, shape, target) with target = z3 id or None (all)"""
    out = []
    for ent in entries:
        base, field = ent.rsplit('.', 1)
        is_local = any(base in sc for sc in at.scopes) or any(base in sc for sc in (at.closure or [])) \
            or base in at.spec_env
        if not is_local and (base in at.world.classes or base in CONTAINERS):
            fields = [field]
            if field == '*':
                fields = list(container_fields(base)) if base in CONTAINERS else list(at.world.classes[base].fields)
            for f in fields:
                owner, shape = at.world.field_owner(base, f)
                if owner is None:
                    raise ContractError('modifies %s: unknown field' % ent)
                out.append((owner, f, shape, None))
            continue
        obj = at.spec_eval(base)
        if isinstance(obj, SOpt):
            obj = obj.val
        if not isinstance(obj, SRef):
            raise ContractError('modifies %s: base is not an object' % ent)
        fields = [field]
        if field == '*':
            cls = obj.shape.cls
            if cls in CONTAINERS:
                fields = list(container_fields(cls))
            else:
                fields, c = [], cls
                while c is not None and c in at.world.classes:
                    fields += [f for f in at.world.classes[c].fields if f not in fields]
                    c = at.world.classes[c].base
        for f in fields:
            owner, shape = at.world.field_owner(obj.shape.cls, f)
            if owner is None:
                raise ContractError('modifies %s: unknown field' % ent)
            out.append((owner, f, shape, obj.id))
    return out


def havoc_modifies(ex, entries, at):
    P = ex.path
    for owner, f, shape, target in parse_modifies(ex, entries, at):
        if target is None:
            P.havoc_field_all(owner, f)
        else:
            P.havoc_field_at(SRef(RefS(owner), target), f)


def frame_obligations(ex, entries, pre_store, label, at):
    """every heap location changed since pre_store is covered by `entries`
    (evaluated in the pre-state) or belongs to an object allocated since"""
    P = ex.path
    cur = P.store
    saved = P.store
    P.store = dict(pre_store)
    try:
        mods = parse_modifies(ex, entries, at)
    finally:
        P.store = saved
    allowed = {}
    for owner, f, shape, target in mods:
        key = owner + '.' + f
        if target is None:
            allowed[key] = None
        elif allowed.get(key, ()) is not None:
            allowed.setdefault(key, []).append(target)
    for key, arrs in cur.items():
        old = pre_store.get(key)
        if old is None:
            old = P.store0.get(key)
        if old is None or all(a.eq(b) for a, b in zip(arrs, old)):
            continue
        if key in allowed and allowed[key] is None:
            continue
        o = z3.Int(fresh_name('fo'))
        lo = -1 if key.startswith('g.') else 0
        cond = [o >= lo, o < P.alloc0]
        for t in allowed.get(key, []):
            cond.append(o != t)
        same = z3.And([z3.Select(a, o) == z3.Select(b, o) for a, b in zip(arrs, old)])
        prove(ex, '%s.%s' % (label, key), z3.Implies(z3.And(cond), same))


# ------------------------------------------------------------------ call sites

def as_int(v):
    from .evalexpr import as_arith
    return as_arith(v)


def apply_contract(ex, callee, fn, args, kwargs):
    """assert pre; havoc frame; assume post (or an exceptional post)"""
    from .executor import Executor
    P = ex.path
    sub = Executor(ex.world, P, fn.module, fn.qualname, fn.owner, callee, parent=ex)
    sub.closure = fn.env
    ex.bind_params(fn, args, dict(kwargs), sub)
    # coerce arguments to the declared parameter shapes
    for p, shape in callee.params.items():
        if p in sub.scopes[0]:
            try:
                sub.scopes[0][p] = coerce(P, sub.scopes[0][p], shape)
            except Unsupported:
                raise Unsupported('call %s: argument %s=%r does not fit declared shape %s' % (
                    callee.qualname, p, sub.scopes[0][p], shape))
    env = dict(sub.scopes[0])
    short = callee.qualname.split('.', 1)[1]
    for lab, expr in callee.requires.items():
        prove(ex, 'call:%s.pre.%s@%s' % (short, lab, ex.cur_line), sub.spec_bool(expr, env))
    if callee is ex.root.contract and callee.decreases is not None and getattr(ex.root, 'entry_measure', None) is not None:
        # recursive call: the termination measure is non-negative and strictly smaller
        m = as_int(sub.spec_eval(callee.decreases, env))
        prove(ex, 'call:%s.decreases@%s' % (short, ex.cur_line), z3.And(m >= 0, m < ex.root.entry_measure))
    if ex.contract is not None and callee.qualname in getattr(ex.contract, 'forget', {}):
        keep = set(ex.contract.forget[callee.qualname])
        P.pc = [f for f in P.pc if not has_quant(f) or P.tag_of(f) in keep]
    pre = P.snapshot()
    sub.old_env = env
    # objects the callee allocates get ids at or above the caller's current
    # allocation mark; fresh(x) in the callee's postcondition means exactly that
    # (the mark is moved first: references havocked below may point to them)
    sub.fresh_base = P.bump_alloc()
    havoc_modifies(ex, callee.modifies, sub)
    outcomes = ['return'] + sorted(callee.raises)
    k = P.choose(len(outcomes))
    if k == 0:
        result = SNone()
        if callee.returns is not None:
            result = callee.returns.fresh('ret!' + short)
            P._assume_wf(result)
        env2 = dict(env)
        env2['result'] = result
        for name, expr in callee.lets.items():
            env2[name] = sub.spec_eval(expr, env2, pre)
        for lab, expr in callee.ensures.items():
            P.assume(sub.spec_bool(expr, env2, pre), tag=lab)
        if ex.contract is not None:
            for (qn, lab), blist in ex.contract.instantiate_call.items():
                if qn == callee.qualname:
                    assume_forall_instances(ex, sub, callee.ensures[lab], blist, env2, pre)
        return result
    cls = outcomes[k]
    exc = VExc(cls, [], {'errno': OptS(IntS).fresh('errno')})
    env2 = dict(env)
    env2['exc'] = exc
    for name, expr in callee.lets.items():
        env2[name] = sub.spec_eval(expr, env2, pre)
    for lab, expr in callee.raises[cls].items():
        P.assume(sub.spec_bool(expr, env2, pre))
    raise PyExc(exc)


# ------------------------------------------------------------------ verifying

def verify_function(world, contract, max_paths=4000, only_prefix=None):
    from .executor import Executor
    res = Result(contract.qualname)
    t0 = time.time()
    try:
        module, owner, node = world.repo.find_function(contract.qualname)
        if contract.enclosing is not None:
            enc_q = contract.qualname.rsplit('.<locals>.', 1)[0]
            contract._enc = world.repo.find_function(enc_q) + (enc_q,)
    except Exception as e:
        res.error = ('missing', 'function %s not found: %s' % (contract.qualname, e))
        return res
    res.file = module.path
    res.sha256 = module.sha256
    res.span = (node.lineno, node.end_lineno)
    work = [[]] if only_prefix is None else [list(only_prefix)]
    res.new_prefixes = []
    seen_names = {}
    while work:
        prefix = work.pop()
        if res.paths >= max_paths:
            res.error = ('unsupported', 'more than %d paths' % max_paths)
            break
        res.paths += 1
        reset_fresh()
        P = Path(world, prefix)
        ex = Executor(world, P, module, contract.qualname, owner, contract)
        ex.old_env = None
        ex.inputs = {}
        try:
            run_one_path(ex, contract, node, res)
        except PathEnd:
            pass
        except Unsupported as e:
            res.error = ('unsupported', str(e))
            break
        except ContractError as e:
            res.error = ('contract', str(e))
            break
        res.obligations += P.obligations
        res.dropped |= ex.dropped
        res.calls |= set(ex.call_log)
        if only_prefix is None:
            work.extend(P.new_prefixes)
        else:
            # single-path mode (the driver schedules the paths of one function over its process pool)
            res.new_prefixes = [list(x) for x in P.new_prefixes]
    res.seconds = time.time() - t0
    return res


def bind_inputs(ex, contract, node):
    P = ex.path
    a = node.args
    params = [p.arg for p in a.posonlyargs + a.args] + [p.arg for p in a.kwonlyargs]
    defaults = dict(zip([p.arg for p in (a.posonlyargs + a.args)][len(a.posonlyargs + a.args) - len(a.defaults):], a.defaults))
    defaults.update({p.arg: d for p, d in zip(a.kwonlyargs, a.kw_defaults) if d is not None})
    env = {}
    for p in params:
        if p in contract.params:
            shape = contract.params[p]
            if isinstance(shape, Value) or not hasattr(shape, 'named'):
                env[p] = lift(shape) if not isinstance(shape, Value) else shape
            else:
                v = shape.named('in!' + p)
                P._assume_wf(v)
                env[p] = v
                ex.inputs[p] = v
        elif p in defaults:
            ex.class_scope = True
            try:
                env[p] = ex.ev(defaults[p])
            finally:
                ex.class_scope = False
        else:
            raise ContractError('%s: parameter %s has no declared shape' % (contract.qualname, p))
    if a.vararg is not None:
        env[a.vararg.arg] = contract.params.get('*' + a.vararg.arg, STup([]))
    if a.kwarg is not None:
        env[a.kwarg.arg] = PyList([])
    for name, shape in contract.free.items():
        if isinstance(shape, str):
            env[name] = ex.spec_eval(shape, env)
        elif isinstance(shape, Value):
            env[name] = shape
        else:
            v = shape.named('in!' + name)
            P._assume_wf(v)
            env[name] = v
            ex.inputs[name] = v
    if 'g' in ex.world.classes:
        gref = ex.lookup('g')
        for f, shape in ex.world.classes['g'].fields.items():
            if not isinstance(shape, MapS):
                ex.inputs['g.' + f] = P.read_field(gref, f)
    return env, params


def run_one_path(ex, contract, node, res):
    P = ex.path
    env, params = bind_inputs(ex, contract, node)
    free_env = {k: v for k, v in env.items() if k in contract.free}
    ex.scopes[0].update({k: v for k, v in env.items() if k not in contract.free})
    ex.closure = [free_env]
    if contract.enclosing is not None:
        # bind the closure the way the enclosing function binds it: run its
        # (straight-line) body on symbolic parameters and take the inner
        # function object it defines
        from .executor import Executor
        emod, eowner, enode, enc_q = contract._enc
        enc = Executor(ex.world, P, emod, enc_q, eowner, contract, parent=ex)
        for pname, shape in contract.enclosing.items():
            v = shape.named('in!' + pname)
            P._assume_wf(v)
            enc.scopes[0][pname] = v
            ex.inputs[pname] = v
        enc.set_function(enode)
        try:
            enc.run_block(enode.body)
        except Return:
            pass
        inner = enc.scopes[0].get(node.name)
        if not isinstance(inner, VFunc) or inner.node is not node:
            raise ContractError('%s: enclosing function does not define it at top level' % contract.qualname)
        ex.closure = [free_env] + list(inner.env)
    ex.set_function(node)
    if contract.setup is not None:
        contract.setup(ex, env)
    for lab, expr in contract.requires.items():
        P.assume(ex.spec_bool(expr, env), tag=lab)
    ex.entry_measure = None
    if contract.decreases is not None:
        ex.entry_measure = as_int(ex.spec_eval(contract.decreases, env))
    for lab, blist in contract.instantiate_entry.items():
        ex.scopes[0].update({k: v for k, v in env.items() if k not in ex.scopes[0]})
        assume_forall_instances(ex, ex, contract.requires[lab], blist, env, None)
    # vacuity: the precondition must be satisfiable
    if not P.prefix and not getattr(res, '_pre_checked', False):
        res._pre_checked = True
        v, _, _ = smt.check([f for f in P.pc if not has_quant(f)], timeout_ms=3000, fallback=False)
        ob = Obligation('vacuity.pre_satisfiable',
                        'proved' if v == 'sat' else ('refuted' if v == 'unsat' else 'unknown'),
                        'z3', [], None, 'requires must be satisfiable')
        ob.seconds = 0.0
        P.obligations.append(ob)
        if v == 'unsat':
            raise PathEnd()
    pre = P.snapshot()
    ex.old_store = pre
    ex.old_env = dict(env)
    outcome, value = 'return', SNone()
    if contract.ghost_entry is not None:
        contract.ghost_entry(ex)
    try:
        ex.run_block(node.body)
    except Return as r:
        value = r.value
    except PyExc as pe:
        outcome, value = 'raise', pe.exc
    if not P.feasible([]):
        res.infeasible += 1
        raise PathEnd()
    env2 = dict(env)
    # `final.<name>`: the value of a local variable when the function was left
    from .executor import VNamespace
    env2['final'] = VNamespace({k: v for sc in ex.scopes for k, v in sc.items()})
    if outcome == 'return':
        res.exits['return'] = res.exits.get('return', 0) + 1
        if contract.returns is not None:
            try:
                value = coerce(P, value, contract.returns)
            except Unsupported:
                if isinstance(value, SOpt) and not P.feasible([z3.Not(value.isnone)]):
                    value = coerce(P, SNone(), contract.returns)     # e.g. `return self._popen` where it is None
                else:
                    value = None
            if value is None:
                prove(ex, 'post.result_shape', z3.BoolVal(False),
                      'returned %r, declared %s' % (value, contract.returns))
                raise PathEnd()
        env2['result'] = value
        for oexpr, gfield, vexpr in contract.ghost_exit:
            # ghost code at the end of the body: obj.<ghost field> := <expr>
            if not gfield.startswith('g_'):
                raise ContractError('ghost field %r must be named g_*' % gfield)
            ex.path.write_field(ex.spec_eval(oexpr, env2, pre), gfield, ex.spec_eval(vexpr, env2, pre))
        for name, expr in contract.lets.items():
            env2[name] = ex.spec_eval(expr, env2, pre)
        assume_instances(ex, contract, contract.instantiate, env2, pre)
        for lab, expr in contract.ensures.items():
            prove(ex, 'post.' + lab, ex.spec_bool(expr, env2, pre), env=env2)
        for lab, expr in contract.local_ensures.items():
            prove(ex, 'post.' + lab, ex.spec_bool(expr, env2, pre), env=env2)
    else:
        cls = value.cls
        res.exits[cls] = res.exits.get(cls, 0) + 1
        matched = None
        for k in contract.raises:
            if ex.exc_subclass(cls, k):
                matched = k
                break
        if matched is None:
            prove(ex, 'noraise.' + cls, z3.BoolVal(False),
                  'exception %s (args %r) escapes at line %s' % (cls, value.args, ex.cur_line), env=env2)
        else:
            env2['exc'] = value
            for name, expr in contract.lets.items():
                env2[name] = ex.spec_eval(expr, env2, pre)
            for lab, expr in contract.raises[matched].items():
                prove(ex, 'raises.%s.%s' % (matched, lab), ex.spec_bool(expr, env2, pre), env=env2)
            if matched in contract.raises_only_if:
                prove(ex, 'raises_only_if.%s' % matched,
                      ex.spec_bool(contract.raises_only_if[matched], env2, pre))
    # frame
    ex.spec_env = {}
    saved_scopes = ex.scopes
    ex.scopes = [dict(env)]
    try:
        frame_obligations(ex, contract.modifies, pre, 'frame', ex)
    finally:
        ex.scopes = saved_scopes
    # canary: at least one path of every function must end with a satisfiable
    # path condition (feasibility is decided on the quantifier-free part, so
    # an individual path may turn out infeasible here: that is not an error)
    v, _, _ = smt.check([f for f in P.pc if not has_quant(f)], timeout_ms=3000, fallback=False)
    if v == 'unsat' and all(o.verdict == 'proved' for o in P.obligations):
        res.infeasible += 1
    else:
        res.live_paths = getattr(res, 'live_paths', 0) + 1


def assume_instances(ex, contract, inst, env=None, old_store=None):
    """assume instances of the contract's ghost-map definitions (each is a
    universally quantified *definition* of an otherwise unconstrained ghost
    map, so any instance is a sound assumption); the quantified formula itself
    is never given to the solver"""
    for name, exprs in (inst or {}).items():
        var, body = contract.defs[name]
        for e in exprs:
            v = ex.spec_eval(e, env, old_store)
            env2 = dict(env or {})
            env2[var] = v
            ex.path.assume(ex.spec_bool(body, env2, old_store))


# ------------------------------------------------------------------ lemmas

class Lemma:
    def __init__(self, name, decls, assumes, claim, prop=None):
        self.name, self.decls, self.assumes, self.claim = name, decls, assumes, claim
        self.prop = prop


def verify_lemma(world, lemma):
    """a closed implication over declared symbols, stated in the clause
    language, discharged by the solver"""
    from .executor import Executor
    res = Result('lemma:' + lemma.name)
    t0 = time.time()
    reset_fresh()
    P = Path(world, [])
    mod = world.repo.module('common')
    ex = Executor(world, P, mod, 'lemma.' + lemma.name, None, None)
    ex.inputs = {}
    env = {}
    try:
        for name, shape in lemma.decls.items():
            v = shape.named('lm!' + name)
            P._assume_wf(v)
            env[name] = v
            ex.inputs[name] = v
        for a in lemma.assumes:
            P.assume(ex.spec_bool(a, env, P.snapshot()))
        v, _, _ = smt.check([f for f in P.pc if not has_quant(f)], timeout_ms=3000, fallback=False)
        ob = Obligation('vacuity.assumptions_satisfiable',
                        'proved' if v == 'sat' else ('refuted' if v == 'unsat' else 'unknown'), 'z3', [])
        ob.seconds = 0.0
        P.obligations.append(ob)
        claims = lemma.claim if isinstance(lemma.claim, dict) else {'claim': lemma.claim}
        for lab, c in claims.items():
            prove(ex, lab, ex.spec_bool(c, env, P.snapshot()))
    except (Unsupported, ContractError) as e:
        res.error = ('contract', str(e))
    res.paths = 1
    res.obligations = P.obligations
    res.seconds = time.time() - t0
    return res
