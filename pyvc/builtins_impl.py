"""Encoding of Python built-ins and container methods (part of the trusted
encoding; listed in the evidence as 'encoding rule')."""
import z3

from .core import (Unsupported, ContractError, PathEnd, PyExc, VExc, VFunc,
                   VClass, VModule, VExternal, VBound, PyList, VIter, coerce, box)
from .shapes import (SV, SNone, SOpt, SRef, STup, SMap, SBytes, SStr, Value,
                     IntS, RealS, BoolS, ValS, NoneS, StrS, BytesS, OptS, RefS,
                     TupS, MapS, CONTAINERS, container_fields, fresh_name,
                     lift, ite, Val, mk_int, mk_bool, mk_real)
from .evalexpr import is_num, as_arith, num_join


class VRange(Value):
    def __init__(self, lo, hi, rev=False):
        self.shape = None
        self.lo, self.hi, self.rev = lo, hi, rev


class VGenCall(Value):
    """an un-consumed call of a repo generator function that has a contract"""
    def __init__(self, contract, fn, args, kwargs):
        self.shape = None
        self.contract, self.fn, self.args, self.kwargs = contract, fn, args, kwargs


class VEmptySet(Value):
    """set() not yet stored anywhere (materialised by the declared shape of the field / local it is assigned to)"""
    def __init__(self):
        self.shape = None


class VFilteredList(Value):
    """[x for x in <heap list> if cond(x)], not yet consumed (cond: Value -> z3 Bool, evaluated in the state at creation)"""
    def __init__(self, lst, cond):
        self.shape = None
        self.lst, self.cond = lst, cond


class VView(Value):
    """dict view / snapshot: keys | values | items of a dict object"""
    def __init__(self, d, kind):
        self.shape = None
        self.d, self.kind = d, kind


class VIterCall(Value):
    """iter(f, sentinel)"""
    def __init__(self, f, sentinel):
        self.shape = None
        self.f, self.sentinel = f, sentinel


class VEnumerate(Value):
    def __init__(self, inner):
        self.shape = None
        self.inner = inner


def const_map(mshape, value_expr):
    """a pure map (curried arrays) with the same value everywhere"""
    comps = []
    for sfx, srt in mshape.comps():
        a = value_expr
        s = srt
        doms = []
        while isinstance(s, z3.ArraySortRef):
            doms.append(s.domain())
            s = s.range()
        for d in reversed(doms):
            a = z3.K(d, a)
        comps.append(a)
    return SMap(mshape, comps)


def cnt_get(ex, obj, v):
    """occurrences of v in the list (ghost multiset view; always >= 0)"""
    cnt = ex.path.read_field(obj, 'cnt')
    c = cnt.shape.select(cnt, v)
    ex.path.assume(c.e >= 0)
    return c


def cnt_add(ex, obj, v, delta):
    cnt = ex.path.read_field(obj, 'cnt')
    c = cnt.shape.select(cnt, v)
    ex.path.assume(c.e >= 0)          # a multiset count (true of every list; stated where the count is updated)
    ex.path.write_field(obj, 'cnt', cnt.shape.store(cnt, v, SV(IntS, c.e + delta)))


def alloc_container(ex, shape):
    obj = SRef(shape, ex.path.new_id(shape.cls))
    info = CONTAINERS[shape.cls]
    if info[0] == 'list':
        ex.path.write_field(obj, 'len', mk_int(0))
        ex.path.write_field(obj, 'cnt', const_map(container_fields(shape.cls)['cnt'], z3.IntVal(0)))
    else:
        ex.path.write_field(obj, 'size', mk_int(0))
        has_shape = container_fields(shape.cls)['has']
        comps = []
        for sfx, srt in has_shape.comps():
            a = z3.BoolVal(False)
            s = srt
            doms = []
            while isinstance(s, z3.ArraySortRef):
                doms.append(s.domain())
                s = s.range()
            for d in reversed(doms):
                a = z3.K(d, a)
            comps.append(a)
        ex.path.write_field(obj, 'has', SMap(has_shape, comps))
    return obj


def b_len(ex, args, kw):
    v = ex.force(args[0], 'len() argument')
    if isinstance(v, (STup, PyList)):
        return mk_int(len(v.items))
    if isinstance(v, SBytes):
        return SV(IntS, v.len)
    if isinstance(v, SStr):
        return mk_int(len(v.s))
    if isinstance(v, SRef) and v.shape.cls in CONTAINERS:
        f = 'len' if CONTAINERS[v.shape.cls][0] == 'list' else 'size'
        return ex.path.read_field(v, f)
    if isinstance(v, SRef):
        decl = ex.world.classes.get(v.shape.cls)
        if decl is not None and '__len__' in decl.methods:
            return decl.methods['__len__'](ex, [v], {})          # declared (assumed) length
        m = ex.class_attr(v, '__len__')
        if m is not None:
            return ex.call_value(m, [], {})
    if isinstance(v, SV) and v.shape is ValS:
        if getattr(ex.world, 'abstract_bytes', None) is not None:
            return ex.world.abstract_bytes.length(ex, v)
        return ex.call_external('len<opaque>', [v], {})
    ex.raise_('TypeError', 'object has no len()')


def b_minmax(is_min):
    def f(ex, args, kw):
        if len(args) == 1 and isinstance(args[0], (STup, PyList)):
            args = list(args[0].items)
        vals = [ex.force(a) for a in args]
        if not all(is_num(v) for v in vals):
            raise Unsupported('min/max of non-numbers')
        cur = vals[0]
        for v in vals[1:]:
            ea, eb, s = num_join(v, cur)
            # Python: min(a, b) returns a unless b < a ... (first wins on ties)
            c = (ea < eb) if is_min else (ea > eb)
            cur = SV(s, z3.If(c, ea, eb))
        return cur
    return f


def b_abs(ex, args, kw):
    v = ex.force(args[0])
    e = as_arith(v)
    return SV(RealS if v.shape is RealS else IntS, z3.If(e < 0, -e, e))


def b_bool(ex, args, kw):
    if not args:
        return mk_bool(False)
    return SV(BoolS, ex.truthy(args[0]))


def b_int(ex, args, kw):
    v = ex.force(args[0])
    if is_num(v):
        if v.shape is RealS:
            e = v.e
            return SV(IntS, z3.If(e >= 0, z3.ToInt(e), -z3.ToInt(-e)))
        return SV(IntS, as_arith(v))
    raise Unsupported('int() of %r' % (v,))


def b_float(ex, args, kw):
    v = ex.force(args[0])
    if is_num(v):
        return coerce(ex.path, v, RealS)
    raise Unsupported('float() of %r' % (v,))


def static_isinstance(ex, v, c):
    """True/False/None (unknown) for isinstance(v, class c)"""
    name = c.name if isinstance(c, VClass) else None
    if isinstance(c, VExternal):
        name = c.name.split('.')[-1]
    if isinstance(v, VExc):
        return ex.exc_subclass(v.cls, name)
    table = {'int': (IntS, BoolS), 'float': (RealS,), 'bool': (BoolS,),
             'Integral': (IntS, BoolS)}
    if isinstance(v, SV) and v.shape in (IntS, RealS, BoolS):
        return v.shape in table.get(name, ())
    if isinstance(v, SNone):
        return False
    if isinstance(v, (SBytes,)):
        return name in ('bytes', 'bytearray', 'memoryview')
    if isinstance(v, SStr):
        return name == 'str'
    if isinstance(v, (STup,)):
        return name == 'tuple'
    if isinstance(v, PyList):
        return name in ('list',)
    if isinstance(v, SRef):
        cls = v.shape.cls
        if cls in CONTAINERS:
            kind = CONTAINERS[cls][0]
            return name == kind or (kind == 'list' and name in ('list', 'deque'))
        d = ex.world.classes.get(cls)
        while d is not None:
            if d.pyname == name:
                return True
            d = ex.world.classes.get(d.base) if d.base else None
        return False
    return None


def b_isinstance(ex, args, kw):
    v, c = args
    if isinstance(v, SOpt):
        if ex.spec:
            raise ContractError('isinstance on optional in spec')
        if ex.path.decide(v.isnone):
            return mk_bool(False)
        v = v.val
    cs = c.items if isinstance(c, (STup, PyList)) else [c]
    res = False
    for k in cs:
        r = static_isinstance(ex, v, k)
        if r is None:
            return ex.call_external('isinstance<opaque>', [v, k], {})
        res = res or r
    return mk_bool(res)


def b_getattr(ex, args, kw):
    obj, name = args[0], args[1]
    if not isinstance(name, SStr):
        if ex.find_external('getattr<dynamic>') is not None:
            return ex.call_external('getattr<dynamic>', list(args), {})
        raise Unsupported('getattr with a non-constant name')
    if len(args) > 2:
        o = obj
        if isinstance(o, SOpt):
            if ex.path.decide(o.isnone):
                return args[2]
            o = o.val
        return ex.getattr(o, name.s, default=args[2])
    return ex.getattr(obj, name.s)


def b_hasattr(ex, args, kw):
    obj, name = args
    sentinel = VExternal('<missing>')
    r = ex.getattr(ex.force(obj), name.s, default=sentinel)
    return mk_bool(r is not sentinel)


def b_range(ex, args, kw):
    a = [ex.force(x) for x in args]
    if len(a) == 1:
        return VRange(z3.IntVal(0), as_arith(a[0]))
    if len(a) == 2:
        return VRange(as_arith(a[0]), as_arith(a[1]))
    raise Unsupported('range with step')


def b_reversed(ex, args, kw):
    v = args[0]
    if isinstance(v, VRange):
        return VRange(v.lo, v.hi, rev=not v.rev)
    if isinstance(v, (STup, PyList)):
        return PyList(list(reversed(v.items)))
    raise Unsupported('reversed()')


def b_list(ex, args, kw):
    if not args:
        return PyList([])
    v = args[0]
    if isinstance(v, (STup, PyList)):
        return PyList(list(v.items))
    if isinstance(v, VIter):
        return PyList(v.items[v.pos:])
    if isinstance(v, VView):
        return v          # snapshot of a view: iteration takes a snapshot anyway
    if isinstance(v, SRef) and v.shape.cls in CONTAINERS and CONTAINERS[v.shape.cls][0] in ('dict', 'set'):
        return VView(v, 'keys')
    raise Unsupported('list() of %r' % (v,))


def b_tuple(ex, args, kw):
    if not args:
        return STup([])
    v = args[0]
    if isinstance(v, STup):
        return v
    if isinstance(v, PyList):
        return STup(v.items) if all(getattr(x, 'shape', None) is not None for x in v.items) else v
    if isinstance(v, VIter):
        return STup(v.items[v.pos:])
    raise Unsupported('tuple() of %r' % (v,))


def b_iter(ex, args, kw):
    if len(args) == 2:
        return VIterCall(args[0], args[1])
    v = args[0]
    if isinstance(v, (STup, PyList)):
        return VIter(v.items)
    if isinstance(v, VIter):
        return v
    return v


def b_next(ex, args, kw):
    it = args[0]
    if isinstance(it, PyList):       # generator expression evaluated eagerly
        it = VIter(it.items)
    if isinstance(it, VIter):
        if it.pos < len(it.items):
            it.pos += 1
            return it.items[it.pos - 1]
        if len(args) > 1:
            return args[1]
        ex.raise_('StopIteration')
    if type(it).__name__ == 'VGen':
        return next_of_gen(ex, it, args[1] if len(args) > 1 else None)
    if isinstance(it, VFilteredList):
        # next(iter([x for x in lst if c(x)]), default): the first element that satisfies c
        P = ex.path
        ln = P.read_field(it.lst, 'len').e
        items = P.read_field(it.lst, 'items')
        default = args[1] if len(args) > 1 else None
        k = z3.Int(fresh_name('k'))
        ck = it.cond(items.shape.select(items, SV(IntS, k)))
        if P.choose(2) == 0:
            j = z3.Int(fresh_name('first'))
            P.assume(z3.And(j >= 0, j < ln))
            v = items.shape.select(items, SV(IntS, j))
            P._assume_wf(v)
            P.assume(it.cond(v))
            P.assume(z3.ForAll([k], z3.Implies(z3.And(k >= 0, k < j), z3.Not(ck))))
            return v
        P.assume(z3.ForAll([k], z3.Implies(z3.And(k >= 0, k < ln), z3.Not(ck))))
        if default is None:
            ex.raise_('StopIteration')
        return default
    raise Unsupported('next() of %r' % (it,))


def next_of_gen(ex, gen, default):
    """next(<generator over a symbolic list / enumerate>, default): either
    some element satisfies the filter -- the first such, of which only "it
    satisfies the filter" is used (sound over-approximation of *which* one) --
    or none does and the default is returned"""
    P = ex.path
    seq = gen.seq
    if isinstance(seq, VRange):
        return next_of_range_gen(ex, gen, default)
    lst = seq.inner if type(seq).__name__ == 'VEnumerate' else seq
    if not (isinstance(lst, SRef) and lst.shape.cls in CONTAINERS and CONTAINERS[lst.shape.cls][0] == 'list'):
        raise Unsupported('next() of a generator over %r' % (seq,))
    ln = P.read_field(lst, 'len').e
    if P.choose(2) == 0:
        k = z3.Int(fresh_name('first'))
        P.assume(z3.And(k >= 0, k < ln))
        item, cond, elt = gen.element(ex, k)
        P.assume(cond)
        v = elt()
        P._assume_wf(v)
        return v
    j = z3.Int(fresh_name('j'))
    item, cond, elt = gen.element(ex, j)
    P.assume(z3.ForAll([j], z3.Implies(z3.And(j >= 0, j < ln), z3.Not(cond))))
    if default is None:
        ex.raise_('StopIteration')
    return default


def next_of_range_gen(ex, gen, default):
    """next(f(i) for i in range(lo, hi) if cond(i)[, default]): the first i
    that satisfies cond, or StopIteration / the default when none does.  When
    cond is `i not in S` for a set S, "none does" means range(lo, hi) is a
    subset of S, hence hi - lo <= |S| (lemmas/SetCard.lean: range_subset_card)"""
    import ast as _ast
    P = ex.path
    rng = gen.seq
    if rng.rev:
        raise Unsupported('next() over a reversed range')
    g = gen.node.generators[0]
    if P.choose(2) == 0:
        r = z3.Int(fresh_name('first'))
        P.assume(z3.And(r >= rng.lo, r < rng.hi))
        item, cond, elt = gen.element(ex, SV(IntS, r))
        P.assume(cond)
        k = z3.Int(fresh_name('k'))
        _, condk, _ = gen.element(ex, SV(IntS, k))
        P.assume(z3.ForAll([k], z3.Implies(z3.And(k >= rng.lo, k < r), z3.Not(condk))))
        return elt()
    k = z3.Int(fresh_name('k'))
    _, condk, _ = gen.element(ex, SV(IntS, k))
    P.assume(z3.ForAll([k], z3.Implies(z3.And(k >= rng.lo, k < rng.hi), z3.Not(condk))))
    if len(g.ifs) == 1 and isinstance(g.ifs[0], _ast.Compare) and len(g.ifs[0].ops) == 1 and \
            isinstance(g.ifs[0].ops[0], _ast.NotIn) and isinstance(g.ifs[0].left, _ast.Name) and \
            isinstance(g.target, _ast.Name) and g.ifs[0].left.id == g.target.id:
        S = ex.spec_eval(g.ifs[0].comparators[0], {})
        if isinstance(S, SRef) and S.shape.cls in CONTAINERS and CONTAINERS[S.shape.cls][0] == 'set':
            size = P.read_field(S, 'size').e
            P.assume(z3.Implies(rng.hi > rng.lo, size >= rng.hi - rng.lo))
            ex.root.call_log.append('finite-set cardinality: range(lo, hi) subset of S implies hi - lo <= |S| '
                                      '(lemmas/SetCard.lean: range_subset_card)')
    if default is None:
        ex.raise_('StopIteration')
    return default


def b_set(ex, args, kw):
    """set(<generator `k for k in S if cond(k)` over a set/dict>): the subset"""
    if not args:
        return VEmptySet()
    gen = args[0]
    if type(gen).__name__ != 'VGen':
        raise Unsupported('set() of %r' % (gen,))
    src = gen.seq
    if type(src).__name__ == 'VView':
        src = src.d
    if isinstance(src, SRef) and src.shape.cls in CONTAINERS and CONTAINERS[src.shape.cls][0] == 'list':
        return set_of_list_gen(ex, gen, src)
    if not (isinstance(src, SRef) and src.shape.cls in CONTAINERS and CONTAINERS[src.shape.cls][0] in ('set', 'dict')):
        raise Unsupported('set() of a generator over %r' % (src,))
    g = gen.node.generators[0]
    import ast as _ast
    if not (isinstance(gen.node.elt, _ast.Name) and isinstance(g.target, _ast.Name) and gen.node.elt.id == g.target.id):
        raise Unsupported('set(f(k) for k in ...) with f other than the identity')
    P = ex.path
    kshape = CONTAINERS[src.shape.cls][1]
    from .shapes import set_of
    new = alloc_container(ex, set_of(kshape))
    has_src = P.read_field(src, 'has')
    key = kshape.fresh('k')
    qs = kshape.unpack(key)
    item, cond, elt = gen.element(ex, key)
    fresh_has = has_src.shape.fresh('subset')
    P.assume(z3.ForAll(qs, fresh_has.shape.select(fresh_has, key).e ==
                       z3.And(has_src.shape.select(has_src, key).e, cond)))
    P.write_field(new, 'has', fresh_has)
    P.write_field(new, 'size', IntS.fresh('subset_size'))
    return new


def set_of_list_gen(ex, gen, lst):
    """set(f(x) for x in <heap list> if cond(x)): the image.  S contains f of
    every selected element; every member of S has a witness index (Skolem
    function); |S| <= len(list) (cardinality of an image: Finset.card_image_le,
    lemmas/SetCard.lean)"""
    P = ex.path
    ln = P.read_field(lst, 'len').e
    j = z3.Int(fresh_name('j'))
    item, cond, elt = gen.element(ex, j)
    sample = elt()
    kshape = sample.shape
    from .shapes import set_of
    new = alloc_container(ex, set_of(kshape))
    has = container_fields(set_of(kshape).cls)['has'].fresh('image')
    P.assume(z3.ForAll([j], z3.Implies(z3.And(j >= 0, j < ln, cond), has.shape.select(has, sample).e)))
    key = kshape.fresh('v')
    qs = kshape.unpack(key)
    wit = z3.Function(fresh_name('wit'), *([q.sort() for q in qs] + [z3.IntSort()]))
    wj = wit(*qs)
    P.assume(z3.ForAll(qs, z3.Implies(has.shape.select(has, key).e, z3.And(
        wj >= 0, wj < ln, z3.substitute(cond, (j, wj)), z3.substitute(ex.eq(sample, key), (j, wj))))))
    size = IntS.fresh('image_size')
    P.assume(z3.And(size.e >= 0, size.e <= ln))
    ex.root.call_log.append('finite-set cardinality: |image of a list| <= len(list) (lemmas/SetCard.lean: card_image_le)')
    P.write_field(new, 'has', has)
    P.write_field(new, 'size', size)
    return new


def ext_copy_copy(ex, args, kw):
    """copy.copy(d) of a dict/set/list: a new container with the same contents"""
    v = args[0]
    if isinstance(v, SRef) and v.shape.cls in CONTAINERS:
        new = SRef(v.shape, ex.path.new_id())
        for f in container_fields(v.shape.cls):
            ex.path.write_field(new, f, ex.path.read_field(v, f))
        return new
    raise Unsupported('copy.copy of %r' % (v,))


def b_enumerate(ex, args, kw):
    v = args[0]
    if isinstance(v, (STup, PyList)):
        return PyList([STup([mk_int(i), x]) for i, x in enumerate(v.items)])
    return VEnumerate(v)


def b_opaque(name):
    def f(ex, args, kw):
        return SV(ValS, z3.Const(fresh_name(name), Val))
    return f


def b_repr(ex, args, kw):
    # repr is a function of its argument
    e = box(args[0])
    fn = z3.Function('repr', Val, Val)
    return SV(ValS, fn(e))


def b_divmod(ex, args, kw):
    import ast
    q = ex.binop(ast.FloorDiv(), args[0], args[1])
    r = ex.binop(ast.Mod(), args[0], args[1])
    return STup([q, r])


def b_type(ex, args, kw):
    v = args[0]
    if isinstance(v, VExc):
        return VClass(v.cls)
    raise Unsupported('type()')


def b_callable(ex, args, kw):
    v = args[0]
    if isinstance(v, (VFunc, VExternal, VClass, VBound)):
        return mk_bool(True)
    if isinstance(v, SNone):
        return mk_bool(False)
    raise Unsupported('callable()')


def b_bytes(ex, args, kw):
    v = args[0] if args else None
    if v is None:
        return lift(b'')
    if isinstance(v, SBytes):
        return v
    raise Unsupported('bytes()')


def b_sum(ex, args, kw):
    v = args[0]
    if isinstance(v, (STup, PyList)):
        import ast
        acc = args[1] if len(args) > 1 else mk_int(0)
        for x in v.items:
            acc = ex.binop(ast.Add(), acc, x)
        return acc
    raise Unsupported('sum()')


def b_anyall(is_all):
    def f(ex, args, kw):
        v = args[0]
        if isinstance(v, VIter):
            v = PyList(v.items[v.pos:])
        if isinstance(v, (STup, PyList)):
            for x in v.items:
                t = ex.test(x)
                if is_all and not t:
                    return mk_bool(False)
                if not is_all and t:
                    return mk_bool(True)
            return mk_bool(is_all)
        raise Unsupported('any/all over symbolic collection')
    return f


BUILTINS = {
    'set': b_set,
    'len': b_len, 'min': b_minmax(True), 'max': b_minmax(False), 'abs': b_abs,
    'bool': b_bool, 'int': b_int, 'float': b_float, 'isinstance': b_isinstance,
    'getattr': b_getattr, 'hasattr': b_hasattr, 'range': b_range,
    'reversed': b_reversed, 'list': b_list, 'tuple': b_tuple, 'iter': b_iter,
    'next': b_next, 'enumerate': b_enumerate, 'repr': b_repr, 'str': b_opaque('str'),
    'divmod': b_divmod, 'type': b_type, 'callable': b_callable, 'bytes': b_bytes,
    'sum': b_sum, 'any': b_anyall(False), 'all': b_anyall(True),
    'id': b_opaque('id'), 'format': b_opaque('format'),
}


# ---------------------------------------------------------------- containers

def container_method(ex, obj, name, args, kw):
    info = CONTAINERS[obj.shape.cls]
    kind = info[0]
    P = ex.path
    if kind == 'list':
        elem = info[1]
        ln = P.read_field(obj, 'len').e
        items = P.read_field(obj, 'items')
        if name == 'append':
            v = coerce(P, args[0], elem)
            P.write_field(obj, 'items', items.shape.store(items, SV(IntS, ln), v))
            P.write_field(obj, 'len', SV(IntS, ln + 1))
            cnt_add(ex, obj, v, 1)
            return SNone()
        if name == 'appendleft':
            v = coerce(P, args[0], elem)
            new = items.shape.fresh('appl')
            k = z3.Int(fresh_name('k'))
            P.assume(z3.ForAll([k], z3.Implies(z3.And(k >= 1, k < ln + 1), ex.eq(
                new.shape.select(new, SV(IntS, k)), items.shape.select(items, SV(IntS, k - 1))))))
            new = new.shape.store(new, mk_int(0), v)
            P.write_field(obj, 'items', new)
            P.write_field(obj, 'len', SV(IntS, ln + 1))
            cnt_add(ex, obj, v, 1)
            return SNone()
        if name == 'pop' and not args:
            if P.decide(ln <= 0):
                ex.raise_('IndexError', 'pop from empty list')
            v = items.shape.select(items, SV(IntS, ln - 1))
            P.assume(cnt_get(ex, obj, v).e >= 1)       # an element of the list occurs in it
            P.write_field(obj, 'len', SV(IntS, ln - 1))
            cnt_add(ex, obj, v, -1)
            P._assume_wf(v)
            return v
        if name == 'popleft' or (name == 'pop' and args and ex.conc_int(args[0]) == 0):
            if P.decide(ln <= 0):
                ex.raise_('IndexError', 'pop from an empty deque')
            v = items.shape.select(items, mk_int(0))
            ex.list_delete_at(obj, z3.IntVal(0))
            P._assume_wf(v)
            return v
        if name == 'pop':
            i = ex.index_in(ex.force(args[0]), ln)
            v = items.shape.select(items, SV(IntS, i))
            ex.list_delete_at(obj, i)
            P._assume_wf(v)
            return v
        if name == 'clear':
            P.write_field(obj, 'len', mk_int(0))
            P.write_field(obj, 'cnt', const_map(container_fields(obj.shape.cls)['cnt'], z3.IntVal(0)))
            return SNone()
        if name in ('remove', 'index'):
            x = coerce(P, args[0], elem)
            if not P.decide(cnt_get(ex, obj, x).e >= 1):
                ex.raise_('ValueError', 'list.%s(x): x not in list' % name)
            # x occurs: let k be its first position
            k = z3.Int(fresh_name('idx'))
            j = z3.Int(fresh_name('j'))
            P.assume(z3.And(k >= 0, k < ln, ex.eq(items.shape.select(items, SV(IntS, k)), x)))
            P.assume(z3.ForAll([j], z3.Implies(z3.And(j >= 0, j < k), z3.Not(
                ex.eq(items.shape.select(items, SV(IntS, j)), x)))))
            if name == 'index':
                return SV(IntS, k)
            ex.list_delete_at(obj, k)
            return SNone()
        if name == 'insert':
            i = as_arith(ex.force(args[0]))
            i = z3.If(i < 0, z3.If(i + ln < 0, z3.IntVal(0), i + ln), z3.If(i > ln, ln, i))
            v = coerce(P, args[1], elem)
            new = items.shape.fresh('ins')
            k = z3.Int(fresh_name('k'))
            kk = SV(IntS, k)
            P.assume(z3.ForAll([k], z3.Implies(z3.And(k >= 0, k < i), ex.eq(
                new.shape.select(new, kk), items.shape.select(items, kk)))))
            P.assume(z3.ForAll([k], z3.Implies(z3.And(k > i, k < ln + 1), ex.eq(
                new.shape.select(new, kk), items.shape.select(items, SV(IntS, k - 1))))))
            new = new.shape.store(new, SV(IntS, i), v)
            P.write_field(obj, 'items', new)
            P.write_field(obj, 'len', SV(IntS, ln + 1))
            cnt_add(ex, obj, v, 1)
            return SNone()
        if name == 'count':
            return cnt_get(ex, obj, coerce(P, args[0], elem))
    if kind in ('dict', 'set'):
        kshape = info[1]
        has = P.read_field(obj, 'has')
        size = P.read_field(obj, 'size')
        if kind == 'dict' and name in ('get', 'pop'):
            key = coerce(P, ex.force_key(args[0], kshape), kshape)
            present = has.shape.select(has, key).e
            vals = P.read_field(obj, 'val')
            if P.decide(present):
                v = vals.shape.select(vals, key)
                P._assume_wf(v)
                if name == 'pop':
                    P.write_field(obj, 'has', has.shape.store(has, key, mk_bool(False)))
                    P.write_field(obj, 'size', SV(IntS, size.e - 1))
                return v
            if len(args) > 1:
                return args[1]
            if name == 'get':
                return SNone()
            ex.raise_('KeyError', 'key')
        if kind == 'dict' and name in ('values', 'keys', 'items'):
            return VView(obj, name)
        if kind == 'dict' and name == 'setdefault':
            key = coerce(P, ex.force_key(args[0], kshape), kshape)
            present = has.shape.select(has, key).e
            vals = P.read_field(obj, 'val')
            if P.decide(present):
                return vals.shape.select(vals, key)
            ex.setitem(obj, args[0], args[1])
            return args[1]
        if kind == 'set' and name == 'add':
            key = coerce(P, ex.force_key(args[0], kshape), kshape)
            present = has.shape.select(has, key).e
            P.write_field(obj, 'size', SV(IntS, z3.If(present, size.e, size.e + 1)))
            P.write_field(obj, 'has', has.shape.store(has, key, mk_bool(True)))
            return SNone()
        if kind == 'set' and name in ('discard', 'remove'):
            key = coerce(P, ex.force_key(args[0], kshape), kshape)
            present = has.shape.select(has, key).e
            if name == 'remove' and not P.decide(present):
                ex.raise_('KeyError', 'key')
            P.write_field(obj, 'size', SV(IntS, z3.If(present, size.e - 1, size.e)))
            P.write_field(obj, 'has', has.shape.store(has, key, mk_bool(False)))
            return SNone()
        if name == 'clear':
            fresh = alloc_container(ex, obj.shape)
            P.write_field(obj, 'has', P.read_field(fresh, 'has'))
            P.write_field(obj, 'size', mk_int(0))
            return SNone()
        if name == 'copy':
            new = SRef(obj.shape, P.new_id())
            for f in container_fields(obj.shape.cls):
                P.write_field(new, f, P.read_field(obj, f))
            return new
    raise Unsupported('container method %s.%s' % (kind, name))
