"""Core of the symbolic executor: path state, decisions (forking by
re-execution), heap store, obligations."""
import z3

from . import smt
from .shapes import (SV, SNone, SOpt, SRef, STup, SMap, SBytes, SStr, Value,
                     IntS, RealS, BoolS, ValS, NoneS, StrS, BytesS, OptS, RefS,
                     TupS, MapS, CONTAINERS, container_fields, fresh_name,
                     lift, ite, strlit, Val)


_quant_memo = {}


def has_quant(f):
    """does the formula contain a quantifier? (memoised on the AST id; the
    formula is kept alive by the memo so ids are not reused)"""
    key = f.get_id()
    hit = _quant_memo.get(key)
    if hit is not None and hit[0].eq(f):
        return hit[1]
    seen, stack, res = set(), [f], False
    while stack:
        t = stack.pop()
        i = t.get_id()
        if i in seen:
            continue
        seen.add(i)
        if z3.is_quantifier(t):
            res = True
            break
        stack.extend(t.children())
    _quant_memo[key] = (f, res)
    return res


class Unsupported(Exception):
    """construct outside the supported subset -> undecided (exit 2)"""


class ContractError(Exception):
    """the contract files are inconsistent with the code -> checker error"""


class PathEnd(Exception):
    """this path ends here (loop back edge, infeasible, assume False)"""


class PyExc(Exception):
    """an exception of the analysed program"""
    def __init__(self, exc):
        Exception.__init__(self, exc.cls)
        self.exc = exc


class Return(Exception):
    def __init__(self, value):
        self.value = value


class Break(Exception):
    pass


class Continue(Exception):
    pass


# exec-time only values -------------------------------------------------

class VExc(Value):
    def __init__(self, cls, args=(), attrs=None):
        self.shape = None
        self.cls = cls            # class name (string)
        self.args = list(args)
        self.attrs = dict(attrs or {})

    def __repr__(self):
        return 'VExc(%s)' % self.cls


class VFunc(Value):
    def __init__(self, qualname, node, module, env=None, owner=None, self_obj=None):
        self.shape = None
        self.qualname, self.node, self.module = qualname, node, module
        self.env = env            # closure environment (dict) or None
        self.owner = owner        # ClassInfo
        self.self_obj = self_obj

    def bind(self, obj):
        return VFunc(self.qualname, self.node, self.module, self.env, self.owner, obj)

    def __repr__(self):
        return 'VFunc(%s)' % self.qualname


class VClass(Value):
    def __init__(self, name, module=None, info=None):
        self.shape = None
        self.name, self.module, self.info = name, module, info

    def __repr__(self):
        return 'VClass(%s)' % self.name


class VModule(Value):
    def __init__(self, name):
        self.shape = None
        self.name = name

    def __repr__(self):
        return 'VModule(%s)' % self.name


class VExternal(Value):
    """a callable that must have an assumed contract"""
    def __init__(self, name, self_obj=None):
        self.shape = None
        self.name = name
        self.self_obj = self_obj

    def __repr__(self):
        return 'VExternal(%s)' % self.name


class VBound(Value):
    """built-in container method bound to a heap container"""
    def __init__(self, obj, name):
        self.shape = None
        self.obj, self.name = obj, name


class PyList(Value):
    """exec-time concrete list (never stored in the heap)"""
    def __init__(self, items):
        self.shape = None
        self.items = list(items)


class VRepeat(Value):
    """[x] * n with a symbolic n, not yet stored anywhere"""
    def __init__(self, elem, n):
        self.shape = None
        self.elem, self.n = elem, n


class VIter(Value):
    """iterator over a concrete sequence of values"""
    def __init__(self, items):
        self.shape = None
        self.items = list(items)
        self.pos = 0


# ------------------------------------------------------------------ Path

class Obligation:
    __slots__ = ('name', 'verdict', 'backend', 'path', 'model', 'detail', 'seconds', 'known')

    def __init__(self, name, verdict, backend, path, model=None, detail=''):
        self.name, self.verdict, self.backend = name, verdict, backend
        self.path, self.model, self.detail = path, model, detail
        self.seconds, self.known = 0.0, None


class ClassDecl:
    def __init__(self, name, module=None, fields=None, base=None, pyname=None,
                 truthy=True, methods=None, bag=False):
        self.name = name
        self.module = module
        self.pyname = pyname or name     # class name in the source
        self.fields = dict(fields or {})
        self.base = base
        self.truthy = truthy
        self.methods = dict(methods or {})   # name -> python callable (assumed contract)
        # bag=True: instances are attribute bags (plain __dict__ objects whose
        # attributes hold values of any kind, e.g. einfo's stand-ins): undeclared
        # attributes are kept per path and per object, outside the SMT heap;
        # objects of such a class must not be aliased through symbolic references
        self.bag = bag


class World:
    """declarations shared by all paths of one verification run"""
    def __init__(self, repo):
        self.repo = repo
        self.classes = {}        # name -> ClassDecl
        self.contracts = {}      # qualname -> Contract
        self.externals = {}      # name -> python callable(ex, args, kwargs)
        self.inline = set()
        self.ghost = {}          # name -> shape
        self.findings = {}       # 'qualname/obligation' -> [(finding id, witness clause)]
        self.spec_funcs = {}
        self.global_overrides = {}   # 'module.name' -> fn(ex) -> Value (symbolic module-level state)

    def cls(self, name, **kw):
        self.classes[name] = ClassDecl(name, **kw)
        return self.classes[name]

    def field_owner(self, cls, field):
        """(owner class name, shape) of a declared field, following bases"""
        c = cls
        while c is not None:
            if c in CONTAINERS:
                f = container_fields(c)
                if field in f:
                    return c, f[field]
                return None, None
            d = self.classes.get(c)
            if d is None:
                return None, None
            if field in d.fields:
                return c, d.fields[field]
            c = d.base
        return None, None

    def is_subclass_decl(self, cls, base):
        c = cls
        while c is not None:
            if c == base:
                return True
            d = self.classes.get(c)
            c = d.base if d else None
        return False


class Path:
    """state of one symbolic path"""
    def __init__(self, world, prefix):
        self.world = world
        self.prefix = list(prefix)
        self.taken = []
        self.pc = []
        self.store = {}          # 'cls.field' -> list of z3 arrays
        self.store0 = {}         # initial arrays (for reporting)
        self.alloc0 = z3.Int('ALLOC0')
        self.nalloc = 0
        self.alloc_base = self.alloc0
        self.pc.append(self.alloc0 >= 1)
        self.new_prefixes = []
        self.decision_cache = {}
        self.obligations = []
        self.inputs = {}         # name -> Value (for model extraction)
        self.notes = []

    # ---- decisions
    def feasible(self, extra):
        """path feasibility, decided on the quantifier-free part of the path
        condition only (dropping assumptions can only make more paths look
        feasible, which is sound: obligations on an infeasible path are still
        checked against the full path condition and hold vacuously)"""
        qf = [f for f in self.pc if not has_quant(f)]
        v, _, _ = smt.check(qf + extra, timeout_ms=min(3000, smt.QUICK_TIMEOUT_MS),
                            fallback=False)
        return v != 'unsat'

    def decide(self, cond):
        if isinstance(cond, bool):
            return cond
        cond = z3.simplify(cond)
        if z3.is_true(cond):
            return True
        if z3.is_false(cond):
            return False
        key = cond.get_id()
        hit = self.decision_cache.get(key)
        if hit is not None and hit[0].eq(cond):
            return hit[1]
        idx = len(self.taken)
        if idx < len(self.prefix):
            b = self.prefix[idx]
        else:
            can_t = self.feasible([cond])
            if not can_t:
                b = False
            else:
                can_f = self.feasible([z3.Not(cond)])
                if can_f:
                    b = True
                    self.new_prefixes.append(self.taken + [False])
                else:
                    b = True
        self.taken.append(b)
        self.pc.append(cond if b else z3.Not(cond))
        # the expression is stored with the verdict: it keeps the AST alive, so
        # its id cannot be reused by another term while the entry exists
        self.decision_cache[key] = (cond, b)
        neg = z3.simplify(z3.Not(cond))
        self.decision_cache[neg.get_id()] = (neg, not b)
        return b

    def choose(self, n):
        """nondeterministic choice among n alternatives (all explored)"""
        for k in range(n - 1):
            c = z3.Bool(fresh_name('choice%d' % k))
            if self.decide(c):
                return k
        return n - 1

    def assume(self, cond, tag=None):
        if isinstance(cond, bool):
            if not cond:
                raise PathEnd()
            return
        if z3.is_and(cond):
            # conjuncts are kept separately so that the quantifier-free ones
            # take part in feasibility checks
            for c in cond.children():
                self.assume(c, tag)
            return
        self.pc.append(cond)
        if tag is not None:
            # label of the clause this hypothesis comes from (proof outlines:
            # Contract.uses selects hypotheses by label)
            if not hasattr(self, 'tags'):
                self.tags = {}
            self.tags[cond.get_id()] = (cond, tag)

    def tag_of(self, f):
        hit = getattr(self, 'tags', {}).get(f.get_id())
        return hit[1] if hit is not None and hit[0].eq(f) else None

    # ---- heap
    def field_arrays(self, owner, field, shape):
        key = owner + '.' + field
        if key not in self.store:
            arrs = [z3.Const('H0!%s%s' % (key, sfx), z3.ArraySort(z3.IntSort(), srt))
                    for sfx, srt in shape.comps()]
            self.store[key] = arrs
            self.store0[key] = list(arrs)
        return self.store[key]

    def alloc_now(self):
        return self.alloc_base + self.nalloc

    def bump_alloc(self):
        """a callee under contract may have allocated any number of objects"""
        before = self.alloc_now()
        nb = z3.Int(fresh_name('alloc'))
        self.pc.append(nb >= before)
        self.alloc_base, self.nalloc = nb, 0
        return before

    def new_id(self, cls=None):
        i = self.alloc_base + self.nalloc
        self.nalloc += 1
        if cls is not None:
            # objects allocated on this path are known not to be instances of unrelated classes:
            # quantifiers over refs("C") leave them out (executor: domain refs)
            self.__dict__.setdefault('new_objs', []).append((i, cls))
        return i

    def read_field(self, ref, field):
        owner, shape = self.world.field_owner(ref.shape.cls, field)
        if owner is None:
            return None
        arrs = self.field_arrays(owner, field, shape)
        v = shape.pack([z3.Select(a, ref.id) for a in arrs])
        self._assume_wf(v)
        return v

    def _assume_wf(self, v):
        """ids read from the heap are allocated"""
        if isinstance(v, STup):
            for x in v.items:
                self._assume_wf(x)
        elif isinstance(v, SRef):
            self.pc.append(z3.And(v.id >= 0, v.id < self.alloc_now()))
        elif isinstance(v, SOpt) and isinstance(v.val, SRef):
            self.pc.append(z3.Or(v.isnone, z3.And(v.val.id >= 0,
                                                   v.val.id < self.alloc_now())))

    def write_field(self, ref, field, value):
        owner, shape = self.world.field_owner(ref.shape.cls, field)
        if owner is None:
            raise ContractError('field %s.%s is not declared' % (ref.shape.cls, field))
        value = coerce(self, value, shape)
        arrs = self.field_arrays(owner, field, shape)
        es = shape.unpack(value)
        self.store[owner + '.' + field] = [z3.Store(a, ref.id, e)
                                           for a, e in zip(arrs, es)]

    def havoc_field_at(self, ref, field):
        owner, shape = self.world.field_owner(ref.shape.cls, field)
        if owner is None:
            raise ContractError('modifies: field %s.%s is not declared' % (ref.shape.cls, field))
        v = shape.fresh('hv!%s.%s' % (owner, field))
        self.write_field(ref, field, v)
        self._assume_wf(v)

    def havoc_field_all(self, cls, field):
        owner, shape = self.world.field_owner(cls, field)
        if owner is None:
            raise ContractError('modifies: field %s.%s is not declared' % (cls, field))
        key = owner + '.' + field
        self.field_arrays(owner, field, shape)
        self.store[key] = [z3.Const(fresh_name('HV!%s%s' % (key, sfx)),
                                    z3.ArraySort(z3.IntSort(), srt))
                           for sfx, srt in shape.comps()]

    def snapshot(self):
        return dict(self.store)


# ------------------------------------------------------------ coercions

_box_fns = {}


def box(v):
    """inject any value into the opaque Val sort (congruent, uninterpreted)"""
    if isinstance(v, SV) and v.shape is ValS:
        return v.e
    if isinstance(v, SStr):
        return strlit(v.s)
    if isinstance(v, SNone):
        return z3.Const('NoneVal', Val)
    if isinstance(v, VExc):
        es = [box(a) for a in v.args]
        key = 'exc:' + v.cls + ':%d' % len(es)
    elif isinstance(v, (VFunc, VClass, VExternal, VModule)) or type(v).__name__ in ('PyDictC', 'PyDict', '_BoundExt', 'VBound'):
        return z3.Const('obj:' + repr(v)[:80], Val)
    elif isinstance(v, PyList):
        es = [box(a) for a in v.items]
        key = 'pylist:%d' % len(es)
    else:
        es = v.shape.unpack(v)
        key = 'box:' + v.shape.name
    if not es:
        return z3.Const(key, Val)
    if key not in _box_fns:
        _box_fns[key] = z3.Function(key, *([e.sort() for e in es] + [Val]))
    return _box_fns[key](*es)


def coerce(path, v, shape):
    """convert value v to `shape` (for stores, argument passing, merges)"""
    if isinstance(v, Value) and v.shape is not None and v.shape == shape:
        return v
    if isinstance(shape, OptS):
        if isinstance(v, SNone):
            return SOpt(shape, z3.BoolVal(True), shape.inner.fresh('dflt'))
        if isinstance(v, SOpt):
            return SOpt(shape, v.isnone, coerce(path, v.val, shape.inner))
        return SOpt(shape, z3.BoolVal(False), coerce(path, v, shape.inner))
    if isinstance(v, VRepeat) and path is not None:
        if shape is ValS:
            from .absseq import repeat
            return repeat(path, box(v.elem), v.n)
        if isinstance(shape, RefS) and shape.cls in CONTAINERS and CONTAINERS[shape.cls][0] == 'list':
            elem = CONTAINERS[shape.cls][1]
            obj = SRef(shape, path.new_id(shape.cls))
            items = container_fields(shape.cls)['items'].fresh('rep')
            k = z3.Int(fresh_name('k'))
            x = coerce(path, v.elem, elem)
            path.assume(z3.ForAll([k], z3.Implies(z3.And(k >= 0, k < v.n), z3.And(
                [a == b for a, b in zip(elem.unpack(items.shape.select(items, SV(IntS, k))), elem.unpack(x))]))))
            path.write_field(obj, 'items', items)
            path.write_field(obj, 'len', SV(IntS, z3.If(v.n > 0, v.n, 0)))
            return obj
    if shape is ValS:
        return SV(ValS, box(v))
    if shape is RealS and isinstance(v, SV) and v.shape is IntS:
        return SV(RealS, z3.ToReal(v.e))
    if shape is RealS and isinstance(v, SV) and v.shape is BoolS:
        return SV(RealS, z3.If(v.e, z3.RealVal(1), z3.RealVal(0)))
    if shape is IntS and isinstance(v, SV) and v.shape is BoolS:
        return SV(IntS, z3.If(v.e, z3.IntVal(1), z3.IntVal(0)))
    if shape is StrS and isinstance(v, SStr):
        return v
    if shape is StrS and isinstance(v, SV) and v.shape is ValS:
        return v
    if isinstance(shape, TupS) and isinstance(v, STup) and len(v.items) == len(shape.items):
        return STup([coerce(path, x, s) for x, s in zip(v.items, shape.items)], shape)
    if isinstance(shape, RefS) and isinstance(v, SRef):
        w = path.world if path is not None else None
        if w and (w.is_subclass_decl(v.shape.cls, shape.cls) or
                  w.is_subclass_decl(shape.cls, v.shape.cls)):
            return SRef(shape, v.id)
    if isinstance(shape, RefS) and shape.cls in CONTAINERS and CONTAINERS[shape.cls][0] == 'list' \
            and isinstance(v, PyList) and path is not None:
        # a list literal stored where a heap list is declared: allocate it
        elem = CONTAINERS[shape.cls][1]
        obj = SRef(shape, path.new_id(shape.cls))
        items = container_fields(shape.cls)['items'].fresh('lit')
        for i, x in enumerate(v.items):
            items = items.shape.store(items, SV(IntS, z3.IntVal(i)), coerce(path, x, elem))
        path.write_field(obj, 'items', items)
        path.write_field(obj, 'len', SV(IntS, z3.IntVal(len(v.items))))
        # multiset view of the literal: each listed element counted once per occurrence, nothing else
        from .builtins_impl import const_map
        cnt = const_map(container_fields(shape.cls)['cnt'], z3.IntVal(0))
        for x in v.items:
            xe = coerce(path, x, elem)
            c = cnt.shape.select(cnt, xe)
            cnt = cnt.shape.store(cnt, xe, SV(IntS, c.e + 1))
        path.write_field(obj, 'cnt', cnt)
        return obj
    if isinstance(shape, RefS) and shape.cls in CONTAINERS and CONTAINERS[shape.cls][0] == 'list' \
            and type(v).__name__ == 'VView' and path is not None and getattr(v, 'filter', None) is None:
        # list(d.values()) / list(d) stored or returned as a list: as many
        # elements as the dict has entries (their order is unspecified)
        obj = SRef(shape, path.new_id())
        path.write_field(obj, 'len', path.read_field(v.d, 'size'))
        path.pc.append(path.read_field(v.d, 'size').e >= 0)
        return obj
    if isinstance(shape, RefS) and shape.cls in CONTAINERS and CONTAINERS[shape.cls][0] in ('dict', 'set') \
            and path is not None and ((isinstance(v, PyList) and not v.items) or type(v).__name__ == 'VEmptySet'):
        # `{}` / `set()` stored where a dict / set is declared: a new, empty container
        from .builtins_impl import alloc_container

        class _Ex:           # alloc_container only needs .path
            pass
        e = _Ex()
        e.path = path
        return alloc_container(e, shape)
    if isinstance(v, SOpt) and not isinstance(shape, OptS):
        # caller must have established not-None
        return coerce(path, v.val, shape)
    raise Unsupported('cannot coerce %r to %s' % (v, shape))
